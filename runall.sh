#!/bin/bash
# developer helper: all 20 quick checks on /repo, prints only the ones whose exit code is not 0
cd /verif
bad=0
for i in $(seq -w 1 20); do
  ( ./check C$i quick > /tmp/runall_C$i.txt 2>&1; echo $? > /tmp/runall_C$i.rc ) &
done
wait
for i in $(seq -w 1 20); do
  rc=$(cat /tmp/runall_C$i.rc)
  if [ "$rc" != "0" ]; then bad=1; echo "C$i rc=$rc"; grep -E "^  |CHECK-BROKEN" /tmp/runall_C$i.txt | cut -c1-300 | head -5; fi
done
[ $bad = 0 ] && echo "all 20 checks: rc=0"
