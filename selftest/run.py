#!/usr/bin/env python3
"""Developer self-test: apply each small mutant to a scratch copy of /repo's sources and require that the named check reports a
violation (mutants), or stays silent (benign variants). Not part of MANIFEST checks.
usage: selftest/run.py [id-substring ...]"""
import json, os, shutil, subprocess, sys, tempfile
HERE = os.path.dirname(os.path.abspath(__file__))
VERIF = os.path.dirname(HERE)


def main():
    cases = json.load(open(os.path.join(HERE, 'mutants.json')))
    want = sys.argv[1:]
    bad = 0
    for c in cases:
        if want and not any(w in c['id'] for w in want):
            continue
        tmp = tempfile.mkdtemp(prefix='educe-mut-')
        try:
            shutil.copytree('/repo/src', os.path.join(tmp, 'src'))
            shutil.copy('/repo/Cargo.toml', tmp)
            okapply = True
            for e in c['edits']:
                p = os.path.join(tmp, e['file'])
                s = open(p).read()
                if e.get('regex'):
                    import re
                    s2 = re.sub(e['old'], e['new'], s)
                    if s2 == s:
                        okapply = False
                        print('%-40s CANNOT APPLY (regex matches nothing in %s)' % (c['id'], e['file']))
                        break
                    open(p, 'w').write(s2)
                    continue
                if e['old'] not in s:
                    okapply = False
                    print('%-40s CANNOT APPLY (pattern not found in %s)' % (c['id'], e['file']))
                    break
                s = s.replace(e['old'], e['new'], e.get('count', 1)) if e.get('count', 1) else s.replace(e['old'], e['new'])
                open(p, 'w').write(s)
            if not okapply:
                bad += 1
                continue
            for prop in c['checks']:
                p = subprocess.run([os.path.join(VERIF, 'check'), prop, 'quick', '--repo', tmp], capture_output=True, text=True,
                                   env=dict(os.environ, VERIF_SELFTEST='1'))
                fired = 'VIOLATION property=%s' % prop in p.stdout
                expect = c.get('expect', 'violation')
                ok = fired == (expect == 'violation')
                rules = sorted(set(l.split('[')[1].split(']')[0] for l in p.stdout.splitlines() if l.startswith('  ') and '[' in l))
                print('%-40s %s %-9s %s %s' % (c['id'], prop, 'fired' if fired else 'silent', 'OK' if ok else '** UNEXPECTED **', rules if fired else ''))
                if not ok:
                    bad += 1
                    if expect != 'violation':
                        print(p.stdout[-1500:])
        finally:
            shutil.rmtree(tmp, ignore_errors=True)
    print('unexpected results:', bad)
    return 1 if bad else 0


if __name__ == '__main__':
    sys.exit(main())
