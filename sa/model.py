"""Source model of the educe crate: modules, cfg predicates, items, functions, use-resolution."""
import itertools
from . import syn
from .syn import es, pat_s, ty_s, path_s

FEATURES = ['Debug', 'Clone', 'Copy', 'PartialEq', 'Eq', 'PartialOrd', 'Ord', 'Hash', 'Default',
            'Deref', 'DerefMut', 'Into']


# ------------------------------------------------------------------------------------------
# cfg predicates
# ------------------------------------------------------------------------------------------

def cfg_from_meta(m):
    """meta JSON of the *argument* of cfg(...) -> predicate tuple."""
    k = m['k']
    name = m['path']['s']
    if k == 'NameValue':
        v = m['value']
        if name == 'feature' and v['k'] == 'Lit' and v['lit']['k'] == 'Str':
            return ('feat', v['lit']['v'])
        return ('opaque', name + '=' + es(v))
    if k == 'List':
        nested = m.get('nested')
        if nested is None:
            return ('opaque', name + '(' + m['text'] + ')')
        subs = [cfg_from_meta(x) for x in nested]
        if name == 'any':
            return ('any', tuple(subs))
        if name == 'all':
            return ('all', tuple(subs))
        if name == 'not' and len(subs) == 1:
            return ('not', subs[0])
        return ('opaque', name + '(' + m['text'] + ')')
    return ('opaque', name)


def cfgs_of_attrs(attrs):
    """list of cfg predicates found on an attribute list (#[cfg(..)] only)."""
    out = []
    for a in attrs or []:
        if a['name'] == 'cfg':
            m = a['meta']
            if m['k'] == 'List' and m.get('nested') and len(m['nested']) == 1:
                out.append(cfg_from_meta(m['nested'][0]))
            else:
                out.append(('opaque', 'cfg'))
    return out


def cfg_eval(p, feats):
    """evaluate predicate under a set of enabled features; opaque -> None (unknown)."""
    k = p[0]
    if k == 'true':
        return True
    if k == 'feat':
        return p[1] in feats
    if k == 'not':
        v = cfg_eval(p[1], feats)
        return None if v is None else (not v)
    if k == 'any':
        vs = [cfg_eval(x, feats) for x in p[1]]
        if any(v is True for v in vs):
            return True
        if any(v is None for v in vs):
            return None
        return False
    if k == 'all':
        vs = [cfg_eval(x, feats) for x in p[1]]
        if any(v is False for v in vs):
            return False
        if any(v is None for v in vs):
            return None
        return True
    return None


def cfg_s(p):
    k = p[0]
    if k == 'true':
        return 'true'
    if k == 'feat':
        return 'feature="%s"' % p[1]
    if k == 'not':
        return 'not(%s)' % cfg_s(p[1])
    if k in ('any', 'all'):
        return '%s(%s)' % (k, ', '.join(cfg_s(x) for x in p[1]))
    return p[1]


def cfg_feats(p):
    k = p[0]
    if k == 'feat':
        return {p[1]}
    if k == 'not':
        return cfg_feats(p[1])
    if k in ('any', 'all'):
        s = set()
        for x in p[1]:
            s |= cfg_feats(x)
        return s
    return set()


def cfg_and(ps):
    ps = [p for p in ps if p != ('true',)]
    if not ps:
        return ('true',)
    if len(ps) == 1:
        return ps[0]
    return ('all', tuple(ps))


# ------------------------------------------------------------------------------------------
# crate model
# ------------------------------------------------------------------------------------------

class Module:
    def __init__(self, path, file, items, cfg, line=0):
        self.path = tuple(path)
        self.file = file
        self.items = items
        self.cfg = cfg  # conjunction from the crate root
        self.uses = {}  # local name -> list[str] path as written
        self.globs = []
        self.children = {}
        self.local_items = {}  # name -> item json
        self.line = line

    def __repr__(self):
        return 'Module(%s)' % '::'.join(self.path)


class Fn:
    def __init__(self, module, name, item, self_ty=None, trait=None, impl_item=None, cfg=('true',)):
        self.module = module
        self.name = name
        self.item = item
        self.self_ty = self_ty
        self.trait = trait
        self.impl_item = impl_item
        self.file = module.file
        self.line = item.get('l', 0)
        self.cfg = cfg
        parts = list(module.path)
        if self_ty:
            parts.append(self_ty)
        parts.append(name)
        self.qname = '::'.join(parts)

    @property
    def sig(self):
        return self.item['sig']

    @property
    def block(self):
        return self.item['block']

    def params(self):
        out = []
        for a in self.sig['inputs']:
            if a['k'] == 'Self':
                out.append(('self', a.get('ty')))
            else:
                p = a['pat']
                out.append((p.get('name') if p['k'] == 'Ident' else pat_s(p), a['ty']))
        return out

    def __repr__(self):
        return 'Fn(%s)' % self.qname


class Crate:
    def __init__(self, repo):
        self.repo = repo
        self.dump = syn.dump(repo)
        from .normalise import norm
        for f_ in self.dump['files'].values():
            f_['items'] = norm(f_['items'])
        self.errors = list(self.dump.get('errors', []))
        self.files = self.dump['files']
        self.modules = {}
        self.fns = []
        self.fn_by_q = {}
        self.types = {}  # (mod_path tuple, name) -> item
        self._build()
        from .inline import inline_helpers
        self.inlined_calls = inline_helpers(self)

    # -- construction -------------------------------------------------------------------
    def _build(self):
        by_path = {}
        for fname, f in self.files.items():
            by_path[tuple(f['mod_path'])] = (fname, f)
        if () not in by_path:
            self.errors.append('src/lib.rs missing from dump')
            return
        self._add_module((), by_path[()][0], by_path[()][1]['items'], ('true',), by_path)

    def _add_module(self, path, fname, items, cfg, by_path, line=0):
        m = Module(path, fname, items, cfg, line)
        self.modules[tuple(path)] = m
        for it in items:
            k = it['k']
            icfg = cfg_and([cfg] + cfgs_of_attrs(it.get('attrs')))
            if k == 'Mod':
                name = it['name']
                if name.startswith('r#'):
                    name = name[2:]
                sub = tuple(path) + (name,)
                m.local_items[name] = it
                if it.get('content') is not None:
                    child = self._add_module(sub, fname, it['content'], icfg, by_path, it['l'])
                elif sub in by_path:
                    child = self._add_module(sub, by_path[sub][0], by_path[sub][1]['items'], icfg, by_path, it['l'])
                else:
                    self.errors.append('module %s declared in %s but not loaded' % ('::'.join(sub), fname))
                    continue
                child.decl = it
                m.children[name] = child
            elif k == 'Use':
                for u in it['uses']:
                    if u.get('glob'):
                        m.globs.append((u['path'], icfg, it))
                    else:
                        m.uses.setdefault(u['name'], []).append((u['path'], icfg, it))
            elif k == 'Fn':
                name = it['sig']['name']
                m.local_items[name] = it
                fn = Fn(m, name, it, cfg=icfg)
                self.fns.append(fn)
            elif k == 'Impl':
                st = it['self_ty']
                self_name = st['path']['segs'][-1]['id'] if st['k'] == 'Path' else ty_s(st)
                tr = it['trait']['path']['s'] if it.get('trait') else None
                for ii in it['items']:
                    if ii['k'] == 'Fn':
                        fcfg = cfg_and([icfg] + cfgs_of_attrs(ii.get('attrs')))
                        fn = Fn(m, ii['sig']['name'], ii, self_ty=self_name, trait=tr, impl_item=it, cfg=fcfg)
                        self.fns.append(fn)
            elif k in ('Struct', 'Enum', 'Union', 'TypeAlias', 'Const', 'Static', 'Trait'):
                m.local_items[it['name']] = it
                self.types[(tuple(path), it['name'])] = it
        for fn in self.fns:
            self.fn_by_q.setdefault(fn.qname, fn)
        return m

    # -- lookups ------------------------------------------------------------------------
    def module_of_file(self, fname):
        for m in self.modules.values():
            if m.file == fname:
                return m
        return None

    def fns_named(self, name):
        return [f for f in self.fns if f.name == name]

    def resolve(self, module, segs, depth=0):
        """Resolve a path (list of segment strings) written inside `module`.
        Returns ('crate', tuple_path) for crate-local targets, ('extern', tuple) otherwise."""
        segs = list(segs)
        if depth > 8 or not segs:
            return ('extern', tuple(segs))
        first = segs[0]
        if first == '':  # leading ::
            return ('extern', tuple(segs[1:]))
        if first == 'crate':
            return self._norm_crate(tuple(segs[1:]), depth)
        if first == 'self':
            return self._norm_crate(module.path + tuple(segs[1:]), depth)
        if first == 'super':
            cur = module.path
            i = 0
            while i < len(segs) and segs[i] == 'super':
                cur = cur[:-1]
                i += 1
            return self._norm_crate(cur + tuple(segs[i:]), depth)
        if first == 'Self':
            return ('self', tuple(segs[1:]))
        # local item / child module
        if first in module.local_items:
            return self._norm_crate(module.path + tuple(segs), depth)
        if first in module.uses:
            target = module.uses[first][0][0]
            r = self.resolve(module, list(target) + segs[1:], depth + 1)
            return r
        for g, _cfg, _it in module.globs:
            r = self.resolve(module, list(g), depth + 1)
            if r[0] == 'crate' and r[1] in self.modules:
                gm = self.modules[r[1]]
                if first in gm.local_items or first in gm.uses:
                    return self.resolve(gm, segs, depth + 1)
        return ('extern', tuple(segs))

    def _norm_crate(self, path, depth):
        """follow re-exports: if a prefix of path is a module and the next segment is a `use`d name there."""
        path = tuple(path)
        # longest module prefix
        for i in range(len(path), -1, -1):
            if path[:i] in self.modules:
                m = self.modules[path[:i]]
                rest = path[i:]
                if rest and rest[0] not in m.local_items and (rest[0] in m.uses or m.globs) and depth < 8:
                    if rest[0] in m.uses:
                        target = m.uses[rest[0]][0][0]
                        return self.resolve(m, list(target) + list(rest[1:]), depth + 1)
                    for g, _c, _i in m.globs:
                        r = self.resolve(m, list(g), depth + 1)
                        if r[0] == 'crate' and r[1] in self.modules:
                            gm = self.modules[r[1]]
                            if rest[0] in gm.local_items or rest[0] in gm.uses:
                                return self.resolve(gm, list(rest), depth + 1)
                break
        return ('crate', path)

    def find_type(self, module, name):
        """struct/enum item for a type name as seen from `module`."""
        r = self.resolve(module, [name])
        if r[0] == 'crate':
            p = r[1]
            return self.types.get((p[:-1], p[-1])), p
        return None, None

    def find_fn(self, module, segs, self_ty=None):
        """resolve a call path to crate-local Fn objects (possibly several cfg twins)."""
        r = self.resolve(module, segs)
        if r[0] == 'self' and self_ty:
            q = '::'.join(module.path + (self_ty,) + r[1])
            return [f for f in self.fns if f.qname == q]
        if r[0] != 'crate':
            return []
        q = '::'.join(r[1])
        return [f for f in self.fns if f.qname == q]
