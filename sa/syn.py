"""Interface to the synjson tool (syn -> JSON) plus printing helpers for the JSON AST."""
import json, os, subprocess, hashlib

VERIF = os.path.dirname(os.path.dirname(os.path.abspath(__file__)))
SYNJSON = os.path.join(VERIF, 'tools', 'synjson', 'target', 'release', 'synjson')
if not os.path.exists(SYNJSON) and os.path.exists('/verif/tools/synjson/target/release/synjson'):
    # background snapshots (vp run) hold committed files only: use the built tool of /verif
    SYNJSON = '/verif/tools/synjson/target/release/synjson'


class ToolError(Exception):
    pass


def dump(repo):
    if not os.path.exists(SYNJSON):
        raise ToolError('synjson not built: run MANIFEST.setup_cmd (%s missing)' % SYNJSON)
    p = subprocess.run([SYNJSON, 'dump', repo], capture_output=True, text=True)
    if p.returncode not in (0, 3):
        raise ToolError('synjson dump failed: ' + p.stderr[-2000:])
    return json.loads(p.stdout)


_parse_cache = {}


def parse_many(reqs):
    """reqs: list of (cat, text) -> list of (ok, ast_or_err)."""
    todo = []
    for cat, text in reqs:
        if (cat, text) not in _parse_cache:
            todo.append((cat, text))
    if todo:
        uniq = list(dict.fromkeys(todo))
        payload = json.dumps([{'id': i, 'cat': c, 'text': t} for i, (c, t) in enumerate(uniq)])
        p = subprocess.run([SYNJSON, 'parse'], input=payload, capture_output=True, text=True)
        if p.returncode != 0:
            raise ToolError('synjson parse failed: ' + p.stderr[-2000:])
        res = json.loads(p.stdout)
        for r in res:
            c, t = uniq[r['id']]
            _parse_cache[(c, t)] = (True, r['ast']) if r['ok'] else (False, r['err'])
    return [_parse_cache[(c, t)] for c, t in reqs]


def parse(cat, text):
    return parse_many([(cat, text)])[0]


# ------------------------------------------------------------------------------------------
# printing
# ------------------------------------------------------------------------------------------

def path_s(p):
    if p is None:
        return '?'
    return p['s']


def path_full(p):
    """path with generic args rendered."""
    out = '::' if p.get('global') else ''
    parts = []
    for seg in p['segs']:
        s = seg['id']
        if 'args' in seg:
            s += ('::' if seg.get('turbofish') else '') + '<' + ', '.join(garg_s(a) for a in seg['args']) + '>'
        parts.append(s)
    return out + '::'.join(parts)


def garg_s(a):
    k = a['k']
    if k == 'Lifetime':
        return "'" + a['s']
    if k == 'Type':
        return ty_s(a['ty'])
    if k == 'Const':
        return es(a['expr'])
    if k == 'AssocType':
        return a['name'] + ' = ' + ty_s(a['ty'])
    return a.get('text', k)


def ty_s(t):
    if t is None:
        return '_'
    k = t['k']
    if k == 'Path':
        s = path_full(t['path'])
        q = t.get('qself')
        if q:
            pos = q['pos']
            segs = s.split('::')
            # approximate rendering
            return '<%s as %s>::%s' % (ty_s(q['ty']), '::'.join(segs[:pos + (1 if t['path']['global'] else 0)]), '::'.join(segs[pos + (1 if t['path']['global'] else 0):]))
        return s
    if k == 'Ref':
        return '&' + ("'" + t['lifetime'] + ' ' if t.get('lifetime') else '') + ('mut ' if t['mut'] else '') + ty_s(t['elem'])
    if k == 'Ptr':
        return '*' + ('mut ' if t['mut'] else 'const ') + ty_s(t['elem'])
    if k == 'Tuple':
        return '(' + ', '.join(ty_s(e) for e in t['elems']) + ')'
    if k == 'Slice':
        return '[' + ty_s(t['elem']) + ']'
    if k == 'Array':
        return '[' + ty_s(t['elem']) + '; ' + es(t['len']) + ']'
    if k == 'Infer':
        return '_'
    if k == 'Never':
        return '!'
    return t.get('text', k)


def lit_s(l):
    k = l['k']
    if k == 'Str':
        return json.dumps(l['v'])
    if k == 'Int':
        return l['text']
    if k == 'Bool':
        return 'true' if l['v'] else 'false'
    if k == 'Char':
        return repr(l['v'])
    if k == 'Float':
        return l['digits'] + l['suffix']
    if k == 'Byte':
        return 'b%r' % chr(l['v'])
    return l.get('text', k)


def pat_s(p):
    if p is None:
        return '_'
    k = p['k']
    if k == 'Ident':
        s = ('ref ' if p['by_ref'] else '') + ('mut ' if p['mut'] else '') + p['name']
        if p.get('sub'):
            s += ' @ ' + pat_s(p['sub'])
        return s
    if k == 'Wild':
        return '_'
    if k == 'Rest':
        return '..'
    if k == 'Tuple':
        return '(' + ', '.join(pat_s(e) for e in p['elems']) + ')'
    if k == 'TupleStruct':
        return path_s(p['path']) + '(' + ', '.join(pat_s(e) for e in p['elems']) + ')'
    if k == 'Struct':
        fs = []
        for f in p['fields']:
            if f['shorthand']:
                fs.append(pat_s(f['pat']))
            else:
                fs.append('%s: %s' % (f['member'], pat_s(f['pat'])))
        if p['rest']:
            fs.append('..')
        return path_s(p['path']) + ' { ' + ', '.join(fs) + ' }'
    if k == 'Path':
        return path_s(p['path'])
    if k == 'Lit':
        return lit_s(p['lit'])
    if k == 'Or':
        return ' | '.join(pat_s(c) for c in p['cases'])
    if k == 'Ref':
        return '&' + ('mut ' if p['mut'] else '') + pat_s(p['pat'])
    if k == 'Type':
        return pat_s(p['pat']) + ': ' + ty_s(p['ty'])
    if k == 'Macro':
        return mac_s(p['mac'])
    return p.get('text', k)


def pat_shape(p):
    """pattern text with binder names erased (`Some(x)` -> `Some(_)`): the canonical pattern of value terms, so that renaming a
    pattern variable does not change a term"""
    if p is None:
        return '_'
    k = p['k']
    if k == 'Ident':
        if p.get('sub'):
            return pat_shape(p['sub'])
        n = p['name']
        return n if (n[:1].isupper()) else '_'
    if k == 'Tuple':
        return '(' + ', '.join(pat_shape(e) for e in p['elems']) + ')'
    if k == 'TupleStruct':
        return path_s(p['path']) + '(' + ', '.join(pat_shape(e) for e in p['elems']) + ')'
    if k == 'Struct':
        fs = []
        for f in p['fields']:
            fs.append('%s: %s' % (f['member'], pat_shape(f['pat'])))
        if p['rest']:
            fs.append('..')
        return path_s(p['path']) + ' { ' + ', '.join(fs) + ' }'
    if k == 'Or':
        return ' | '.join(pat_shape(c) for c in p['cases'])
    if k == 'Ref':
        return pat_shape(p['pat'])
    if k == 'Type':
        return pat_shape(p['pat'])
    return pat_s(p)


def toks_s(ts):
    """render a token list (template or macro body) to source text that re-lexes identically."""
    out = []
    for t in ts:
        k = t['t']
        if k == 'i' or k == 'l':
            out.append(t['s'])
            out.append(' ')
        elif k == 'p':
            out.append(t['s'])
            if not t['j']:
                out.append(' ')
        elif k == 'h':
            out.append('#' + t['s'])
            out.append(' ')
        elif k == 'g':
            d = t['d']
            close = {'(': ')', '{': '}', '[': ']', '': ''}[d]
            out.append(d + ' ' + toks_s(t['ts']) + close + ' ')
        elif k == 'rep':
            out.append('#( ' + toks_s(t['ts']) + ')* ')
    return ''.join(out)


def mac_s(m):
    if 'tmpl' in m:
        return '%s!(%s)' % (m['name'], toks_s(m['tmpl']).strip())
    return '%s!(%s)' % (m['name'], m.get('text', ''))


def es(e, depth=0):
    """compact, deterministic rendering of an expression (used in reports and guard keys)."""
    if e is None:
        return ''
    k = e['k']
    if k == 'Path':
        s = path_full(e['path'])
        q = e.get('qself')
        if q:
            return '<%s>::%s' % (ty_s(q['ty']), s)
        return s
    if k == 'Lit':
        return lit_s(e['lit'])
    if k == 'Call':
        return es(e['func']) + '(' + ', '.join(es(a) for a in e['args']) + ')'
    if k == 'MethodCall':
        tf = ''
        if e.get('turbofish'):
            tf = '::<' + ', '.join(garg_s(a) for a in e['turbofish']) + '>'
        return es(e['recv']) + '.' + e['method'] + tf + '(' + ', '.join(es(a) for a in e['args']) + ')'
    if k == 'Field':
        return es(e['base']) + '.' + str(e['member'])
    if k == 'Index':
        return es(e['base']) + '[' + es(e['index']) + ']'
    if k == 'Ref':
        return '&' + ('mut ' if e['mut'] else '') + es(e['expr'])
    if k == 'Unary':
        return e['op'] + es(e['expr'])
    if k == 'Binary':
        return '(' + es(e['l_']) + ' ' + e['op'] + ' ' + es(e['r_']) + ')'
    if k == 'Assign':
        return es(e['l_']) + ' = ' + es(e['r_'])
    if k == 'Cast':
        return es(e['expr']) + ' as ' + ty_s(e['ty'])
    if k == 'If':
        s = 'if ' + es(e['cond']) + ' ' + es(e['then'])
        if e.get('else'):
            s += ' else ' + es(e['else'])
        return s
    if k == 'Let':
        return 'let ' + pat_s(e['pat']) + ' = ' + es(e['expr'])
    if k == 'Match':
        return 'match ' + es(e['expr']) + ' { ' + ' '.join(
            pat_s(a['pat']) + (' if ' + es(a['guard']) if a.get('guard') else '') + ' => ' + es(a['body']) + ',' for a in e['arms']) + ' }'
    if k == 'Block':
        return '{ ' + ' '.join(stmt_s(s) for s in e['stmts']) + ' }'
    if k == 'Unsafe':
        return 'unsafe ' + es(e['block'])
    if k == 'For':
        return 'for ' + pat_s(e['pat']) + ' in ' + es(e['expr']) + ' ' + es(e['body'])
    if k == 'While':
        return 'while ' + es(e['cond']) + ' ' + es(e['body'])
    if k == 'Loop':
        return 'loop ' + es(e['body'])
    if k == 'Closure':
        return '|' + ', '.join(pat_s(p) for p in e['params']) + '| ' + es(e['body'])
    if k == 'Return':
        return 'return' + (' ' + es(e['expr']) if e.get('expr') else '')
    if k == 'Break':
        return 'break'
    if k == 'Continue':
        return 'continue'
    if k == 'Try':
        return es(e['expr']) + '?'
    if k == 'Struct':
        fs = [('%s' % f['member'] if f['shorthand'] else '%s: %s' % (f['member'], es(f['expr']))) for f in e['fields']]
        if e.get('rest'):
            fs.append('..' + es(e['rest']))
        return path_s(e['path']) + ' { ' + ', '.join(fs) + ' }'
    if k == 'Tuple':
        return '(' + ', '.join(es(x) for x in e['elems']) + (',' if len(e['elems']) == 1 else '') + ')'
    if k == 'Array':
        return '[' + ', '.join(es(x) for x in e['elems']) + ']'
    if k == 'Repeat':
        return '[' + es(e['expr']) + '; ' + es(e['len']) + ']'
    if k == 'Range':
        return es(e.get('from')) + ('..=' if e['closed'] else '..') + es(e.get('to'))
    if k == 'Macro':
        return mac_s(e['mac'])
    if k == 'RawAddr':
        return '&raw ' + ('mut ' if e['mut'] else 'const ') + es(e['expr'])
    return e.get('text', k)


def stmt_s(s):
    k = s['k']
    if k == 'Local':
        r = 'let ' + pat_s(s['pat'])
        if s.get('ty'):
            r += ': ' + ty_s(s['ty'])
        if s.get('init'):
            r += ' = ' + es(s['init'])
        return r + ';'
    if k == 'Expr':
        return es(s['expr']) + (';' if s['semi'] else '')
    if k == 'Item':
        return '<item %s>' % s['item'].get('k')
    return k


def walk_json(x):
    """yield every dict node of a JSON tree (pre-order)."""
    stack = [x]
    while stack:
        n = stack.pop()
        if isinstance(n, dict):
            yield n
            for k, v in reversed(list(n.items())):
                if isinstance(v, (dict, list)) and not (isinstance(k, str) and k.startswith('_')):
                    stack.append(v)
        elif isinstance(n, list):
            for v in reversed(n):
                if isinstance(v, (dict, list)):
                    stack.append(v)


def sha(s):
    return hashlib.sha1(s.encode()).hexdigest()[:12]
