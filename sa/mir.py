"""Type-resolved facts from rustc's MIR of the `educe` crate (tools/mirfacts, a rustc_private driver run as
RUSTC_WORKSPACE_WRAPPER under `cargo +nightly check --all-features`).  Nothing is executed: the driver stops after analysis and dumps
call terminators (callee resolved through the trait system), Assert terminators and loop back edges.

Used as a cross-check of the syntax-level censuses of C16/C17: the syntax engine recognises panic-capable / order-dependent
constructs by shape and name, rustc by type.  Every MIR site must be matched by a census site of the same kind in the same
function; a site only rustc sees (operator overloading, an alias, type inference, a method of the same name on another type the
other way round) is reported.
"""
import os, json, subprocess, tempfile, shutil, hashlib
from .syn import ToolError, VERIF, walk_json

DRIVER = os.path.join(VERIF, 'tools', 'mirfacts', 'target', 'release', 'mirfacts')
if not os.path.exists(DRIVER) and os.path.exists('/verif/tools/mirfacts/target/release/mirfacts'):
    DRIVER = '/verif/tools/mirfacts/target/release/mirfacts'

_cache = {}


def _tree_hash(repo):
    h = hashlib.sha256()
    for base in ('src',):
        for root, dirs, files in sorted(os.walk(os.path.join(repo, base))):
            dirs.sort()
            for f in sorted(files):
                p = os.path.join(root, f)
                h.update(p.encode())
                h.update(open(p, 'rb').read())
    for f in ('Cargo.toml', 'Cargo.lock'):
        p = os.path.join(repo, f)
        if os.path.exists(p):
            h.update(open(p, 'rb').read())
    h.update(open(DRIVER, 'rb').read() if os.path.exists(DRIVER) else b'')
    return h.hexdigest()[:24]


def facts(repo, features=None):
    """list of fact dicts for the current working tree of `repo`; features=None: all features, else a list of feature names
    (--no-default-features --features ...)"""
    repo = os.path.abspath(repo)
    ck = (repo, None if features is None else tuple(features))
    if ck in _cache:
        return _cache[ck]
    if not os.path.exists(DRIVER):
        raise ToolError('mirfacts driver not built: run MANIFEST.setup_cmd (%s missing)' % DRIVER)
    key = _tree_hash(repo) + ('' if features is None else '-' + ('_'.join(features) or 'none'))
    cdir = os.path.join(VERIF, '.cache')
    cfile = os.path.join(cdir, 'mirfacts-%s.jsonl' % key)
    os.makedirs(cdir, exist_ok=True)
    import fcntl
    lock = open(os.path.join(cdir, 'mirfacts.lock'), 'w')
    fcntl.flock(lock, fcntl.LOCK_EX)      # C16 and C17 may run at the same time: one of them builds the facts, the other waits
    if not os.path.exists(cfile):
        tmp = tempfile.mkdtemp(prefix='educe-mir-')
        try:
            sysroot = subprocess.run(['rustc', '+nightly', '--print', 'sysroot'], capture_output=True, text=True, stdin=subprocess.DEVNULL)
            if sysroot.returncode != 0:
                raise ToolError('nightly toolchain not available: ' + sysroot.stderr[-500:])
            out = os.path.join(tmp, 'facts.jsonl')
            env = dict(os.environ)
            env.update({'LD_LIBRARY_PATH': os.path.join(sysroot.stdout.strip(), 'lib') + ':' + env.get('LD_LIBRARY_PATH', ''),
                        'RUSTFLAGS': '-Zmir-opt-level=0 -Awarnings', 'MIRFACTS_OUT': out, 'RUSTC_WORKSPACE_WRAPPER': DRIVER,
                        'CARGO_TARGET_DIR': os.path.join(tmp, 'target'), 'CARGO_NET_OFFLINE': 'true'})
            env.pop('RUSTC_WRAPPER', None)
            fl = ['--all-features'] if features is None else ['--no-default-features'] + (['--features', ','.join(features)] if features else [])
            for _attempt in range(3):
                p = subprocess.run(['cargo', '+nightly', 'check', '--offline', '--lib'] + fl + ['--manifest-path', os.path.join(repo, 'Cargo.toml')],
                                   capture_output=True, text=True, env=env, cwd=repo, stdin=subprocess.DEVNULL)
                # cargo's own `rustc -` probe has been seen to fail when many cargo processes start at the same moment: not a verdict
                if p.returncode == 0 or 'to learn about target-specific information' not in p.stderr:
                    break
                import time as _t
                _t.sleep(2 + 3 * _attempt)
                shutil.rmtree(os.path.join(tmp, 'target'), ignore_errors=True)
            if p.returncode != 0:
                raise ToolError('cargo +nightly check under the MIR driver failed: ' + p.stderr[-1500:])
            if not os.path.exists(out) or os.path.getsize(out) == 0:
                raise ToolError('the MIR driver produced no fact file (crate not compiled through the wrapper?)')
            os.makedirs(cdir, exist_ok=True)
            def _mt(x_):
                try:
                    return os.path.getmtime(x_)
                except OSError:
                    return 0.0
            old = sorted((os.path.join(cdir, x) for x in os.listdir(cdir) if x.startswith('mirfacts-') and x.endswith('.jsonl')), key=_mt)
            for x in old[:-40]:
                try:
                    os.remove(x)
                except OSError:
                    pass
            shutil.copy(out, cfile + '.tmp%d' % os.getpid())
            os.replace(cfile + '.tmp%d' % os.getpid(), cfile)
        finally:
            shutil.rmtree(tmp, ignore_errors=True)
            if not os.path.exists(cfile):
                fcntl.flock(lock, fcntl.LOCK_UN)
    # read (and mark as recently used) while the lock is still held: a concurrent builder evicts the oldest entries under the lock
    try:
        os.utime(cfile, None)
    except OSError:
        pass
    try:
        rows = [json.loads(l) for l in open(cfile) if l.strip()]
    finally:
        fcntl.flock(lock, fcntl.LOCK_UN)
    _cache[ck] = rows
    return rows


class FnIndex:
    """maps (file, line) to the innermost syntax-level function containing it"""
    def __init__(self, cx):
        self.spans = {}
        for f in cx.crate.fns:
            lo = f.line
            hi = lo
            for x in walk_json(f.item):
                if isinstance(x, dict):
                    l = x.get('l')
                    if isinstance(l, int) and l > hi:
                        hi = l
            # the closing brace is after the last node: extend to the next line
            self.spans.setdefault(f.file, []).append((lo, hi + 1, f))

    def find(self, file, line):
        best = None
        for lo, hi, f in self.spans.get(file, ()):
            if lo <= line <= hi and (best is None or lo >= best[0]):
                best = (lo, hi, f)
        return best[2] if best else None


PANIC_UNWRAP = ('Option::<T>::unwrap', 'Option::<T>::expect', 'Result::<T, E>::unwrap', 'Result::<T, E>::expect',
                'Result::<T, E>::unwrap_err', 'Result::<T, E>::expect_err')


def panic_kind(r):
    """census kind of a panic-capable MIR fact, or None"""
    if r['k'] == 'assert':
        w = r['what']
        if w == 'bounds':
            return 'index'
        if w.startswith('overflow') or w in ('div0', 'rem0'):
            return 'arith'
        return 'ptrcheck'
    if r['k'] != 'call':
        return None
    c = r['callee']
    if any(c.endswith(x) for x in PANIC_UNWRAP):
        return 'unwrap'
    if c.endswith('>::index') or c.endswith('>::index_mut'):
        return 'index'
    # type-resolved std methods that take an index / range and panic when it is out of range or off a char boundary
    for ty, ms in (('String::', ('truncate', 'remove', 'insert', 'insert_str', 'drain', 'split_off', 'replace_range')),
                   ('str::', ('split_at', 'split_at_mut')),
                   ('Vec::<T, A>::', ('remove', 'swap_remove', 'insert', 'drain', 'split_off')),
                   ('VecDeque::<T, A>::', ('remove', 'insert', 'swap')),
                   ('[T]::', ('split_at', 'split_at_mut', 'swap', 'copy_from_slice', 'clone_from_slice', 'chunks', 'chunks_exact', 'windows',
                               'rotate_left', 'rotate_right')),
                   ('RefCell::<T>::', ('borrow', 'borrow_mut'))):
        for m in ms:
            if c.endswith(ty + m):
                return 'insert' if (ty, m) in (('Vec::<T, A>::', 'insert'), ('String::', 'insert'), ('VecDeque::<T, A>::', 'insert')) else 'method'
    if c.startswith('core::panicking::') or c.startswith('std::rt::begin_panic') or c.startswith('std::rt::panic') \
            or c.startswith('core::option::unwrap_failed') or c.startswith('core::result::unwrap_failed') or c.startswith('core::option::expect_failed'):
        return 'macro'
    if c in ('std::process::exit', 'std::process::abort', 'core::intrinsics::abort', 'std::intrinsics::abort'):
        return 'abort'
    return None


HASH_ITER = ('iter', 'iter_mut', 'keys', 'values', 'values_mut', 'into_iter', 'into_keys', 'into_values', 'drain', 'retain', 'extract_if')


def hash_iter(r):
    if r['k'] != 'call':
        return None
    c = r['callee']
    full = r.get('full', '')
    for ty in ('HashMap', 'HashSet'):
        for m in HASH_ITER:
            if c.endswith('%s::<K, V, S, A>::%s' % (ty, m)) or c.endswith('%s::<K, V, S>::%s' % (ty, m)) or c.endswith('%s::<T, S, A>::%s' % (ty, m)) \
                    or c.endswith('%s::<T, S>::%s' % (ty, m)):
                return '%s::%s' % (ty, m)
        if ('IntoIterator' in c and 'into_iter' in c and (('collections::%s' % ty) in c or ('hash_map::%s' % ty) in c or ('hash::map::%s' % ty) in c or ('hash::set::%s' % ty) in c)):
            return '%s::into_iter' % ty
        if 'IntoIterator' in full and full.startswith('<'):
            st = full[1:].split(' as ')[0]
            while st[:1] == '&' or st.startswith("'") or st.startswith('mut '):
                st = st[1:] if st[:1] == '&' else (st.split(' ', 1)[1] if ' ' in st else '')
            if st.startswith('std::collections::%s<' % ty) or st.startswith('%s<' % ty):
                return '%s::into_iter' % ty
    return None


ENV_PREFIX = ('std::time::', 'std::env::', 'std::fs::', 'std::process::', 'std::thread::', 'std::net::', 'std::io::stdin', 'rand::',
              'getrandom::', 'std::os::', 'std::sync::atomic', 'std::hash::RandomState', 'std::collections::hash_map::RandomState',
              'std::hash::random::RandomState', 'core::sync::atomic', 'std::sync::Mutex', 'std::sync::OnceLock', 'std::sync::RwLock',
              'std::cell::RefCell', 'core::cell::RefCell', 'std::thread_local', 'std::thread::LocalKey')


def env_call(r):
    if r['k'] != 'call':
        return None
    c = r['callee'].lstrip('<')
    for p in ENV_PREFIX:
        if c.startswith(p) or (' as ' in r['callee'] and r['callee'].lstrip('<').startswith(p)):
            return p
    return None


TRAIT_FEATURES = ['Debug', 'Clone', 'Copy', 'PartialEq', 'Eq', 'PartialOrd', 'Ord', 'Hash', 'Default', 'Deref', 'DerefMut', 'Into']


def configs(tier):
    """feature configurations whose MIR is examined: quick = all features; thorough adds every single feature and six co-singletons (the empty set is a compile_error by design), so
    that code under #[cfg(not(feature = ..))] (invisible in the all-features build) is seen by rustc too"""
    if tier != 'thorough':
        return [None]
    return [None] + [[f] for f in TRAIT_FEATURES] + [[f for f in TRAIT_FEATURES if f != g] for g in ('PartialOrd', 'Ord', 'Eq', 'PartialEq', 'Copy', 'Clone')]
