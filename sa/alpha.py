"""Alpha-normal printing of expressions of small helper functions: local names (parameters, pattern binders, immutable lets, closure
parameters) are replaced by canonical names derived from what they are bound to, so that tables of "this case yields that
conversion" do not depend on how the programmer named a variable.

canonical names:  parameters `$0, $1, ..`;  the binder of `Path::Variant(x)` is `variant` in snake case (`Meta::NameValue(nv)` ->
`name_value`, `Lit::Str(s)` -> `str`, `Some(i)` -> `some`), with `_<i>` appended when the pattern has several elements;  struct
pattern fields: the field name;  an immutable `let x = init;` with a plain identifier pattern is inlined;  closure parameters `$c0..`;
anything else keeps its own name.
"""
import re
from .syn import es


def snake(s):
    return re.sub(r'(?<!^)(?=[A-Z])', '_', s).lower()


def _path_node(name, l=0):
    return {'k': 'Path', 'path': {'segs': [{'id': name}], 's': name, 'global': False}, 'qself': False, 'l': l}


def binders(pat, out, hint=None):
    """name -> canonical name for every binder of `pat`"""
    k = pat['k']
    if k == 'Ident':
        n = pat['name']
        if n[:1].isupper():
            return
        out[n] = hint or n
        if pat.get('sub'):
            binders(pat['sub'], out, hint)
    elif k == 'TupleStruct':
        base = snake(pat['path']['segs'][-1]['id'])
        many = len(pat['elems']) > 1
        for i, e in enumerate(pat['elems']):
            binders(e, out, '%s_%d' % (base, i) if many else base)
    elif k == 'Struct':
        for f in pat['fields']:
            binders(f['pat'], out, str(f['member']))
    elif k == 'Tuple':
        for i, e in enumerate(pat['elems']):
            binders(e, out, '%s_%d' % (hint or '$t', i))
    elif k in ('Ref', 'Type'):
        binders(pat['pat'], out, hint)
    elif k == 'Or':
        for c in pat['cases']:
            binders(c, out, hint)
    elif k == 'Slice':
        for i, e in enumerate(pat['elems']):
            binders(e, out, '%s_%d' % (hint or '$s', i))


class Alpha:
    def __init__(self, f):
        self.f = f
        self.env_at = {}
        env = {}
        i = 0
        for a in f.sig['inputs']:
            if a['k'] == 'Typed':
                b = {}
                binders(a['pat'], b, '$%d' % i)
                env.update({k: _path_node(v) for k, v in b.items()})
                i += 1
        self.block(f.block, env)

    # -- environment construction --------------------------------------------------------------
    def block(self, blk, env):
        env = dict(env)
        for st in blk.get('stmts', []):
            if st['k'] == 'Local':
                init = st.get('init')
                if init is not None:
                    self.expr(init, env)
                if st.get('else') is not None:
                    self.expr(st['else'], env)
                p = st['pat']
                while p['k'] == 'Type':
                    p = p['pat']
                if p['k'] == 'Ident' and not p['mut'] and not p['by_ref'] and init is not None and not p.get('sub'):
                    env = dict(env)
                    env[p['name']] = self.subst(init, env)
                else:
                    b = {}
                    binders(st['pat'], b)
                    env = dict(env)
                    env.update({k: _path_node(v) for k, v in b.items()})
            elif st['k'] == 'Expr':
                self.expr(st['expr'], env)

    def with_pat(self, env, pat):
        b = {}
        binders(pat, b)
        e2 = dict(env)
        e2.update({k: _path_node(v) for k, v in b.items()})
        return e2

    def expr(self, e, env):
        if not isinstance(e, dict):
            return
        self.env_at[id(e)] = env
        k = e.get('k')
        if k == 'Block':
            self.block(e, env)
        elif k == 'Unsafe':
            self.block(e['block'], env)
        elif k == 'If':
            c = e['cond']
            if c['k'] == 'Let':
                self.expr(c['expr'], env)
                self.block(e['then'], self.with_pat(env, c['pat']))
            else:
                self.expr(c, env)
                self.block(e['then'], env)
            if e.get('else') is not None:
                self.expr(e['else'], env)
        elif k == 'Match':
            self.expr(e['expr'], env)
            for a in e['arms']:
                ae = self.with_pat(env, a['pat'])
                if a.get('guard') is not None:
                    self.expr(a['guard'], ae)
                self.expr(a['body'], ae)
        elif k == 'For':
            self.expr(e['expr'], env)
            self.block(e['body'], self.with_pat(env, e['pat']))
        elif k in ('While', 'Loop'):
            if e.get('cond') is not None:
                self.expr(e['cond'], env)
            self.block(e['body'], env)
        elif k == 'Closure':
            ce = dict(env)
            for i, p in enumerate(e['params']):
                b = {}
                binders(p, b, '$c%d' % i)
                ce.update({k_: _path_node(v) for k_, v in b.items()})
            self.expr(e['body'], ce)
        else:
            for key, v in e.items():
                if isinstance(key, str) and key.startswith('_'):
                    continue
                if isinstance(v, dict) and 'k' in v:
                    self.expr(v, env)
                elif isinstance(v, list):
                    for x in v:
                        if isinstance(x, dict) and 'k' in x:
                            self.expr(x, env)

    # -- printing -----------------------------------------------------------------------------------
    def subst(self, node, env):
        """deep copy with local names replaced (binding constructs inside `node` extend the environment)"""
        if isinstance(node, list):
            return [self.subst(x, env) for x in node]
        if not isinstance(node, dict):
            return node
        k = node.get('k')
        if k == 'Path' and 'path' in node and len(node['path'].get('segs', [])) == 1 and node['path']['s'] in env and not node['path'].get('global'):
            return env[node['path']['s']]
        if k == 'Macro' and isinstance(node.get('mac'), dict) and 'tmpl' not in node['mac'] and node['mac'].get('args') is not None:
            m2 = dict(node['mac'])
            m2['args'] = [self.subst(a, env) for a in node['mac']['args']]
            m2['text'] = ', '.join(es(a) for a in m2['args'])
            out = dict(node)
            out['mac'] = m2
            return out
        if k == 'Struct' and isinstance(node.get('fields'), list):
            out = dict(node)
            out['fields'] = [dict(f_, expr=self.subst(f_['expr'], env), shorthand=False) for f_ in node['fields']]
            if node.get('rest') is not None:
                out['rest'] = self.subst(node['rest'], env)
            return out
        if k == 'Closure':
            ce = dict(env)
            newp = []
            for i, p in enumerate(node['params']):
                b = {}
                binders(p, b, '$c%d' % i)
                ce.update({k_: _path_node(v) for k_, v in b.items()})
                newp.append({'k': 'Ident', 'name': '$c%d' % i, 'by_ref': False, 'mut': False, 'sub': None, 'l': 0} if p['k'] in ('Ident', 'Type') else p)
            out = dict(node)
            out['params'] = newp
            out['body'] = self.subst(node['body'], ce)
            return out
        if k == 'Match':
            out = dict(node)
            out['expr'] = self.subst(node['expr'], env)
            out['arms'] = []
            for a in node['arms']:
                ae = self.with_pat(env, a['pat'])
                a2 = dict(a)
                a2['guard'] = self.subst(a['guard'], ae) if a.get('guard') is not None else None
                a2['body'] = self.subst(a['body'], ae)
                out['arms'].append(a2)
            return out
        if k == 'If' and node['cond']['k'] == 'Let':
            out = dict(node)
            c = dict(node['cond'])
            c['expr'] = self.subst(node['cond']['expr'], env)
            out['cond'] = c
            out['then'] = self.subst(node['then'], self.with_pat(env, node['cond']['pat']))
            out['else'] = self.subst(node['else'], env) if node.get('else') is not None else None
            return out
        return {key: (self.subst(v, env) if not (isinstance(key, str) and key.startswith('_')) else v) for key, v in node.items()}

    def text(self, node):
        env = self.env_at.get(id(node))
        if env is None:
            return es(node).replace(' ', '')
        return es(self.subst(node, env)).replace(' ', '')
