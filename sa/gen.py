"""Composition of the generated code of one handler function: which templates are emitted into
which accumulator under which context, and what lands in each hole of each template."""
from . import syn
from .syn import es, path_s
from .walk import Ctx, ctx_s
from .terms import strip_refs, term_s
from .tmpl import (GenModel, Template, find_markers, MARK, generics_part)

POS2CAT = {
    'stmts': 'stmts', 'stmt': 'stmts', 'tail': 'stmts',
    'expr': 'expr', 'armbody': 'expr', 'operand': 'expr', 'init': 'expr', 'cond': 'expr', 'scrutinee': 'expr',
    'recv': 'expr', 'base': 'expr',
    'args': 'args', 'arg': 'args',
    'patelems': 'patelems', 'patelem': 'patelems', 'pat': 'patelems',
    'fieldpats': 'fieldpats', 'fieldpat': 'fieldpats',
    'fieldvals': 'fieldvals',
    'arms': 'arms', 'items': 'items', 'implitems': 'implitems',
    'type': 'type', 'assoctype': 'type', 'garg': 'type', 'selfty': 'type',
}


class Leaf:
    """one possible content of an emission / stream-valued hole."""

    def __init__(self, kind, ctx, tmpl=None, acc=None, expr=None, fw=None, via=(), optional=False, event=None):
        self.kind = kind      # tmpl | acc | empty | unknown
        self.ctx = tuple(ctx)
        self.tmpl = tmpl
        self.acc = acc
        self.expr = expr
        self.fw = fw
        self.via = tuple(via)  # helper-call chain: (callee FnWalk, call expr, caller scope, caller fw)
        self.optional = optional
        self.event = event

    def __repr__(self):
        if self.kind == 'tmpl':
            return 'Leaf(tmpl %s | %s)' % (self.tmpl.loc(), ctx_s(self.ctx))
        if self.kind == 'acc':
            return 'Leaf(acc %s)' % self.acc.name
        return 'Leaf(%s %s)' % (self.kind, es(self.expr) if self.expr else '')


class Site:
    """a template placed in a syntactic position, with the accumulated context chain."""

    def __init__(self, tmpl, ctx, cat, ast, forms, leaf, parent=None, hole=None, err=None):
        self.tmpl = tmpl
        self.ctx = tuple(ctx)
        self.cat = cat
        self.ast = ast
        self.forms = forms
        self.leaf = leaf
        self.parent = parent
        self.hole = hole
        self.err = err

    def loc(self):
        return self.tmpl.loc()

    def __repr__(self):
        return 'Site(%s as %s | %s)' % (self.tmpl.loc(), self.cat, ctx_s(self.ctx))


class HandlerGen:
    def __init__(self, gm, fw):
        self.gm = gm
        self.crate = gm.crate
        self.fw = fw
        self.terms = gm.terms_of(fw)
        self.problems = []   # (line, message): constructs that could not be modelled
        self._emis = None

    # -- emission sites -----------------------------------------------------------------
    def acc_of_expr(self, e, scope, fw):
        r = strip_refs(e)
        if r['k'] == 'Path' and len(r['path']['segs']) == 1:
            d = scope.lookup(r['path']['s'])
            if self.gm.is_acc_def(d, fw):
                return d
        return None

    def emissions(self, fw=None):
        """def.id -> ordered list of (event, [Leaf])"""
        fw = fw or self.fw
        key = id(fw)
        if self._emis is None:
            self._emis = {}
        if key in self._emis:
            return self._emis[key]
        out = {}
        for ev in fw.events:
            if ev.kind == 'mcall' and ev.method == 'extend' and len(ev.args) == 1:
                d = self.acc_of_expr(ev.recv, ev.scope, fw)
                if d is None:
                    continue
                leaves = self.leaves(ev.args[0], ev.scope, ev.ctx, fw, event=ev)
                out.setdefault(d.id, []).append((ev, leaves))
        self._emis[key] = out
        return out

    def leaves(self, e, scope, ctx, fw, via=(), depth=0, event=None, optional=False):
        if depth > 12:
            return [Leaf('unknown', ctx, expr=e, fw=fw, via=via, event=event)]
        k = e['k']
        L = lambda x, c=ctx, s=scope, o=optional: self.leaves(x, s, c, fw, via, depth + 1, event, o)
        if k == 'Macro':
            m = e['mac']
            if 'tmpl' in m:
                t = self.gm.template_of(m)
                if t is None:
                    return [Leaf('unknown', ctx, expr=e, fw=fw, via=via, event=event)]
                return [Leaf('tmpl', ctx, tmpl=t, fw=fw, via=via, optional=optional, event=event)]
            return [Leaf('unknown', ctx, expr=e, fw=fw, via=via, event=event)]
        if k == 'Ref':
            return L(e['expr'])
        if k == 'If':
            c = e['cond']
            cid = ('v', id(e))
            if c['k'] == 'Let':
                pos = Ctx(k='iflet', pat=c['pat'], expr=c['expr'], pol=True, id=cid, scope=scope, value_branch=True)
                neg = Ctx(k='iflet', pat=c['pat'], expr=c['expr'], pol=False, id=cid, scope=scope, value_branch=True)
            else:
                pos = Ctx(k='if', cond=c, pol=True, id=cid, scope=scope, value_branch=True)
                neg = Ctx(k='if', cond=c, pol=False, id=cid, scope=scope, value_branch=True)
            out = self.block_leaves(e['then'], ctx + (pos,), fw, via, depth, event, optional)
            el = e.get('else')
            if el is None:
                out.append(Leaf('empty', ctx + (neg,), fw=fw, via=via, event=event))
            elif el['k'] == 'Block':
                out += self.block_leaves(el, ctx + (neg,), fw, via, depth, event, optional)
            else:
                out += self.leaves(el, scope, ctx + (neg,), fw, via, depth + 1, event, optional)
            return out
        if k == 'Match':
            out = []
            for idx, a in enumerate(e['arms']):
                c = Ctx(k='arm', id=('v', id(e)), match_id=('v', id(e)), scrut=e['expr'], pat=a['pat'], guard=a.get('guard'), idx=idx,
                        narms=len(e['arms']), scope=scope, earlier=[x['pat'] for x in e['arms'][:idx]],
                        all_pats=[x['pat'] for x in e['arms']], value_branch=True, cfg=[])
                b = a['body']
                if b['k'] == 'Block':
                    out += self.block_leaves(b, ctx + (c,), fw, via, depth, event, optional)
                else:
                    sc = self.gm.terms_of(fw).scope_of_node(b) or scope
                    out += self.leaves(b, sc, ctx + (c,), fw, via, depth + 1, event, optional)
            return out
        if k == 'Block':
            return self.block_leaves(e, ctx, fw, via, depth, event, optional)
        if k == 'Path' and len(e['path']['segs']) == 1:
            name = e['path']['s']
            d = scope.lookup(name)
            if d is None:
                if name == 'None':
                    return [Leaf('empty', ctx, fw=fw, via=via, event=event)]
                return [Leaf('unknown', ctx, expr=e, fw=fw, via=via, event=event)]
            if self.gm.is_acc_def(d, fw):
                return [Leaf('acc', ctx, acc=d, fw=fw, via=via, event=event)]
            if d.kind == 'param' and via:
                callee_fw, call, cscope, cfw = via[-1]
                names = [p[0] for p in callee_fw.fn.params() if p[0] != 'self']
                if name in names:
                    i = names.index(name)
                    if i < len(call['args']):
                        return self.leaves(call['args'][i], cscope, ctx, cfw, via[:-1], depth + 1, event, optional)
            if d.kind == 'let' and d.init is not None and not d.assigns and not d.ppath:
                if d.twins:
                    out = []
                    for x in [d] + d.twins:
                        c = Ctx(k='cfg', preds=x.cfg, id=('d', x.id))
                        out += self.leaves(x.init, x.scope, ctx + (c,), fw, via, depth + 1, event, optional)
                    return out
                # value computed at the let site: its own context applies too
                extra = tuple(c for c in d.ctx if c not in ctx)
                return self.leaves(d.init, d.scope, ctx + extra, fw, via, depth + 1, event, optional)
            if d.kind == 'bind' and d.ppath and d.ppath[-1][0] == 'ts' and d.ppath[-1][1] == 'Some':
                # `if let Some(x) = opt` : the payload of an optional stream
                return self.leaves(d.src['expr'], d.src['scope'], ctx, fw, via, depth + 1, event, True)
            return [Leaf('unknown', ctx, expr=e, fw=fw, via=via, event=event)]
        if k == 'Call' and e['func']['k'] == 'Path' and not e['args'] and e['func']['path']['s'] in (
                'proc_macro2::TokenStream::new', 'TokenStream::new', 'proc_macro2::TokenStream::default', 'TokenStream::default'):
            # an empty stream as a value (`if wanted { quote!{..} } else { TokenStream::new() }`): interpolating it adds nothing
            return [Leaf('empty', ctx, fw=fw, via=via, event=event)]
        if k == 'Call':
            f = e['func']
            if f['k'] == 'Path':
                p = f['path']['s']
                if p in ('Some',) and len(e['args']) == 1:
                    return self.leaves(e['args'][0], scope, ctx, fw, via, depth + 1, event, True)
                fns = self.crate.find_fn(fw.fn.module, [s['id'] for s in f['path']['segs']], fw.fn.self_ty)
                if fns:
                    out = []
                    for callee in fns:
                        cw = self.gm.walks.of(callee)
                        c = Ctx(k='call', id=('c', id(e)), fn=callee.qname, line=e['l'])
                        v2 = via + ((cw, e, scope, fw),)
                        if cw.tail is not None:
                            tsc = self.gm.terms_of(cw).scope_of_node(cw.tail) or cw.root
                            out += self.leaves(cw.tail, tsc, ctx + (c,), cw, v2, depth + 1, event, optional)
                        for ev in cw.events:
                            if ev.kind == 'exit' and ev.how == 'return' and ev.value is not None:
                                out += self.leaves(ev.value, ev.scope, ctx + (c,) + ev.ctx, cw, v2, depth + 1, event, optional)
                    if out:
                        return out
            return [Leaf('unknown', ctx, expr=e, fw=fw, via=via, event=event)]
        if k == 'MethodCall' and e['method'] in ('clone', 'to_token_stream', 'into_token_stream') and not e['args']:
            return L(e['recv'])
        # `syn::parse2(<stream>).unwrap()` / `?`: a typed re-parse of the stream; its tokens are those of the stream
        x = e
        if (k == 'MethodCall' and e['method'] in ('unwrap', 'expect')) or k == 'Try':
            x = e['recv'] if k == 'MethodCall' else e['expr']
            if x['k'] == 'Call' and x['func']['k'] == 'Path' and x['func']['path']['s'].split('::')[-1] == 'parse2' and len(x['args']) == 1:
                return L(x['args'][0])
        if k == 'Paren':
            return L(e['expr'])
        return [Leaf('unknown', ctx, expr=e, fw=fw, via=via, event=event)]

    def block_leaves(self, block, ctx, fw, via, depth, event, optional):
        stmts = block['stmts']
        if stmts and stmts[-1]['k'] == 'Expr' and not stmts[-1]['semi']:
            tail = stmts[-1]['expr']
            sc = self.gm.terms_of(fw).scope_of_node(tail)
            if sc is None:
                return [Leaf('unknown', ctx, expr=tail, fw=fw, via=via, event=event)]
            return self.leaves(tail, sc, ctx, fw, via, depth + 1, event, optional)
        return [Leaf('unknown', ctx, expr=block, fw=fw, via=via, event=event)]

    # -- hole contents ------------------------------------------------------------------
    def acc_leaves(self, d, fw, outer_ctx=(), seen=()):
        """ordered leaves emitted into accumulator `d` (following acc-to-acc extends)."""
        out = []
        if d.id in seen:
            self.problems.append((d.line, 'recursive accumulator ' + d.name))
            return out
        for ev, leaves in self.emissions(fw).get(d.id, []):
            for lf in leaves:
                if lf.kind == 'acc':
                    for sub in self.acc_leaves(lf.acc, lf.fw, (), seen + (d.id,)):
                        merged = merge_ctx(lf.ctx, sub.ctx)
                        out.append(Leaf(sub.kind, merge_ctx(outer_ctx, merged), tmpl=sub.tmpl, acc=sub.acc, expr=sub.expr, fw=sub.fw,
                                        via=sub.via, optional=sub.optional, event=sub.event))
                else:
                    out.append(Leaf(lf.kind, merge_ctx(outer_ctx, lf.ctx), tmpl=lf.tmpl, acc=lf.acc, expr=lf.expr, fw=lf.fw, via=lf.via,
                                    optional=lf.optional, event=lf.event))
        return [l for l in out if feasible(l.ctx)]

    def hole_leaves(self, tmpl, name, leaf_via=()):
        """contents of hole `name` of `tmpl` when it is an accumulator or stream-valued binding; else None."""
        d = tmpl.hole_def(name)
        if d is None:
            return None
        fw = tmpl.fw
        if self.gm.is_acc_def(d, fw):
            return self.acc_leaves(d, fw)
        cls = self.gm.hole_class(tmpl, name)
        if cls == 'stream':
            e = {'k': 'Path', 'path': {'segs': [{'id': name}], 's': name, 'global': False}, 'l': tmpl.line}
            return self.leaves(e, tmpl.scope, (), fw, leaf_via)
        if d.kind == 'param' and leaf_via:
            e = {'k': 'Path', 'path': {'segs': [{'id': name}], 's': name, 'global': False}, 'l': tmpl.line}
            lv = self.leaves(e, tmpl.scope, (), fw, leaf_via)
            if all(l.kind in ('tmpl', 'empty', 'acc') for l in lv):
                return lv
        return None

    # -- sites ---------------------------------------------------------------------------
    def site_of_leaf(self, leaf, cat, parent=None, hole=None, base_ctx=()):
        ok, ast, forms = self.gm.parse(leaf.tmpl, cat)
        ctx = merge_ctx(base_ctx, leaf.ctx)
        if not ok:
            return Site(leaf.tmpl, ctx, cat, None, forms, leaf, parent, hole, err=ast)
        return Site(leaf.tmpl, ctx, cat, ast, forms, leaf, parent, hole)

    def root_sites(self):
        """sites emitted into the handler's `token_stream` parameter (category: items)."""
        out = []
        for d in self.fw.param_defs:
            if self.gm.is_acc_def(d, self.fw):
                for lf in self.acc_leaves(d, self.fw):
                    if lf.kind == 'tmpl':
                        out.append(self.site_of_leaf(lf, 'items'))
                    else:
                        out.append(lf)
        return out

    def markers(self, site):
        if site.ast is None:
            return []
        return find_markers(site.ast, site.cat)

    def children(self, site, hole, pos):
        """sites (or non-template leaves) that fill accumulator/stream hole `hole` found at position `pos`."""
        lv = self.hole_leaves(site.tmpl, hole, site.leaf.via if site.leaf else ())
        if lv is None:
            return None
        cat = POS2CAT.get(pos)
        out = []
        for lf in lv:
            if not feasible(merge_ctx(site.ctx, lf.ctx)):
                continue
            if lf.kind == 'tmpl':
                if cat is None:
                    out.append(Site(lf.tmpl, merge_ctx(site.ctx, lf.ctx), None, None, None, lf, site, hole, err='hole in unsupported position ' + pos))
                else:
                    out.append(self.site_of_leaf(lf, cat, site, hole, base_ctx=site.ctx))
            else:
                l2 = Leaf(lf.kind, merge_ctx(site.ctx, lf.ctx), tmpl=lf.tmpl, acc=lf.acc, expr=lf.expr, fw=lf.fw, via=lf.via,
                          optional=lf.optional, event=lf.event)
                out.append(l2)
        return out


def merge_ctx(a, b):
    """concatenate context chains, dropping entries of b already present in a (same construct id + polarity)."""
    keys = set(c.key() for c in a)
    out = list(a)
    for c in b:
        if c.key() not in keys:
            out.append(c)
            keys.add(c.key())
    return tuple(out)


def feasible(ctx):
    """False if the chain contains the same branch construct with two different outcomes
    (both polarities of one `if`, or two different arms of one `match`)."""
    seen = {}
    for c in ctx:
        k = c['k']
        if k in ('if', 'iflet'):
            key = ('b', c.get('id'))
            v = c['pol']
        elif k == 'arm':
            key = ('m', c.get('id'))
            v = c['idx']
        elif k == 'survive':
            key = ('m', c.get('id'))
            prev = seen.get(key)
            if prev is not None and not isinstance(prev, tuple) and prev not in c['arms']:
                return False
            continue
        else:
            continue
        if key in seen and seen[key] != v and not isinstance(seen[key], tuple):
            return False
        seen[key] = v
    return True
