"""Role-aware traversal of generated-code ASTs (the JSON produced by synjson for parsed templates).

visit(ast, cat, cb) calls cb(role, node, extra) for:
  path      : extra = kind in {expr, pat, type, trait, struct, bound, qself}
  binder    : a value-namespace binding introduced by a pattern / parameter (extra = kind)
  patident  : an identifier pattern (may be a binder or a unit-like constant: `None`)
  generic   : a generic parameter declared by the template (extra = 'fn'|'impl'|'item')
  itemname  : a nested item declared by the template
  macro     : a macro invocation (node = mac json)
  mcall     : method call expression
  call      : call expression
  unsafe    : unsafe block
  cast      : cast expression
  type      : any type node
  expr      : every expression node
  pat       : every pattern node
  fn        : fn item / impl fn (node has sig, block)
  impl      : impl item
  local     : let statement
"""
from .tmpl import MARK


def visit(ast, cat, cb):
    def expr(e):
        if e is None:
            return
        cb('expr', e, None)
        k = e['k']
        if k == 'Path':
            cb('path', e['path'], 'expr')
            path_args(e['path'])
            if e.get('qself'):
                ty(e['qself']['ty'])
        elif k == 'Macro':
            cb('macro', e['mac'], 'expr')
            for a in e['mac'].get('args') or []:
                pass  # macro arguments are token soup; rules inspect tokens themselves
        elif k == 'Call':
            cb('call', e, None)
            expr(e['func'])
            for a in e['args']:
                expr(a)
        elif k == 'MethodCall':
            cb('mcall', e, None)
            expr(e['recv'])
            for ga in e.get('turbofish') or []:
                garg(ga)
            for a in e['args']:
                expr(a)
        elif k == 'Field':
            expr(e['base'])
        elif k == 'Struct':
            cb('path', e['path'], 'struct')
            path_args(e['path'])
            for f in e['fields']:
                if not f['shorthand']:
                    expr(f['expr'])
                else:
                    cb('shorthand', f, 'expr')
            if e.get('rest'):
                expr(e['rest'])
        elif k in ('Tuple', 'Array'):
            for x in e['elems']:
                expr(x)
        elif k == 'If':
            expr(e['cond'])
            block(e['then'])
            expr(e.get('else'))
        elif k == 'Let':
            pat(e['pat'], 'iflet')
            expr(e['expr'])
        elif k == 'Match':
            expr(e['expr'])
            for a in e['arms']:
                arm(a)
        elif k == 'Block':
            block(e)
        elif k == 'Unsafe':
            cb('unsafe', e, None)
            block(e['block'])
        elif k == 'For':
            pat(e['pat'], 'for')
            expr(e['expr'])
            block(e['body'])
        elif k == 'While':
            expr(e['cond'])
            block(e['body'])
        elif k == 'Loop':
            block(e['body'])
        elif k == 'Closure':
            for p in e['params']:
                pat(p, 'closure')
            expr(e['body'])
        elif k == 'Cast':
            cb('cast', e, None)
            expr(e['expr'])
            ty(e['ty'])
        elif k in ('Ref', 'Unary', 'Try', 'Return', 'Break', 'RawAddr', 'Await'):
            expr(e.get('expr'))
        elif k in ('Binary', 'Assign'):
            expr(e['l_'])
            expr(e['r_'])
        elif k == 'Index':
            expr(e['base'])
            expr(e['index'])
        elif k == 'Range':
            expr(e.get('from'))
            expr(e.get('to'))
        elif k == 'Repeat':
            expr(e['expr'])
            expr(e['len'])

    def arm(a):
        pat(a['pat'], 'arm')
        if a.get('guard'):
            expr(a['guard'])
        expr(a['body'])

    def path_args(p):
        for seg in p['segs']:
            for ga in seg.get('args', []):
                garg(ga)
            if 'paren' in seg:
                for t in seg['paren']['inputs']:
                    ty(t)
                ty(seg['paren'].get('output'))

    def garg(ga):
        k = ga['k']
        if k == 'Type':
            ty(ga['ty'])
        elif k == 'Const':
            expr(ga['expr'])
        elif k == 'AssocType':
            ty(ga['ty'])

    def bounds(bs, kind='bound'):
        for b in bs or []:
            if b['k'] == 'Trait':
                cb('path', b['path'], kind)
                path_args(b['path'])

    def ty(t):
        if t is None:
            return
        cb('type', t, None)
        k = t['k']
        if k == 'Path':
            if t.get('qself'):
                ty(t['qself']['ty'])
                cb('path', t['path'], 'qself' if t['qself'].get('as') else 'type')
            else:
                cb('path', t['path'], 'type')
            path_args(t['path'])
        elif k in ('Ref', 'Ptr', 'Slice'):
            ty(t['elem'])
        elif k == 'Array':
            ty(t['elem'])
            expr(t['len'])
        elif k == 'Tuple':
            for x in t['elems']:
                ty(x)
        elif k in ('ImplTrait', 'TraitObject'):
            bounds(t['bounds'])
        elif k == 'Macro':
            cb('macro', t['mac'], 'type')

    def pat(p, kind):
        if p is None:
            return
        cb('pat', p, kind)
        k = p['k']
        if k == 'Ident':
            cb('patident', p, kind)
            if p.get('sub'):
                pat(p['sub'], kind)
        elif k == 'TupleStruct':
            cb('path', p['path'], 'pat')
            for x in p['elems']:
                pat(x, kind)
        elif k in ('Tuple', 'Slice'):
            for x in p['elems']:
                pat(x, kind)
        elif k == 'Or':
            for x in p['cases']:
                pat(x, kind)
        elif k == 'Struct':
            cb('path', p['path'], 'pat')
            for f in p['fields']:
                pat(f['pat'], kind)
        elif k == 'Path':
            cb('path', p['path'], 'pat')
        elif k == 'Ref':
            pat(p['pat'], kind)
        elif k == 'Type':
            pat(p['pat'], kind)
            ty(p['ty'])
        elif k == 'Macro':
            cb('macro', p['mac'], 'pat')

    def block(b):
        for s in b['stmts']:
            stmt(s)

    def stmt(s):
        k = s['k']
        if k == 'Local':
            cb('local', s, None)
            pat(s['pat'], 'let')
            ty(s.get('ty'))
            expr(s.get('init'))
            expr(s.get('else'))
        elif k == 'Expr':
            expr(s['expr'])
        elif k == 'Item':
            item(s['item'], nested=True)

    def generics(g, kind):
        for p in g['params']:
            cb('generic', p, kind)
            if p['k'] == 'Type':
                bounds(p['bounds'])
                ty(p.get('default'))
            elif p['k'] == 'Const':
                ty(p['ty'])
        for w in g['where']:
            if w['k'] == 'Type':
                ty(w['ty'])
                bounds(w['bounds'])

    def sig(sg):
        generics(sg['generics'], 'fn')
        for a in sg['inputs']:
            if a['k'] == 'Typed':
                pat(a['pat'], 'param')
                ty(a['ty'])
            else:
                ty(a.get('ty'))
        ty(sg.get('output'))

    def implitem(ii):
        if ii['k'] == 'Fn':
            cb('fn', ii, 'impl')
            sig(ii['sig'])
            block(ii['block'])
        elif ii['k'] == 'Type':
            ty(ii['ty'])
        elif ii['k'] == 'Const':
            ty(ii['ty'])
            expr(ii['expr'])
        elif ii['k'] == 'Macro':
            cb('macro', ii['mac'], 'implitem')

    def item(it, nested=False):
        k = it['k']
        if k == 'Fn':
            cb('itemname', it, 'fn')
            cb('fn', it, 'item')
            sig(it['sig'])
            block(it['block'])
        elif k == 'Impl':
            cb('impl', it, 'nested' if nested else 'top')
            generics(it['generics'], 'impl')
            if it.get('trait'):
                cb('path', it['trait']['path'], 'trait')
                path_args(it['trait']['path'])
            ty(it['self_ty'])
            for ii in it['items']:
                implitem(ii)
        elif k in ('Struct', 'Union'):
            cb('itemname', it, 'type')
            generics(it['generics'], 'item')
            for f in it['fields']['fields']:
                ty(f['ty'])
        elif k == 'Enum':
            cb('itemname', it, 'type')
            generics(it['generics'], 'item')
            for v in it['variants']:
                for f in v['fields']['fields']:
                    ty(f['ty'])
        elif k == 'Macro':
            cb('macro', it['mac'], 'item')
        elif k in ('Const', 'Static'):
            cb('itemname', it, 'value')
            ty(it['ty'])
            expr(it['expr'])
        elif k == 'TypeAlias':
            cb('itemname', it, 'type')
            ty(it['ty'])
        elif k == 'Use':
            cb('use', it, None)

    if ast is None:
        return
    if cat == 'items':
        for it in ast:
            item(it)
    elif cat == 'implitems':
        for ii in ast:
            implitem(ii)
    elif cat == 'stmts':
        for s in ast:
            stmt(s)
    elif cat == 'expr':
        expr(ast)
    elif cat == 'arms':
        for a in ast:
            arm(a)
    elif cat == 'fieldpats':
        pat(ast, 'frag')
    elif cat == 'patelems':
        for x in ast:
            pat(x, 'frag')
    elif cat == 'fieldvals':
        for f in ast:
            if f['shorthand']:
                cb('shorthand', f, 'expr')
            else:
                expr(f['expr'])
    elif cat == 'args':
        for a in ast:
            expr(a)
    elif cat == 'type':
        ty(ast)
    elif cat == 'wherepreds':
        for w in ast:
            if w['k'] == 'Type':
                ty(w['ty'])
                bounds(w['bounds'])
    elif cat == 'path':
        cb('path', ast, 'path')
        path_args(ast)


def is_marker(name):
    return isinstance(name, str) and name.startswith(MARK)


def marker_name(name):
    return name[len(MARK):]
