"""Shared machinery for the semantic summaries (SUM-*) of generated method bodies."""
import itertools
from .syn import es, pat_s, ty_s
from .terms import term_s, subterms, analyse_iter, strip_refs
from .walk import ctx_s
from .gen import Site, Leaf
from .tmpl import (find_markers, marker_of_expr, marker_of_pat, marker_of_stmt, marker_of_type, MARK, is_marker_path)
from .genast import visit, is_marker, marker_name
from .facts import Facts, atom_s


class Summ:
    def __init__(self, cx, fn, rep, facts=None):
        self.cx = cx
        self.fn = fn
        self.rep = rep
        self.fw = cx.fw(fn)
        self.hg = cx.hg(fn)
        self.tm = cx.gm.terms_of(self.fw)
        self.facts = facts or Facts(cx)
        self.sites, self.bad_leaves = cx.all_sites(fn)
        self.where = fn.qname
        self._atoms = {}

    # -- basic navigation -----------------------------------------------------------------
    def roots(self):
        return [s for s in self.sites if s.parent is None]

    def impls(self):
        """[(root site, impl json)] of top-level impls"""
        out = []
        for s in self.roots():
            if s.ast is None:
                continue
            for it in s.ast:
                if it['k'] == 'Impl':
                    out.append((s, it))
        return out

    def impl_of(self, trait_path):
        return [(s, it) for s, it in self.impls() if it.get('trait') and it['trait']['path']['s'] == trait_path]

    def fns_of(self, impl):
        return [ii for ii in impl['items'] if ii['k'] == 'Fn']

    def kids(self, site, hole):
        """child sites (templates) filling accumulator/stream hole `hole` of `site`, in emission order"""
        return [s for s in self.sites if s.parent is site and s.hole == hole]

    def kid_leaves(self, site, hole, pos):
        return self.hg.children(site, hole, pos)

    def atoms(self, site_or_ctx):
        ctx = site_or_ctx.ctx if isinstance(site_or_ctx, Site) else site_or_ctx
        key = tuple(c.key() for c in ctx)
        if key not in self._atoms:
            self._atoms[key] = self.facts.atoms(self.facts.effective_ctx(ctx, self.fw), self.fw)
        out = self._atoms[key]
        if isinstance(site_or_ctx, Site) and site_or_ctx.leaf is not None and site_or_ctx.leaf.via:
            out = self.subst_params(out, site_or_ctx.leaf.via)
        return out

    def subst_params(self, atoms, via):
        """inside a helper function the guards talk about its parameters: replace them by the caller's arguments"""
        mapping = {}
        for callee_fw, call, cscope, cfw in via:
            names = [p[0] for p in callee_fw.fn.params() if p[0] != 'self']
            tmc = self.cx.gm.terms_of(cfw)
            for i, nme in enumerate(names):
                if i < len(call['args']):
                    mapping[('param', nme)] = tmc.term(call['args'][i], cscope)

        def sub(t):
            if isinstance(t, tuple):
                if t in mapping:
                    return mapping[t]
                return tuple(sub(x) for x in t)
            return t
        out = []
        seen_call = False
        for a in atoms:
            if a[0] == 'call':
                seen_call = True
                out.append(a)
            elif seen_call:
                out.append(sub(a))
            else:
                out.append(a)
        return out

    def eff_ctx(self, ctx):
        return self.facts.effective_ctx(ctx, self.fw)

    def hole_term(self, site, name):
        """term of a hole, with helper-function parameters substituted by the caller's arguments"""
        t = site.tmpl.hole_term(name)
        if site.leaf is not None and site.leaf.via:
            mapping = {}
            for callee_fw, call, cscope, cfw in site.leaf.via:
                names = [p[0] for p in callee_fw.fn.params() if p[0] != 'self']
                tmc = self.cx.gm.terms_of(cfw)
                for i, nme in enumerate(names):
                    if i < len(call['args']):
                        mapping[('param', nme)] = tmc.term(call['args'][i], cscope)

            def sub(x):
                if isinstance(x, tuple):
                    if x in mapping:
                        return mapping[x]
                    return tuple(sub(y) for y in x)
                return x
            return sub(t)
        return t

    def bad(self, rule, inst, msg, site=None, line=None):
        f = site.tmpl.file if site is not None else self.fn.file
        l = site.tmpl.line if site is not None else (line or self.fn.line)
        self.rep.bad(rule, self.where, inst, msg, f, l, {'template': site.tmpl.text()[:300]} if site is not None else None)

    def ok(self, rule, inst, sample=None):
        self.rep.ok(rule, '%s|%s' % (self.where, inst), sample)

    # -- loops ------------------------------------------------------------------------------
    def loops_of(self, atoms):
        return [a for a in atoms if a[0] == 'loop']

    def field_loop(self, atoms):
        """innermost loop over a field list: returns (loop atom, kind) kind in {'struct','variant','union'}"""
        for a in reversed(atoms):
            if a[0] == 'loop':
                base = a[2]
                k = self.field_list_kind(base)
                if k:
                    return a, k
        return None, None

    def field_list_kind(self, base):
        if not isinstance(base, tuple):
            return None
        # payload(Data::Struct,0,ast.data).fields | elem(V).fields | payload(Fields::Named,..).named | ..union..fields.named
        if base[0] == 'field' and base[2] in ('fields',):
            inner = base[1]
            if isinstance(inner, tuple) and inner[0] == 'payload' and inner[1] == 'Data::Struct':
                return 'struct'
            if isinstance(inner, tuple) and inner[0] == 'elem':
                return 'variant'
            if isinstance(inner, tuple) and inner[0] == 'payload' and inner[1] == 'Data::Union':
                return 'union-fields'
            if isinstance(inner, tuple) and inner[0] in ('ite', 'iflet', 'some_of', 'index'):
                return 'variant'
        if base[0] == 'field' and base[2] in ('named', 'unnamed'):
            inner = base[1]
            if isinstance(inner, tuple) and inner[0] == 'payload' and inner[1] in ('Fields::Named', 'Fields::Unnamed'):
                src = inner[3]
                if isinstance(src, tuple) and src[0] == 'field' and src[2] == 'fields':
                    return self.field_list_kind(src)
            if isinstance(inner, tuple) and inner[0] == 'field' and inner[2] == 'fields':
                i2 = inner[1]
                if isinstance(i2, tuple) and i2[0] == 'payload' and i2[1] == 'Data::Union':
                    return 'union'
                return self.field_list_kind(inner)
        return None

    def variant_loop(self, atoms):
        for a in atoms:
            if a[0] == 'loop' and isinstance(a[2], tuple) and a[2][0] == 'field' and a[2][2] == 'variants':
                return a
        return None

    def loop_in_decl_order(self, loop_atom):
        return not loop_atom[5] and not loop_atom[6]

    # -- attribute atoms ----------------------------------------------------------------------
    def attr_atom(self, a, loop_id, member):
        """is atom `a` a test of <attribute record of loop's elem>.<member>?  returns polarity or None"""
        if a[0] not in ('truth', 'some'):
            return None
        t = a[1]
        r = self.facts.attr_of(t)
        if r is None:
            return None
        rec, mem, (bstruct, method, args) = r
        if mem != member:
            return None
        if not args or args[0] != ('field', ('elem', loop_id), 'attrs'):
            return None
        return a[2]

    def attr_rec_ok(self, t, loop_id, member):
        """t == <attribute record built from elem(loop).attrs>.<member> (possibly through some_of / unwrap_or_else)"""
        r = self.facts.attr_of(t)
        if r is None:
            return False
        rec, mem, (bstruct, method, args) = r
        return mem == member and bool(args) and args[0] == ('field', ('elem', loop_id), 'attrs')

    # -- exactly-once analysis ------------------------------------------------------------------
    def count_per_path(self, entries, loop_id, relevant=None):
        """entries: list of atom-lists (each the atoms of one emission inside loop `loop_id`).
        returns {assignment (tuple of (atom key, bool)) : count} over all assignments of the boolean atoms that occur after
        the loop atom in any entry."""
        keys = []
        per_entry = []
        KINDS = ('truth', 'some', 'cond', 'empty', 'is', 'shape', 'len', 'haskey', 'pat', 'educed')
        outer_keys = set()
        for atoms in entries:
            req = []
            seen_loop = False
            for a in atoms:
                if a[0] in ('loop', 'via') and a[1] == loop_id:
                    seen_loop = True
                if a[0] in KINDS:
                    k = a[:-1]
                    req.append((k, a[-1]))
                    if k not in keys:
                        keys.append(k)
                    if not seen_loop:
                        outer_keys.add(k)
            per_entry.append(req)
        # conditions *outside* the loop shared by all entries with the same value are constants of the whole group
        const = [k for k in keys if k in outer_keys and all(any(kk == k for kk, v in req) for req in per_entry)
                 and len(set(v for req in per_entry for kk, v in req if kk == k)) == 1]
        keys = [k for k in keys if k not in const]
        per_entry = [[(k, v) for k, v in req if k not in const] for req in per_entry]
        # shape atoms of one base are mutually exclusive alternatives: treat each (base, shape) as its own boolean but
        # skip assignments where two shapes of the same base are both true
        self._shape_keys = [k for k in keys if k[0] == 'shape']
        out = {}
        if len(keys) > 10:
            return None, keys
        for bits in itertools.product((False, True), repeat=len(keys)):
            asg = dict(zip(keys, bits))
            bases = {}
            clash = False
            for k in self._shape_keys:
                if asg[k]:
                    if k[1] in bases:
                        clash = True
                    bases[k[1]] = k[2]
            if clash:
                continue
            n = 0
            for req in per_entry:
                if all(asg[k] == v for k, v in req):
                    n += 1
            out[tuple(sorted(((str(k), v) for k, v in asg.items())))] = (n, asg)
        return out, keys


# ------------------------------------------------------------------------------------------
# generated-code expression classification
# ------------------------------------------------------------------------------------------

def strip_ref_gen(e):
    refs = 0
    mut = False
    while e is not None and e['k'] == 'Ref':
        refs += 1
        mut = mut or e['mut']
        e = e['expr']
    return e, refs, mut


def access(e):
    """classify an operand of generated code:
       ('member', base 'self'|'other'|'source', hole name, nrefs, mut)   for  &self.#f
       ('var', hole name, nrefs, mut)                                    for  #binder / &#binder
       ('deref-var', hole name)                                          for  *#binder
       ('name', ident, nrefs, mut)                                       for  self / other / source / state / f ...
       ('lit-hole', hole)  ...
       None otherwise"""
    x, refs, mut = strip_ref_gen(e)
    if x is None:
        return None
    if x['k'] == 'Field' and x['base']['k'] == 'Path' and isinstance(x['member'], str) and x['member'].startswith(MARK):
        b = x['base']['path']['s']
        return ('member', b, x['member'][len(MARK):], refs, mut)
    if x['k'] == 'Path':
        m = is_marker_path(x['path'])
        if m is not None:
            return ('var', m, refs, mut)
        if len(x['path']['segs']) == 1:
            return ('name', x['path']['s'], refs, mut)
    if x['k'] == 'Unary' and x['op'] == '*':
        y = x['expr']
        if y['k'] == 'Path' and is_marker_path(y['path']) is not None:
            return ('deref-var', is_marker_path(y['path']), refs, mut)
        if y['k'] == 'Path' and len(y['path']['segs']) == 1:
            return ('deref-name', y['path']['s'], refs, mut)
    return None


def call_parts(e):
    """(callee kind, callee, args): ('path', '::core::cmp::PartialEq::ne') | ('hole', name)"""
    if e['k'] != 'Call':
        return None
    f = e['func']
    if f['k'] == 'Path':
        m = is_marker_path(f['path'])
        if m is not None:
            return ('hole', m, e['args'])
        return ('path', f['path']['s'], e['args'])
    return None


def single_expr_stmt(stmts):
    if len(stmts) == 1 and stmts[0]['k'] == 'Expr':
        return stmts[0]['expr']
    return None


def block_stmts(b):
    return b['stmts'] if b['k'] == 'Block' else [{'k': 'Expr', 'expr': b, 'semi': False}]


def is_return(e, pred):
    return e['k'] == 'Return' and e.get('expr') is not None and pred(e['expr'])


def is_lit_bool(e, v):
    return e['k'] == 'Lit' and e['lit']['k'] == 'Bool' and e['lit']['v'] is v


def is_path(e, s):
    return e['k'] == 'Path' and e['path']['s'] == s and not e.get('qself')


def stmts_without_markers(stmts):
    return [s for s in stmts if marker_of_stmt(s) is None]


def marker_stmts(stmts):
    return [(i, marker_of_stmt(s)) for i, s in enumerate(stmts) if marker_of_stmt(s) is not None]


# ------------------------------------------------------------------------------------------
# member names, patterns, arms
# ------------------------------------------------------------------------------------------

def member_of_loop(t, loop_id):
    """does term t denote the member (name or index) of the current field of loop `loop_id`?
    returns 'both' | 'named' | 'tuple' | None"""
    if not isinstance(t, tuple):
        return None
    E = ('elem', loop_id)
    I = ('idx', loop_id)
    ident = ('field', E, 'ident')
    if t[0] == 'call' and str(t[1]).endswith('IdentOrIndex::from_ident_with_index') and t[2:] == (ident, I):
        return 'both'
    if t[0] == 'iflet' and t[1].startswith('Some(') and t[2] == ident:
        a, b = t[3], t[4]
        if isinstance(a, tuple) and a[0] == 'call' and str(a[1]).endswith('IdentOrIndex::from') and a[2] == ('some_of', ident) \
                and isinstance(b, tuple) and b[0] == 'call' and str(b[1]).endswith('IdentOrIndex::from') and b[2] == I:
            return 'both'
    if t == ('unwrap', ident) or t == ('some_of', ident):
        return 'named'
    if t[0] == 'call' and str(t[1]).endswith('Index::from') and t[2:] == (I,):
        return 'tuple'
    return None


class PatEntry:
    def __init__(self, site, atoms, loop_id, kind, binder, name_term, by_ref=False):
        self.site = site
        self.atoms = atoms
        self.loop_id = loop_id
        self.kind = kind          # 'bind' | 'wild' | 'rest'
        self.binder = binder      # term of the binder identifier (or None)
        self.name_term = name_term
        self.by_ref = by_ref


class PatModel:
    def __init__(self, kind, variant_term, hole, entries, scrutinee, pat):
        self.kind = kind          # 'unit' | 'named' | 'tuple'
        self.variant_term = variant_term
        self.hole = hole
        self.entries = entries
        self.scrutinee = scrutinee
        self.pat = pat
        self.problems = []

    def binder(self, term):
        for e in self.entries:
            if e.kind == 'bind' and e.binder == term:
                return e
        return None


def pattern_model(S, site, pat, scrutinee):
    """model of `Self::#v`, `Self::#v { #acc }` or `Self::#v ( #acc )` appearing in `site`"""
    k = pat['k']
    path = pat.get('path')
    if path is None or len(path['segs']) != 2 or path['segs'][0]['id'] != 'Self' or not is_marker(path['segs'][1]['id']):
        return None
    vt = S.hole_term(site, marker_name(path['segs'][1]['id']))
    if k == 'Path':
        return PatModel('unit', vt, None, [], scrutinee, pat)
    if k == 'Struct':
        fields = pat['fields']
        if len(fields) == 0 and pat['rest']:
            return PatModel('any', vt, None, [], scrutinee, pat)
        if len(fields) == 1 and fields[0]['shorthand'] and marker_of_pat(fields[0]['pat']) and not pat['rest']:
            hole = marker_of_pat(fields[0]['pat'])
            pm = PatModel('named', vt, hole, [], scrutinee, pat)
            for kid in S.kids(site, hole):
                if kid.ast is None or kid.cat != 'fieldpats':
                    pm.problems.append('pattern fragment does not parse as field patterns: %s' % kid.tmpl.loc())
                    continue
                atoms = S.atoms(kid)
                la, lk = S.field_loop(atoms)
                fps = kid.ast['fields']
                if kid.ast['rest'] and not fps:
                    pm.entries.append(PatEntry(kid, atoms, la[1] if la else None, 'rest', None, None))
                    continue
                for fp in fps:
                    mem = fp['member']
                    nt = S.hole_term(kid, marker_name(mem)) if is_marker(mem) else ('lit', mem)
                    p = fp['pat']
                    if fp['shorthand']:
                        b = marker_of_pat(p)
                        bt = S.hole_term(kid, b) if b else None
                        pm.entries.append(PatEntry(kid, atoms, la[1] if la else None, 'bind', bt, nt))
                    elif p['k'] == 'Wild':
                        pm.entries.append(PatEntry(kid, atoms, la[1] if la else None, 'wild', None, nt))
                    elif p['k'] == 'Ident' and is_marker(p['name']):
                        pm.entries.append(PatEntry(kid, atoms, la[1] if la else None, 'bind', S.hole_term(kid, marker_name(p['name'])), nt, p['by_ref']))
                    else:
                        pm.problems.append('unrecognised field pattern `%s`' % pat_s(p))
                if kid.ast['rest']:
                    pm.entries.append(PatEntry(kid, atoms, la[1] if la else None, 'rest', None, None))
            return pm
        return None
    if k == 'TupleStruct':
        elems = pat['elems']
        if len(elems) == 1 and marker_of_pat(elems[0]):
            hole = marker_of_pat(elems[0])
            pm = PatModel('tuple', vt, hole, [], scrutinee, pat)
            for kid in S.kids(site, hole):
                if kid.ast is None or kid.cat != 'patelems':
                    pm.problems.append('pattern fragment does not parse as pattern elements: %s' % kid.tmpl.loc())
                    continue
                atoms = S.atoms(kid)
                la, lk = S.field_loop(atoms)
                for p in kid.ast:
                    if p['k'] == 'Wild':
                        pm.entries.append(PatEntry(kid, atoms, la[1] if la else None, 'wild', None, None))
                    elif p['k'] == 'Rest':
                        pm.entries.append(PatEntry(kid, atoms, la[1] if la else None, 'rest', None, None))
                    elif p['k'] == 'Ident' and is_marker(p['name']):
                        pm.entries.append(PatEntry(kid, atoms, la[1] if la else None, 'bind', S.hole_term(kid, marker_name(p['name'])), None, p['by_ref']))
                    else:
                        pm.problems.append('unrecognised tuple pattern element `%s`' % pat_s(p))
            return pm
        return None
    return None


def pattern_once(S, pm, rule, inst):
    """every path through the field loop emits exactly one element into the pattern accumulator"""
    if pm.kind not in ('named', 'tuple'):
        return True
    by_loop = {}
    for e in pm.entries:
        if e.kind == 'rest':
            continue
        by_loop.setdefault(e.loop_id, []).append(e)
    ok = True
    for lid, es_ in by_loop.items():
        if lid is None:
            S.bad(rule, inst + '-pattern-outside-loop', 'a pattern element is emitted outside the field loop', es_[0].site)
            ok = False
            continue
        counts, keys = S.count_per_path([e.atoms for e in es_], lid)
        if counts is None:
            S.bad(rule, inst + '-pattern-paths', 'too many conditions around pattern emission to enumerate', es_[0].site)
            ok = False
            continue
        S.ok(rule, '%s|pattern-once|%s' % (inst, pm.hole), None) if all(n == 1 for n, d in counts.values()) else None
        for asg, (n, d) in counts.items():
            if n != 1:
                S.bad(rule, inst + '-pattern-once',
                      'on the path %s the pattern `%s` receives %d elements for one field (must be exactly one: positions/fields would shift)' % (
                          [('' if v else '!') + atom_key_s(k) for k, v in d.items()], pm.hole, n), es_[0].site)
                ok = False
                break
    return ok


def atom_key_s(k):
    return atom_s(k + (True,))[:70]


# ------------------------------------------------------------------------------------------
# generic per-field statement checker
# ------------------------------------------------------------------------------------------

def atoms_after_loop(atoms, L):
    out = []
    seen = False
    for a in atoms:
        if a[0] in ('loop', 'via') and a[1] == L:
            seen = True
            continue
        if seen and a[0] not in ('loop', 'via'):
            out.append(a)
    return out


def method_or_builtin(S, site, hole, L):
    """`let f = field_attribute.method.as_ref().unwrap_or_else(|| { types.push(&field.ty); &built_in });`
    returns ('method-or', builtin path string, closure ctx id) if the hole has that shape for loop L's field, else None"""
    t = S.hole_term(site, hole)
    fw = site.tmpl.fw
    tm = site.tmpl.terms
    val = None
    cid = None
    if isinstance(t, tuple) and t[0] == 'mcall' and t[2] == 'unwrap_or_else' and len(t) == 4 and isinstance(t[3], tuple) and t[3][0] == 'closure':
        if not S.attr_rec_ok(t[1], L, 'method'):
            return None
        cid = t[3][1]
        # value of the closure: `&built_in` -> constant path template
        for ev in fw.events:
            if ev.kind == 'closure' and ev.entry['id'] == cid:
                body = ev.node['body']
                if body['k'] == 'Block':
                    val = tm.block_value_term(body, 0)
                else:
                    val = tm.value_in_recorded_scope(body, 0)
    elif isinstance(t, tuple) and t[0] == 'iflet' and t[1] == 'Some(_)' and t[3] == ('some_of', t[2]) and S.attr_rec_ok(t[2], L, 'method'):
        # the same choice written as `match method { Some(m) => m, None => { ..; &built_in } }` / `if let`
        val = t[4]
        cid = ('iflet', id(t))
    else:
        return None
    if not (isinstance(val, tuple) and val[0] == 'unwrap' and isinstance(val[1], tuple) and val[1][0] == 'call' and str(val[1][1]).endswith('parse2')):
        return None
    tt = val[1][2]
    if not (isinstance(tt, tuple) and tt[0] == 'tmpl'):
        return None
    for t2 in S.cx.gm.templates:
        if id(t2.mac) == tt[1]:
            if t2.holes:
                return None
            return ('method-or', t2.text().replace(' ', ''), cid)
    return None


class FieldStmts:
    """checks the per-field statements of one accumulator inside one field loop"""

    def __init__(self, S, rule):
        self.S = S
        self.rule = rule

    def run(self, sites, label, loop_kind, match_stmt, resolver, allowed_extra=lambda a, L: False, expect_count=None,
            builtin_for=None, need_ignore=True):
        """match_stmt(site) -> list of ops [(kind, callee, [operand exprs])] or str error.
        resolver(site, expr, role_index, L) -> True | message.
        builtin_for: expected builtin callee path(s) for kind 'builtin'."""
        S, rule = self.S, self.rule
        if not sites:
            S.bad(rule, label + '-none', 'no per-field statement is emitted for this shape')
            return False
        good = True
        entries = []
        loop_ids = set()
        for s in sites:
            atoms = S.atoms(s)
            la, lk = S.field_loop(atoms)
            nbad0 = len(S.rep.findings)
            if la is None or lk != loop_kind:
                S.bad(rule, label + '-loop', 'a per-field statement is emitted outside the loop over the %s fields (context: %s)' % (loop_kind, [atom_s(a) for a in atoms][:6]), s)
                good = False
                continue
            if not S.loop_in_decl_order(la):
                S.bad(rule, label + '-order', 'fields are not visited in declaration order', s)
                good = False
            L = la[1]
            loop_ids.add(L)
            entries.append((s, atoms, L))
            ops = match_stmt(s)
            if isinstance(ops, str):
                S.bad(rule, label + '-form', ops + ': `%s`' % s.tmpl.text()[:140], s)
                good = False
                continue
            ign = [p for p in (S.attr_atom(x, L, 'ignore') for x in atoms) if p is not None]
            if need_ignore and ign != [False]:
                S.bad(rule, label + '-ignore-guard', 'the statement is not emitted exactly under "field not ignored" (ignore guards: %s)' % ign, s)
                good = False
            if not need_ignore and ign:
                S.bad(rule, label + '-ignore-guard', 'unexpected ignore guard', s)
                good = False
            meth = [p for p in (S.attr_atom(x, L, 'method') for x in atoms) if p is not None]
            for kind, callee, operands in ops:
                if kind == 'method':
                    mt = S.hole_term(s, callee)
                    mo = method_or_builtin(S, s, callee, L)
                    if mo is not None:
                        if builtin_for is not None and mo[1] not in builtin_for:
                            S.bad(rule, label + '-builtin', 'without a custom method the field is handled by `%s` (expected %s)' % (mo[1], sorted(builtin_for)), s)
                            good = False
                        if meth:
                            S.bad(rule, label + '-method-guard', 'method-or-builtin callee additionally guarded by %s' % meth, s)
                            good = False
                    elif isinstance(mt, tuple) and mt[0] == 'some_of' and S.attr_rec_ok(mt[1], L, 'method'):
                        if meth != [True]:
                            S.bad(rule, label + '-method-guard', 'the custom method is used under guards %s (expected exactly "method given")' % meth, s)
                            good = False
                    else:
                        S.bad(rule, label + '-method', '`#%s` is not this field\'s own `method` attribute (term %s)' % (callee, term_s(mt, 100)), s)
                        good = False
                elif kind == 'builtin':
                    if builtin_for is not None and callee not in builtin_for:
                        S.bad(rule, label + '-builtin', 'the field is handled by `%s` (expected %s)' % (callee, sorted(builtin_for)), s)
                        good = False
                    if meth != [False]:
                        S.bad(rule, label + '-builtin-guard', 'the built-in operation is not emitted exactly under "no method given" (guards %s)' % meth, s)
                        good = False
                for i, e in enumerate(operands):
                    r = resolver(s, e, i, L)
                    if r is not True:
                        S.bad(rule, label + '-operand%d' % (i + 1), 'operand %d is wrong: %s' % (i + 1, r), s)
                        good = False
            extra = [x for x in atoms_after_loop(atoms, L) if S.attr_atom(x, L, 'ignore') is None and S.attr_atom(x, L, 'method') is None and not allowed_extra(x, L)]
            if extra:
                S.bad(rule, label + '-extra-guard', 'the statement is additionally conditioned on %s: for other inputs the field is silently skipped' % [atom_s(x)[:100] for x in extra], s)
                good = False
            if len(S.rep.findings) == nbad0:
                S.ok(rule, '%s|stmt|%s' % (label, s.tmpl.loc().split('/')[-1].split(':')[0] + ':' + __import__('sa.syn', fromlist=['sha']).sha(s.tmpl.text())[:6]),
                     {'file': s.tmpl.file, 'line': s.tmpl.line, 'statement': s.tmpl.text()[:140], 'guards': [atom_s(a)[:60] for a in atoms_after_loop(atoms, L)]})
        for L in loop_ids:
            es_ = [at for s, at, l in entries if l == L]
            counts, keys = S.count_per_path(es_, L)
            if counts is None:
                S.bad(rule, label + '-paths', 'too many conditions to enumerate')
                good = False
                continue
            for asg, (n, d) in counts.items():
                skip = False
                for k, v in d.items():
                    if allowed_extra(k + (v,), L) is False and allowed_extra(k + (not v,), L) is True:
                        skip = True   # this path is a rejected input (e.g. duplicate rank)
                if skip:
                    continue
                ign_true = any(v for k, v in d.items() if S.attr_atom(k + (True,), L, 'ignore') is not None)
                exp = expect_count(d, L) if expect_count else (0 if ign_true else 1)
                if n != exp:
                    S.bad(rule, label + '-once', 'on the path %s a field gets %d statements (expected %d)' % ([('' if v else '!') + atom_key_s(k) for k, v in d.items()], n, exp))
                    good = False
                    break
        return good


def struct_member_resolver(S, bases):
    """operands `&<base>.#member` for bases[i]"""
    def resolver(s, e, i, L):
        want, refs_want, mut_want = bases[i]
        a = access(e)
        if a is None or a[0] != 'member':
            return '`%s` is not `%s%s.<field>`' % (es(e)[:60], '&' * refs_want, want)
        _, base, hole, refs, mut = a
        if base != want or refs != refs_want or mut != mut_want:
            return '`%s` (expected `%s%s%s.<field>`)' % (es(e)[:60], '&' * refs_want, 'mut ' if mut_want else '', want)
        mt = S.hole_term(s, hole)
        if member_of_loop(mt, L) is None:
            return '`#%s` is not the member of the field being visited (%s)' % (hole, term_s(mt, 80))
        return True
    return resolver


def binder_resolver(S, pms):
    """operands are binders of pattern models pms[i] (same field loop)"""
    def resolver(s, e, i, L):
        pm = pms[i]
        acc = access(e)
        if acc is None or acc[0] not in ('var',) or acc[2] != 0:
            return '`%s` is not a pattern-bound variable' % es(e)[:60]
        bt = S.hole_term(s, acc[1])
        ent = pm.binder(bt)
        if ent is None:
            for j, other in enumerate(pms):
                if other is not pm and other.binder(bt) is not None:
                    return '`#%s` is bound by the pattern matched against `%s`, not `%s`' % (acc[1], other.scrutinee, pm.scrutinee)
            return '`#%s` is not bound by the `%s` pattern' % (acc[1], pm.scrutinee)
        if ent.loop_id != L:
            return '`#%s` is the binder of another field loop' % acc[1]
        if pm.kind == 'named' and member_of_loop(ent.name_term, L) is None:
            return 'binder `#%s` is attached to a field name that is not the visited field' % acc[1]
        return True
    return resolver


def variant_arms(S, rule, msite, arms_hole, need_shapes=('Unit', 'Named', 'Unnamed'), allow=lambda a: False):
    """one arm template per variant shape, emitted in the in-order variants loop under exactly the shape guard"""
    arm_sites = S.kids(msite, arms_hole)
    by_shape = {}
    ok = True
    for a in arm_sites:
        atoms = S.atoms(a)
        vl = S.variant_loop(atoms)
        if vl is None or not S.loop_in_decl_order(vl):
            S.bad(rule, 'enum-arm-loop', 'an arm is emitted outside the in-order loop over the variants', a)
            ok = False
            continue
        V = vl[1]
        shapes = [x for x in atoms if x[0] == 'shape' and x[1] == ('field', ('elem', V), 'fields') and x[3] is True]
        extra = [x for x in atoms_after_loop(atoms, V) if x not in shapes and not allow(x)]
        if len(shapes) != 1 or extra:
            S.bad(rule, 'enum-arm-guard', 'an arm is emitted under %s (expected exactly the variant\'s shape)' % [atom_s(x)[:80] for x in atoms_after_loop(atoms, V)], a)
            ok = False
            continue
        by_shape.setdefault(shapes[0][2], []).append((a, V))
    for sh in need_shapes:
        if len(by_shape.get(sh, [])) != 1:
            S.bad(rule, 'enum-arm-%s' % sh, 'expected exactly one arm template for %s variants, found %d: some variant would get no arm or two' % (sh, len(by_shape.get(sh, []))), msite)
            ok = False
    return by_shape if ok else None
