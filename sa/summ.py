"""Shared machinery for the semantic summaries (SUM-*) of generated method bodies."""
import itertools
from .syn import es, pat_s, ty_s
from .terms import term_s, subterms, analyse_iter, strip_refs
from .walk import ctx_s
from .gen import Site, Leaf
from .tmpl import (find_markers, marker_of_expr, marker_of_pat, marker_of_stmt, marker_of_type, MARK, is_marker_path)
from .genast import visit, is_marker, marker_name
from .facts import Facts, atom_s


class Summ:
    def __init__(self, cx, fn, rep, facts=None):
        self.cx = cx
        self.fn = fn
        self.rep = rep
        self.fw = cx.fw(fn)
        self.hg = cx.hg(fn)
        self.tm = cx.gm.terms_of(self.fw)
        self.facts = facts or Facts(cx)
        self.sites, self.bad_leaves = cx.all_sites(fn)
        self.where = fn.qname
        self._atoms = {}

    # -- basic navigation -----------------------------------------------------------------
    def roots(self):
        return [s for s in self.sites if s.parent is None]

    def impls(self):
        """[(root site, impl json)] of top-level impls"""
        out = []
        for s in self.roots():
            if s.ast is None:
                continue
            for it in s.ast:
                if it['k'] == 'Impl':
                    out.append((s, it))
        return out

    def impl_of(self, trait_path):
        return [(s, it) for s, it in self.impls() if it.get('trait') and it['trait']['path']['s'] == trait_path]

    def fns_of(self, impl):
        return [ii for ii in impl['items'] if ii['k'] == 'Fn']

    def kids(self, site, hole):
        """child sites (templates) filling accumulator/stream hole `hole` of `site`, in emission order"""
        return [s for s in self.sites if s.parent is site and s.hole == hole]

    def kid_leaves(self, site, hole, pos):
        return self.hg.children(site, hole, pos)

    def atoms(self, site_or_ctx):
        ctx = site_or_ctx.ctx if isinstance(site_or_ctx, Site) else site_or_ctx
        key = tuple(c.key() for c in ctx)
        if key not in self._atoms:
            self._atoms[key] = self.facts.atoms(self.facts.effective_ctx(ctx, self.fw), self.fw)
        return self._atoms[key]

    def eff_ctx(self, ctx):
        return self.facts.effective_ctx(ctx, self.fw)

    def hole_term(self, site, name):
        """term of a hole, with helper-function parameters substituted by the caller's argument"""
        t = site.tmpl.hole_term(name)
        if site.leaf is not None and site.leaf.via and isinstance(t, tuple) and t[0] == 'param':
            callee_fw, call, cscope, cfw = site.leaf.via[-1]
            names = [p[0] for p in callee_fw.fn.params() if p[0] != 'self']
            if t[1] in names and names.index(t[1]) < len(call['args']):
                return self.cx.gm.terms_of(cfw).term(call['args'][names.index(t[1])], cscope)
        return t

    def bad(self, rule, inst, msg, site=None, line=None):
        f = site.tmpl.file if site is not None else self.fn.file
        l = site.tmpl.line if site is not None else (line or self.fn.line)
        self.rep.bad(rule, self.where, inst, msg, f, l, {'template': site.tmpl.text()[:300]} if site is not None else None)

    def ok(self, rule, inst, sample=None):
        self.rep.ok(rule, '%s|%s' % (self.where, inst), sample)

    # -- loops ------------------------------------------------------------------------------
    def loops_of(self, atoms):
        return [a for a in atoms if a[0] == 'loop']

    def field_loop(self, atoms):
        """innermost loop over a field list: returns (loop atom, kind) kind in {'struct','variant','union'}"""
        for a in reversed(atoms):
            if a[0] == 'loop':
                base = a[2]
                k = self.field_list_kind(base)
                if k:
                    return a, k
        return None, None

    def field_list_kind(self, base):
        if not isinstance(base, tuple):
            return None
        # payload(Data::Struct,0,ast.data).fields | elem(V).fields | payload(Fields::Named,..).named | ..union..fields.named
        if base[0] == 'field' and base[2] in ('fields',):
            inner = base[1]
            if isinstance(inner, tuple) and inner[0] == 'payload' and inner[1] == 'Data::Struct':
                return 'struct'
            if isinstance(inner, tuple) and inner[0] == 'elem':
                return 'variant'
            if isinstance(inner, tuple) and inner[0] == 'payload' and inner[1] == 'Data::Union':
                return 'union-fields'
        if base[0] == 'field' and base[2] in ('named', 'unnamed'):
            inner = base[1]
            if isinstance(inner, tuple) and inner[0] == 'payload' and inner[1] in ('Fields::Named', 'Fields::Unnamed'):
                src = inner[3]
                if isinstance(src, tuple) and src[0] == 'field' and src[2] == 'fields':
                    return self.field_list_kind(src)
            if isinstance(inner, tuple) and inner[0] == 'field' and inner[2] == 'fields':
                i2 = inner[1]
                if isinstance(i2, tuple) and i2[0] == 'payload' and i2[1] == 'Data::Union':
                    return 'union'
                return self.field_list_kind(inner)
        return None

    def variant_loop(self, atoms):
        for a in atoms:
            if a[0] == 'loop' and isinstance(a[2], tuple) and a[2][0] == 'field' and a[2][2] == 'variants':
                return a
        return None

    def loop_in_decl_order(self, loop_atom):
        return not loop_atom[5] and not loop_atom[6]

    # -- attribute atoms ----------------------------------------------------------------------
    def attr_atom(self, a, loop_id, member):
        """is atom `a` a test of <attribute record of loop's elem>.<member>?  returns polarity or None"""
        if a[0] not in ('truth', 'some'):
            return None
        t = a[1]
        r = self.facts.attr_of(t)
        if r is None:
            return None
        rec, mem, (bstruct, method, args) = r
        if mem != member:
            return None
        if not args or args[0] != ('field', ('elem', loop_id), 'attrs'):
            return None
        return a[2]

    def attr_rec_ok(self, t, loop_id, member):
        """t == <attribute record built from elem(loop).attrs>.<member> (possibly through some_of / unwrap_or_else)"""
        r = self.facts.attr_of(t)
        if r is None:
            return False
        rec, mem, (bstruct, method, args) = r
        return mem == member and bool(args) and args[0] == ('field', ('elem', loop_id), 'attrs')

    # -- exactly-once analysis ------------------------------------------------------------------
    def count_per_path(self, entries, loop_id, relevant=None):
        """entries: list of atom-lists (each the atoms of one emission inside loop `loop_id`).
        returns {assignment (tuple of (atom key, bool)) : count} over all assignments of the boolean atoms that occur after
        the loop atom in any entry."""
        keys = []
        per_entry = []
        for atoms in entries:
            after = []
            seen = False
            for a in atoms:
                if a[0] == 'loop' and a[1] == loop_id:
                    seen = True
                    continue
                if a[0] == 'via' and a[1] == loop_id:
                    seen = True
                    continue
                if seen and a[0] in ('truth', 'some', 'cond', 'empty', 'is', 'shape', 'len', 'haskey', 'pat'):
                    k = a[:-1]
                    after.append((k, a[-1]))
                    if k not in keys:
                        keys.append(k)
            per_entry.append(after)
        out = {}
        if len(keys) > 10:
            return None, keys
        for bits in itertools.product((False, True), repeat=len(keys)):
            asg = dict(zip(keys, bits))
            n = 0
            for req in per_entry:
                if all(asg[k] == v for k, v in req):
                    n += 1
            out[tuple(sorted(((str(k), v) for k, v in asg.items())))] = (n, asg)
        return out, keys


# ------------------------------------------------------------------------------------------
# generated-code expression classification
# ------------------------------------------------------------------------------------------

def strip_ref_gen(e):
    refs = 0
    mut = False
    while e is not None and e['k'] == 'Ref':
        refs += 1
        mut = mut or e['mut']
        e = e['expr']
    return e, refs, mut


def access(e):
    """classify an operand of generated code:
       ('member', base 'self'|'other'|'source', hole name, nrefs, mut)   for  &self.#f
       ('var', hole name, nrefs, mut)                                    for  #binder / &#binder
       ('deref-var', hole name)                                          for  *#binder
       ('name', ident, nrefs, mut)                                       for  self / other / source / state / f ...
       ('lit-hole', hole)  ...
       None otherwise"""
    x, refs, mut = strip_ref_gen(e)
    if x is None:
        return None
    if x['k'] == 'Field' and x['base']['k'] == 'Path' and isinstance(x['member'], str) and x['member'].startswith(MARK):
        b = x['base']['path']['s']
        return ('member', b, x['member'][len(MARK):], refs, mut)
    if x['k'] == 'Path':
        m = is_marker_path(x['path'])
        if m is not None:
            return ('var', m, refs, mut)
        if len(x['path']['segs']) == 1:
            return ('name', x['path']['s'], refs, mut)
    if x['k'] == 'Unary' and x['op'] == '*':
        y = x['expr']
        if y['k'] == 'Path' and is_marker_path(y['path']) is not None:
            return ('deref-var', is_marker_path(y['path']), refs, mut)
        if y['k'] == 'Path' and len(y['path']['segs']) == 1:
            return ('deref-name', y['path']['s'], refs, mut)
    return None


def call_parts(e):
    """(callee kind, callee, args): ('path', '::core::cmp::PartialEq::ne') | ('hole', name)"""
    if e['k'] != 'Call':
        return None
    f = e['func']
    if f['k'] == 'Path':
        m = is_marker_path(f['path'])
        if m is not None:
            return ('hole', m, e['args'])
        return ('path', f['path']['s'], e['args'])
    return None


def single_expr_stmt(stmts):
    if len(stmts) == 1 and stmts[0]['k'] == 'Expr':
        return stmts[0]['expr']
    return None


def block_stmts(b):
    return b['stmts'] if b['k'] == 'Block' else [{'k': 'Expr', 'expr': b, 'semi': False}]


def is_return(e, pred):
    return e['k'] == 'Return' and e.get('expr') is not None and pred(e['expr'])


def is_lit_bool(e, v):
    return e['k'] == 'Lit' and e['lit']['k'] == 'Bool' and e['lit']['v'] is v


def is_path(e, s):
    return e['k'] == 'Path' and e['path']['s'] == s and not e.get('qself')


def stmts_without_markers(stmts):
    return [s for s in stmts if marker_of_stmt(s) is None]


def marker_stmts(stmts):
    return [(i, marker_of_stmt(s)) for i, s in enumerate(stmts) if marker_of_stmt(s) is not None]


# ------------------------------------------------------------------------------------------
# member names, patterns, arms
# ------------------------------------------------------------------------------------------

def member_of_loop(t, loop_id):
    """does term t denote the member (name or index) of the current field of loop `loop_id`?
    returns 'both' | 'named' | 'tuple' | None"""
    if not isinstance(t, tuple):
        return None
    E = ('elem', loop_id)
    I = ('idx', loop_id)
    ident = ('field', E, 'ident')
    if t[0] == 'call' and str(t[1]).endswith('IdentOrIndex::from_ident_with_index') and t[2:] == (ident, I):
        return 'both'
    if t[0] == 'iflet' and t[1].startswith('Some(') and t[2] == ident:
        a, b = t[3], t[4]
        if isinstance(a, tuple) and a[0] == 'call' and str(a[1]).endswith('IdentOrIndex::from') and a[2] == ('some_of', ident) \
                and isinstance(b, tuple) and b[0] == 'call' and str(b[1]).endswith('IdentOrIndex::from') and b[2] == I:
            return 'both'
    if t == ('unwrap', ident) or t == ('some_of', ident):
        return 'named'
    if t[0] == 'call' and str(t[1]).endswith('Index::from') and t[2:] == (I,):
        return 'tuple'
    return None


class PatEntry:
    def __init__(self, site, atoms, loop_id, kind, binder, name_term, by_ref=False):
        self.site = site
        self.atoms = atoms
        self.loop_id = loop_id
        self.kind = kind          # 'bind' | 'wild' | 'rest'
        self.binder = binder      # term of the binder identifier (or None)
        self.name_term = name_term
        self.by_ref = by_ref


class PatModel:
    def __init__(self, kind, variant_term, hole, entries, scrutinee, pat):
        self.kind = kind          # 'unit' | 'named' | 'tuple'
        self.variant_term = variant_term
        self.hole = hole
        self.entries = entries
        self.scrutinee = scrutinee
        self.pat = pat
        self.problems = []

    def binder(self, term):
        for e in self.entries:
            if e.kind == 'bind' and e.binder == term:
                return e
        return None


def pattern_model(S, site, pat, scrutinee):
    """model of `Self::#v`, `Self::#v { #acc }` or `Self::#v ( #acc )` appearing in `site`"""
    k = pat['k']
    path = pat.get('path')
    if path is None or len(path['segs']) != 2 or path['segs'][0]['id'] != 'Self' or not is_marker(path['segs'][1]['id']):
        return None
    vt = S.hole_term(site, marker_name(path['segs'][1]['id']))
    if k == 'Path':
        return PatModel('unit', vt, None, [], scrutinee, pat)
    if k == 'Struct':
        fields = pat['fields']
        if len(fields) == 0 and pat['rest']:
            return PatModel('any', vt, None, [], scrutinee, pat)
        if len(fields) == 1 and fields[0]['shorthand'] and marker_of_pat(fields[0]['pat']) and not pat['rest']:
            hole = marker_of_pat(fields[0]['pat'])
            pm = PatModel('named', vt, hole, [], scrutinee, pat)
            for kid in S.kids(site, hole):
                if kid.ast is None or kid.cat != 'fieldpats':
                    pm.problems.append('pattern fragment does not parse as field patterns: %s' % kid.tmpl.loc())
                    continue
                atoms = S.atoms(kid)
                la, lk = S.field_loop(atoms)
                fps = kid.ast['fields']
                if kid.ast['rest'] and not fps:
                    pm.entries.append(PatEntry(kid, atoms, la[1] if la else None, 'rest', None, None))
                    continue
                for fp in fps:
                    mem = fp['member']
                    nt = S.hole_term(kid, marker_name(mem)) if is_marker(mem) else ('lit', mem)
                    p = fp['pat']
                    if fp['shorthand']:
                        b = marker_of_pat(p)
                        bt = S.hole_term(kid, b) if b else None
                        pm.entries.append(PatEntry(kid, atoms, la[1] if la else None, 'bind', bt, nt))
                    elif p['k'] == 'Wild':
                        pm.entries.append(PatEntry(kid, atoms, la[1] if la else None, 'wild', None, nt))
                    elif p['k'] == 'Ident' and is_marker(p['name']):
                        pm.entries.append(PatEntry(kid, atoms, la[1] if la else None, 'bind', S.hole_term(kid, marker_name(p['name'])), nt, p['by_ref']))
                    else:
                        pm.problems.append('unrecognised field pattern `%s`' % pat_s(p))
                if kid.ast['rest']:
                    pm.entries.append(PatEntry(kid, atoms, la[1] if la else None, 'rest', None, None))
            return pm
        return None
    if k == 'TupleStruct':
        elems = pat['elems']
        if len(elems) == 1 and marker_of_pat(elems[0]):
            hole = marker_of_pat(elems[0])
            pm = PatModel('tuple', vt, hole, [], scrutinee, pat)
            for kid in S.kids(site, hole):
                if kid.ast is None or kid.cat != 'patelems':
                    pm.problems.append('pattern fragment does not parse as pattern elements: %s' % kid.tmpl.loc())
                    continue
                atoms = S.atoms(kid)
                la, lk = S.field_loop(atoms)
                for p in kid.ast:
                    if p['k'] == 'Wild':
                        pm.entries.append(PatEntry(kid, atoms, la[1] if la else None, 'wild', None, None))
                    elif p['k'] == 'Rest':
                        pm.entries.append(PatEntry(kid, atoms, la[1] if la else None, 'rest', None, None))
                    elif p['k'] == 'Ident' and is_marker(p['name']):
                        pm.entries.append(PatEntry(kid, atoms, la[1] if la else None, 'bind', S.hole_term(kid, marker_name(p['name'])), None, p['by_ref']))
                    else:
                        pm.problems.append('unrecognised tuple pattern element `%s`' % pat_s(p))
            return pm
        return None
    return None


def pattern_once(S, pm, rule, inst):
    """every path through the field loop emits exactly one element into the pattern accumulator"""
    if pm.kind not in ('named', 'tuple'):
        return True
    by_loop = {}
    for e in pm.entries:
        if e.kind == 'rest':
            continue
        by_loop.setdefault(e.loop_id, []).append(e)
    ok = True
    for lid, es_ in by_loop.items():
        if lid is None:
            S.bad(rule, inst + '-pattern-outside-loop', 'a pattern element is emitted outside the field loop', es_[0].site)
            ok = False
            continue
        counts, keys = S.count_per_path([e.atoms for e in es_], lid)
        if counts is None:
            S.bad(rule, inst + '-pattern-paths', 'too many conditions around pattern emission to enumerate', es_[0].site)
            ok = False
            continue
        for asg, (n, d) in counts.items():
            if n != 1:
                S.bad(rule, inst + '-pattern-once',
                      'on the path %s the pattern `%s` receives %d elements for one field (must be exactly one: positions/fields would shift)' % (
                          [('' if v else '!') + atom_key_s(k) for k, v in d.items()], pm.hole, n), es_[0].site)
                ok = False
                break
    return ok


def atom_key_s(k):
    return atom_s(k + (True,))[:70]
