"""GEN-INJ (pairwise): the binder names a handler derives for the fields of one variant — one naming scheme per operand (self / other,
source / destination) — must never coincide for any legal field names: `"_{}"` for self and `"__{}"` for other collide for sibling
fields `x` and `_x` (the inner binding shadows the outer one and the wrong operand is used), `"_s_{}"`/`"_o_{}"` cannot."""
from ..terms import subterms


def flatten(t):
    """('format_ident', fmt, base) nested -> (prefix string, base term) for formats of the form '<prefix>{}'; else None"""
    prefix = ''
    while isinstance(t, tuple) and t and t[0] == 'format_ident':
        fmt = t[1]
        if not isinstance(fmt, str) or fmt.count('{}') != 1 or not fmt.endswith('{}') or len(t) != 3:
            return None
        prefix += fmt[:-2]
        t = t[2]
    return prefix, t


def base_kind(t):
    if isinstance(t, tuple) and t and t[0] == 'idx':
        return 'index'
    if isinstance(t, tuple) and t and t[0] == 'lit' and t[1] == 'Int':
        return 'index'
    return 'ident'


def collide(p1, p2, kind):
    """can p1+b1 == p2+b2 for legal bases of this kind (b1 != b2 when p1 == p2 is the same binder: reported separately)"""
    if p1 == p2:
        return 'same'
    a, b = (p1, p2) if len(p1) <= len(p2) else (p2, p1)
    if not b.startswith(a):
        return None
    r = b[len(a):]
    if kind == 'index':
        return ('a field index cannot start with `%s`' % r, None)[1] if not r.isdigit() else 'digits'
    # identifiers: the field named r+x collides with the field named x
    if all(ch.isalnum() or ch == '_' for ch in r):
        return 'fields `x` and `%sx`' % r
    return None


def check_binder_injectivity(cx, rep, needles=None, rule='GEN-INJ'):
    n = 0
    for fn in cx.handler_fns():
        if needles is not None and not any(x in fn.qname for x in needles):
            continue
        fw = cx.fw(fn)
        tm = cx.gm.terms_of(fw)
        groups = {}
        for ev in fw.events:
            if ev.kind == 'macro' and ev.name == 'format_ident':
                t = tm.term(ev.node, ev.scope)
                fl = flatten(t)
                loops = [c['id'] for c in ev.ctx if c['k'] == 'for']
                if not loops:
                    continue
                if fl is None:
                    rep.bad(rule, fn.qname, 'format@%s' % (t[1] if isinstance(t, tuple) and len(t) > 1 else '?'),
                            'derived identifier format is not of the injective form "<prefix>{}"', fn.file, ev.line)
                    continue
                groups.setdefault(loops[-1], []).append((fl[0], fl[1], ev))
        for L, lst in groups.items():
            # distinct schemes of one field loop are in scope together (self/other patterns of one arm)
            seen = {}
            for p, b, ev in lst:
                seen.setdefault((p, repr(b)), (p, b, ev))
            items = list(seen.values())
            for i in range(len(items)):
                for j in range(i + 1, len(items)):
                    (p1, b1, e1), (p2, b2, e2) = items[i], items[j]
                    n += 1
                    kind = base_kind(b1) if base_kind(b1) == base_kind(b2) else 'ident'
                    c = collide(p1, p2, kind)
                    inst = 'binders="%s{}"/"%s{}"' % (p1, p2)
                    if c is None:
                        rep.ok(rule, '%s|%s (%s)' % (fn.qname, inst, kind))
                    elif c == 'same':
                        if b1 != b2:
                            rep.bad(rule, fn.qname, inst, 'two binder schemes with the same prefix "%s" over different bases' % p1, fn.file, e2.line)
                        else:
                            rep.ok(rule, '%s|%s (same binder)' % (fn.qname, inst))
                    else:
                        rep.bad(rule, fn.qname, inst,
                                'the binder names "%s{}" and "%s{}" derived for the fields of one variant coincide for %s: the later binding shadows the earlier one and the generated code uses the wrong operand'
                                % (p1, p2, c), fn.file, e2.line)
            if len(items) == 1:
                n += 1
                rep.ok(rule, '%s|single scheme "%s{}"' % (fn.qname, items[0][0]))
    return n
