"""C04 — enum variants order by declared discriminant, never by memory layout.

Decides the *shape* of the cross-variant comparison emitted by the Ord / PartialOrd enum handlers:
  DISCR-SAFE   no template reachable in those handlers contains `unsafe`, raw pointers, casts, transmute,
               read, size_of, from_raw_parts: safe code cannot observe layout or neighbouring bytes.
  DISCR-MATCH  the compared integers are produced by `match self|other { <one arm per variant> }` whose arm
               value is the declared discriminant of that same variant.
  DISCR-VALUE  the discriminant provider implements the language rule: explicit literal => that value,
               otherwise previous + 1, starting at 0, visiting variants in declaration order.
  DISCR-DOM    the per-variant field comparison is only reached when the discriminants compare Equal.
"""
from ..report import Report
from ..genast import visit, is_marker, marker_name
from ..gen import Site
from ..syn import es, pat_s
from ..terms import term_s, subterms, analyse_iter
from ..walk import ctx_s

LAYOUT_CALLS = {'transmute', 'transmute_copy', 'read', 'read_unaligned', 'read_volatile', 'size_of', 'size_of_val',
                'from_raw_parts', 'cast', 'offset', 'add', 'as_ptr', 'addr_of', 'from_ref', 'discriminant'}


def ord_enum_handlers(cx):
    out = []
    for t, shape, fn in cx.shape_handlers():
        if t in ('Ord', 'PartialOrd') and shape == 'enum':
            out.append((t, fn))
    return out


def run(cx, tier='quick'):
    rep = Report('C04')
    rep.explanation.append(
        'Shape of the cross-variant comparison in the generated cmp/partial_cmp of enums, decided on the generated-code model of the '
        'Ord and PartialOrd enum handlers (all templates, all paths of the generator): DISCR-SAFE (no unsafe / pointer / cast / '
        'layout-observing call), DISCR-MATCH (compared values come from a match with one arm per variant yielding that variant\'s '
        'declared discriminant), DISCR-VALUE (discriminant provider = explicit literal, else previous+1, from 0, declaration order), '
        'DISCR-DOM (field comparison dominated by discriminant equality).')
    hs = ord_enum_handlers(cx)
    if len(hs) < 2:
        rep.broken.append('expected the Ord and PartialOrd enum handlers, found %d' % len(hs))
    for t, fn in hs:
        sites, bad = cx.all_sites(fn)
        where = fn.qname
        for lf in bad:
            rep.bad('UNANALYSABLE', where, 'emission=%s' % (es(lf.expr)[:80] if lf.expr else lf.kind),
                    'emission whose content the generated-code model cannot determine', fn.file, lf.event.line if lf.event else fn.line)
        n_nodes = 0
        for s in sites:
            if s.ast is None:
                rep.bad('UNANALYSABLE', where, 'template-parse', 'template does not parse as %s: %s' % (s.cat, s.err), s.tmpl.file, s.tmpl.line)
                continue

            def cb(role, node, extra, s=s):
                nonlocal n_nodes
                n_nodes += 1
                if role == 'unsafe':
                    rep.bad('DISCR-SAFE', where, 'unsafe-block',
                            'the generated comparison contains an `unsafe` block: it can read memory by layout (discriminant read through a pointer cast compares payload/niche bytes, e.g. Only(200) < Only(100))',
                            s.tmpl.file, s.tmpl.line, {'template': s.tmpl.text()[:400]})
                elif role == 'type' and node['k'] == 'Ptr':
                    rep.bad('DISCR-SAFE', where, 'raw-pointer-type', 'raw pointer type `%s` in the generated comparison' % node.get('text'),
                            s.tmpl.file, s.tmpl.line)
                elif role == 'cast':
                    rep.bad('DISCR-SAFE', where, 'cast', '`as` cast in the generated comparison (`%s`)' % es(node)[:80], s.tmpl.file, s.tmpl.line)
                elif role == 'mcall' and node['method'] in LAYOUT_CALLS:
                    rep.bad('DISCR-SAFE', where, 'call=.%s' % node['method'], 'layout-observing call `.%s()` in the generated comparison' % node['method'],
                            s.tmpl.file, s.tmpl.line)
                elif role == 'path' and node['segs'][-1]['id'] in LAYOUT_CALLS and extra == 'expr':
                    rep.bad('DISCR-SAFE', where, 'call=%s' % node['s'], 'layout-observing function `%s` in the generated comparison' % node['s'],
                            s.tmpl.file, s.tmpl.line)
            visit(s.ast, s.cat, cb)
        rep.ok('DISCR-SAFE', '%s|%d sites, %d nodes scanned' % (where, len(sites), n_nodes),
               {'handler': where, 'sites': len(sites), 'nodes': n_nodes})
        check_match_shape(cx, t, fn, sites, rep)
    from .scope import check_scopes
    check_scopes(cx, rep, ['::ord::', '::partial_ord::'])
    # "values of the same variant are ordered by their fields alone": the self / other binders of one arm never coincide
    from .binders import check_binder_injectivity
    check_binder_injectivity(cx, rep, ['::ord::ord_enum', '::partial_ord::partial_ord_enum'])
    rep.floor('DISCR-SAFE', 2)
    selftest(rep)
    rep.assumptions += ['safe Rust cannot observe enum layout', 'Rust reference: implicit discriminant = previous + 1, first = 0']
    rep.not_decided += ['non-literal discriminant expressions are refused by educe (outside C04 as stated)']
    # same-variant clause ("ordered by their fields alone"): the enum summaries of SUM-ORD, incl. the all-unit shortcut analysis
    from .c03 import check_enum as _sum_ord_enum
    from ..facts import Facts as _Facts
    from ..report import Report as _Report
    sub = _Report('C04')
    f_ = _Facts(cx)
    for t_, sh_, fn_ in cx.shape_handlers():
        if t_ in ('Ord', 'PartialOrd') and sh_ == 'enum':
            _sum_ord_enum(cx, fn_, sub, f_, t_ == 'PartialOrd')
    rep.merge(sub)
    from .own import include_generic_rules as _igr
    _igr(cx, rep, ['::ord::', '::partial_ord::'])
    return rep


def find_root_cmp_fn(sites, name):
    for s in sites:
        if s.cat == 'items' and s.ast:
            for it in s.ast:
                if it['k'] == 'Impl':
                    for ii in it['items']:
                        if ii['k'] == 'Fn' and ii['sig']['name'] == name:
                            return s, it, ii
    return None, None, None


def check_match_shape(cx, t, fn, sites, rep):
    """DISCR-MATCH / DISCR-DOM on the composed body of cmp / partial_cmp."""
    where = fn.qname
    hg = cx.hg(fn)
    fname = 'cmp' if t == 'Ord' else 'partial_cmp'
    root, impl, f = find_root_cmp_fn(sites, fname)
    if root is None:
        rep.bad('DISCR-MATCH', where, 'fn-' + fname, 'no `fn %s` found in the emitted impl' % fname, fn.file, fn.line)
        return
    # the fn body must be a single accumulator hole; its leaves: (a) empty-enum constant, (b) all-unit form, (c) general form
    body_sites = [s for s in sites if s.parent is root and s.cat in ('stmts', 'expr')]
    if not body_sites:
        rep.bad('DISCR-MATCH', where, 'body', 'fn %s has no composed body' % fname, root.tmpl.file, root.tmpl.line)
        return
    for bs in body_sites:
        # classify by the guards: empty enum <=> arms accumulator empty
        ast = bs.ast
        stmts = ast if bs.cat == 'stmts' else [{'k': 'Expr', 'expr': ast, 'semi': False}]
        if len(stmts) != 1 or stmts[0]['k'] != 'Expr':
            rep.bad('DISCR-MATCH', where, 'body-shape', 'unexpected body shape for %s' % fname, bs.tmpl.file, bs.tmpl.line)
            continue
        e = stmts[0]['expr']
        if e['k'] == 'Match':
            scrut = e['expr']
            check_discr_scrutinee(cx, fn, hg, bs, scrut, rep, sites)
            check_dominance(cx, fn, bs, e, rep, fname)
        else:
            # constant body is only allowed when no variant arm exists (empty enum)
            from ..emptiness import empty_evidence
            from ..facts import Facts as _F
            guard_ok = empty_evidence(_F(cx).atoms(bs.ctx, cx.fw(fn)), cx, cx.fw(fn))
            if guard_ok:
                rep.ok('DISCR-MATCH', '%s|empty-enum-constant' % where)
            else:
                rep.bad('DISCR-MATCH', where, 'constant-body', 'constant comparison result emitted without the empty-enum guard', bs.tmpl.file, bs.tmpl.line)


def check_discr_scrutinee(cx, fn, hg, bs, scrut, rep, sites):
    where = fn.qname
    # scrutinee is a stream-valued hole (#discriminant_cmp) or inline expression
    exprs = []
    from ..tmpl import marker_of_expr
    m = marker_of_expr(scrut)
    if m is not None:
        kids = [s for s in sites if s.parent is bs and s.hole == m]
        if not kids:
            rep.bad('DISCR-MATCH', where, 'scrutinee', 'cannot resolve the discriminant comparison `#%s`' % m, bs.tmpl.file, bs.tmpl.line)
            return
        for k in kids:
            if k.ast is None:
                rep.bad('UNANALYSABLE', where, 'template-parse', 'discriminant comparison does not parse: %s' % k.err, k.tmpl.file, k.tmpl.line)
                continue
            ex = k.ast if k.cat == 'expr' else (k.ast[0]['expr'] if k.ast and k.ast[0]['k'] == 'Expr' else None)
            exprs.append((k, ex))
    else:
        exprs.append((bs, scrut))
    for site, ex in exprs:
        if ex is None:
            rep.bad('DISCR-MATCH', where, 'scrutinee-shape', 'discriminant comparison is not an expression', site.tmpl.file, site.tmpl.line)
            continue
        inner = ex
        while inner['k'] in ('Unsafe', 'Block') and True:
            blk = inner['block'] if inner['k'] == 'Unsafe' else inner
            st = blk['stmts']
            if len(st) == 1 and st[0]['k'] == 'Expr':
                inner = st[0]['expr']
            else:
                break
        if not (inner['k'] == 'Call' and inner['func']['k'] == 'Path' and inner['func']['path']['s'] == '::core::cmp::Ord::cmp' and len(inner['args']) == 2):
            rep.bad('DISCR-MATCH', where, 'scrutinee-shape',
                    'the cross-variant comparison is not `::core::cmp::Ord::cmp(<discriminant of self>, <discriminant of other>)`', site.tmpl.file, site.tmpl.line,
                    {'expr': es(inner)[:200]})
            continue
        sides = []
        for i, (a, who) in enumerate(zip(inner['args'], ('self', 'other'))):
            x = a
            while x['k'] in ('Ref',):
                x = x['expr']
            if x['k'] == 'Match' and x['expr']['k'] == 'Path' and x['expr']['path']['s'] == who:
                sides.append((who, x))
            else:
                rep.bad('DISCR-MATCH', where, 'operand-%s' % who,
                        'operand %d of the discriminant comparison is not `match %s { <arm per variant> }` (found `%s`)' % (i + 1, who, es(x)[:120]),
                        site.tmpl.file, site.tmpl.line)
        if len(sides) != 2:
            continue
        arm_holes = []
        for who, mx in sides:
            from ..tmpl import marker_of_pat
            arms = mx['arms']
            if len(arms) == 1 and marker_of_pat(arms[0]['pat']) is not None and arms[0]['pat']['k'] == 'Macro':
                arm_holes.append(marker_of_pat(arms[0]['pat']))
            else:
                rep.bad('DISCR-MATCH', where, 'arms-%s' % who, 'the arms of `match %s` are not a single per-variant accumulator' % who, site.tmpl.file, site.tmpl.line)
        if len(arm_holes) == 2:
            d0 = site.tmpl.hole_def(arm_holes[0])
            d1 = site.tmpl.hole_def(arm_holes[1])
            if d0 is None or d1 is None or d0.id != d1.id:
                rep.bad('DISCR-MATCH', where, 'arms-differ', '`match self` and `match other` use different arm tables (%s vs %s)' % (arm_holes[0], arm_holes[1]),
                        site.tmpl.file, site.tmpl.line)
                continue
            check_arm_table(cx, fn, hg, site, d0, rep)


def check_arm_table(cx, fn, hg, site, acc, rep):
    where = fn.qname
    fw = cx.fw(fn)
    tm = cx.gm.terms_of(fw)
    leaves = hg.acc_leaves(acc, fw)
    if len(leaves) != 1 or leaves[0].kind != 'tmpl':
        rep.bad('DISCR-MATCH', where, 'arm-table-sites', 'the discriminant arm table has %d emission sites (expected exactly one, in the variants loop)' % len(leaves),
                site.tmpl.file, site.tmpl.line)
        return
    lf = leaves[0]
    # context: exactly [if let Data::Enum, for over data.variants (zip discriminants)]
    loops = [c for c in lf.ctx if c['k'] == 'for']
    others = [c for c in lf.ctx if c['k'] not in ('for', 'iflet') or (c['k'] == 'iflet' and 'Data::Enum' not in pat_s(c['pat']))]
    if len(loops) != 1 or others:
        rep.bad('DISCR-MATCH', where, 'arm-table-guards',
                'the discriminant arm is not emitted exactly once per variant (context: %s)' % ctx_s(lf.ctx), lf.tmpl.file, lf.tmpl.line)
        return
    loop = loops[0]
    info = analyse_iter(loop['iter'])
    base_ok = es(info.base) in ('data.variants',) and not info.rev and not [a for a in info.adaptors if a not in ()]
    if not base_ok:
        rep.bad('DISCR-MATCH', where, 'arm-table-loop', 'the loop emitting discriminant arms is not a plain in-order iteration of data.variants: `%s`' % es(loop['iter']),
                lf.tmpl.file, lf.tmpl.line)
        return
    ok, arms, forms = cx.gm.parse(lf.tmpl, 'arms')
    if not ok or len(arms) != 1:
        rep.bad('DISCR-MATCH', where, 'arm-shape', 'the discriminant arm template is not a single match arm', lf.tmpl.file, lf.tmpl.line)
        return
    arm = arms[0]
    p = arm['pat']
    segs = p.get('path', {}).get('segs', [])
    okpat = p['k'] in ('Struct', 'TupleStruct', 'Path') and len(segs) == 2 and segs[0]['id'] == 'Self' and is_marker(segs[1]['id']) \
        and (p['k'] != 'Struct' or (not p['fields'] and p['rest'])) and arm.get('guard') is None
    if okpat:
        vt = lf.tmpl.hole_term(marker_name(segs[1]['id']))
        okpat = vt == ('field', ('elem', loop['id']), 'ident')
    if not okpat:
        rep.bad('DISCR-MATCH', where, 'arm-pattern', 'the discriminant arm pattern is not `Self::<this variant> { .. }` (found `%s`)' % pat_s(p), lf.tmpl.file, lf.tmpl.line)
        return
    body = arm['body']
    from ..tmpl import marker_of_expr
    m = marker_of_expr(body)
    if m is None:
        rep.bad('DISCR-MATCH', where, 'arm-value', 'the discriminant arm value is not the variant\'s discriminant hole (found `%s`)' % es(body)[:80], lf.tmpl.file, lf.tmpl.line)
        return
    vt = lf.tmpl.hole_term(m)
    # expected: Literal::i128_suffixed(zip_elem(loop, call discriminants provider(param ast)))
    provider = None
    zips = [t for t in subterms(vt) if isinstance(t, tuple) and t and t[0] == 'zip_elem' and t[1] == loop['id']]
    if zips:
        src = zips[0][2]
        for t in subterms(src):
            if isinstance(t, tuple) and t and t[0] == 'call' and str(t[1]).startswith('crate::'):
                provider = t
    lit_ok = isinstance(vt, tuple) and vt[0] == 'call' and 'Literal::i128' in str(vt[1]) and zips and vt[2] == zips[0]
    if lit_ok and not str(vt[1]).endswith('Literal::i128_suffixed'):
        # an unsuffixed literal is typed by inference in the user's crate: both operands of the comparison are literals, so they fall
        # back to i32 and every discriminant outside the i32 range wraps silently (no overflowing_literals lint inside an expansion)
        rep.bad('DISCR-MATCH', where, 'arm-value-type',
                'the discriminant literals are emitted with `%s`: without the `i128` suffix the compared values are inferred as i32 and discriminants outside that range wrap' % str(vt[1]).split('::')[-1],
                lf.tmpl.file, lf.tmpl.line)
        return
    if not (lit_ok and provider and provider[2:] == (('param', 'ast'),)):
        rep.bad('DISCR-MATCH', where, 'arm-value-source',
                'the discriminant arm value is not the literal of this variant\'s entry in the declared-discriminant list (term: %s)' % term_s(vt),
                lf.tmpl.file, lf.tmpl.line)
        return
    rep.ok('DISCR-MATCH', '%s|arm-table' % where, {'handler': where, 'arm': lf.tmpl.text(), 'value': term_s(vt)})
    q = provider[1][len('crate::'):]
    for f in [f for f in cx.crate.fns if f.qname == q]:
        check_provider(cx, f, rep)


def value_leaves(e):
    """texts of the values an expression can evaluate to, looking through `?`, blocks, `match`, `if`, `Ok(..)`; `Err(..)` / `return` yield none"""
    if e is None:
        return []
    k = e['k']
    if k in ('Try', 'Paren'):
        return value_leaves(e['expr'])
    if k == 'Block':
        st = e.get('stmts') or []
        if st and st[-1]['k'] == 'Expr' and not st[-1]['semi']:
            return value_leaves(st[-1]['expr'])
        return ['<unit>']
    if k == 'Match':
        out = []
        for a in e['arms']:
            out += value_leaves(a['body'])
        return out
    if k == 'If':
        return value_leaves(e['then']) + (value_leaves(e['else']) if e.get('else') is not None else ['<unit>'])
    if k == 'Call' and e['func']['k'] == 'Path' and e['func']['path']['s'] == 'Ok' and len(e['args']) == 1:
        return value_leaves(e['args'][0])
    if k == 'Call' and e['func']['k'] == 'Path' and e['func']['path']['s'] == 'Err':
        return []
    if k == 'Return':
        return []
    return [es(e).replace(' ', '').strip('()')]


def check_provider(cx, f, rep):
    """DISCR-VALUE: counter idiom in the discriminant provider."""
    where = f.qname
    fw = cx.fw(f)
    tm = cx.gm.terms_of(fw)
    loops = [ev for ev in fw.events if ev.kind == 'for']
    vloops = [ev for ev in loops if es(analyse_iter(ev.entry['iter']).base) == 'data.variants']
    if len(vloops) != 1:
        rep.bad('DISCR-VALUE', where, 'variants-loop', 'expected exactly one loop over data.variants, found %d' % len(vloops), f.file, f.line)
        return
    loop = vloops[0].entry
    info = analyse_iter(loop['iter'])
    if info.rev or info.adaptors:
        rep.bad('DISCR-VALUE', where, 'variants-loop-order', 'variants are not visited in declaration order: `%s`' % es(loop['iter']), f.file, vloops[0].line)
        return
    # the counter: a `let mut c = 0i128` outside the loop, pushed once per iteration, then incremented by one
    pushes = [ev for ev in fw.events if ev.kind == 'mcall' and ev.method == 'push' and any(c is loop for c in ev.ctx)]
    if len(pushes) != 1:
        rep.bad('DISCR-VALUE', where, 'push', 'expected exactly one push of the variant\'s discriminant per iteration, found %d' % len(pushes), f.file, f.line)
        return
    pe = pushes[0]
    # `let value = match counter { Some(v) => v, None => return Err(..) }` before the push leaves a "counter is Some" context
    survived = [c for c in pe.ctx if c['k'] == 'survive' and c['scrut']['k'] == 'Path' and all(pat_s(p_).startswith('Some(') for p_ in c['pats'])]
    # the same as one statement: `match counter { Some(value) => { values.push(value); counter = value.checked_add(1); }, None => return Err(..) }`
    armsome = [c for c in pe.ctx if c['k'] == 'arm' and c['scrut']['k'] == 'Path' and c['narms'] == 2 and not c.get('guard') and pat_s(c['pat']).startswith('Some(')
               and c['pat'].get('k') == 'TupleStruct' and len(c['pat']['elems']) == 1 and c['pat']['elems'][0].get('k') == 'Ident'
               and sorted(pat_s(p_).split('(')[0] for p_ in (c.get('all_pats') or [])) in (['None', 'Some'],)]
    survived = survived + armsome
    extra = [c for c in pe.ctx if c is not loop and not (c['k'] == 'iflet' and 'Data::Enum' in pat_s(c['pat'])) and not any(c is s_ for s_ in survived)]
    if extra:
        rep.bad('DISCR-VALUE', where, 'push-guards', 'the discriminant of a variant is recorded only under extra conditions: %s' % ctx_s(tuple(extra)), f.file, pe.line)
        return
    arg = pe.args[0]
    if arg['k'] != 'Path':
        rep.bad('DISCR-VALUE', where, 'push-value', 'pushed value is not the running counter', f.file, pe.line)
        return
    cd = pe.scope.lookup(arg['path']['s'])
    # the counter is an Option ("the value of the next variant, None after i128::MAX"): `let value = counter.ok_or_else(<error>)?;
    # values.push(value); counter = value.checked_add(1);` with `counter = Some(<explicit>)`.  A variant that would need a value above
    # i128::MAX is refused; a counter that saturates, wraps or panics there gives two variants one value (or refuses a legal enum).
    opt_value = None
    init = cd.init if cd is not None else None
    recv = None
    refusing = False
    if init is not None and init['k'] == 'MethodCall' and init['method'] == 'unwrap_or' and len(init['args']) == 1 and init['recv']['k'] == 'Path':
        recv = init['recv']['path']['s']
    elif init is not None and init['k'] == 'Match' and init['expr']['k'] == 'Path' and len(init['arms']) == 2:
        # (N1) `counter.ok_or_else(|| e)?` == `match counter { Some(v) => v, None => return Err(e) }`
        arms = dict((pat_s(a['pat']).split('(')[0], a) for a in init['arms'])
        sm, nn = arms.get('Some'), arms.get('None')
        if sm is not None and nn is not None and not sm.get('guard') and not nn.get('guard') and sm['pat'].get('k') == 'TupleStruct' \
                and len(sm['pat']['elems']) == 1 and sm['pat']['elems'][0].get('k') == 'Ident' and sm['body']['k'] == 'Path' \
                and sm['body']['path']['s'] == sm['pat']['elems'][0]['name']:
            recv = init['expr']['path']['s']
            nb = nn['body']
            while nb['k'] == 'Block':
                st_ = (nb.get('block') or nb).get('stmts') or []
                if len(st_) != 1 or st_[0]['k'] != 'Expr':
                    break
                nb = st_[0]['expr']
            refusing = nb['k'] == 'Return' and nb.get('expr') is not None and es(nb['expr']).startswith('Err')
    if armsome and arg['path']['s'] == armsome[-1]['pat']['elems'][0]['name'] and cd is not None and not cd.assigns:
        recv = armsome[-1]['scrut']['path']['s']
        mid_ = armsome[-1]['match_id']
        refusing = any(ev.kind == 'exit' and ev.how == 'return' and ev.value is not None and es(ev.value).startswith('Err')
                       and any(c['k'] == 'arm' and c['match_id'] == mid_ and pat_s(c['pat']) == 'None' for c in ev.ctx) for ev in fw.events)
    if cd is not None and recv is not None and any(c is loop for c in cd.ctx) and not cd.assigns:
        if not refusing:
            rep.bad('DISCR-VALUE', where, 'counter-overflow', 'a variant after the value i128::MAX is given `%s` instead of being refused: two variants get one discriminant value' % es(cd.init)[:60], f.file, cd.line)
            return
        if [c for c in survived if c['scrut']['path']['s'] != recv]:
            rep.bad('DISCR-VALUE', where, 'push-guards', 'the discriminant of a variant is recorded only under extra conditions: %s' % ctx_s(tuple(survived)), f.file, pe.line)
            return
        opt_value = cd
        cd = pe.scope.lookup(recv)
        if cd is None or cd.init is None or es(cd.init).replace(' ', '') not in ('Some(0)', 'Some(0i128)'):
            rep.bad('DISCR-VALUE', where, 'counter-init', 'the discriminant counter does not start at 0', f.file, cd.line if cd else f.line)
            return
    elif survived:
        rep.bad('DISCR-VALUE', where, 'push-guards', 'the discriminant of a variant is recorded only under extra conditions: %s' % ctx_s(tuple(survived)), f.file, pe.line)
        return
    elif cd is None or cd.init is None or not (cd.init['k'] == 'Lit' and cd.init['lit'].get('digits') == '0'):
        rep.bad('DISCR-VALUE', where, 'counter-init', 'the discriminant counter does not start at 0', f.file, cd.line if cd else f.line)
        return
    if any(c['k'] == 'for' for c in cd.ctx):
        rep.bad('DISCR-VALUE', where, 'counter-scope', 'the discriminant counter is re-initialised inside the loop', f.file, cd.line)
        return
    # assignments: explicit literal branches (before the push) and the +1 step (after the push)
    incs = []
    explicit = []
    for a in cd.assigns:
        v = a.value
        if opt_value is not None and a.seq < pe.seq:
            if not (v['k'] == 'Call' and v['func']['k'] == 'Path' and v['func']['path']['s'] == 'Some' and len(v['args']) == 1):
                rep.bad('DISCR-VALUE', where, 'explicit-value', 'the optional counter is assigned `%s`, not `Some(<explicit discriminant>)`' % es(v)[:60], f.file, a.line)
                return
            v = v['args'][0]
        txt = es(v)
        if a.seq > pe.seq:
            incs.append((a, txt))
        else:
            explicit.append((a, txt))
    steps = ('%s.saturating_add(1)' % cd.name, '(%s+1)' % cd.name, '%s.wrapping_add(1)' % cd.name, '%s.checked_add(1)' % cd.name) if opt_value is None \
        else ('%s.checked_add(1)' % opt_value.name,)
    if opt_value is None and len(incs) == 1 and incs[0][1].replace(' ', '') in steps:
        rep.bad('DISCR-VALUE', where, 'counter-overflow', 'the counter is advanced by `%s`: after a variant whose value is i128::MAX the next variant repeats that value, wraps or panics instead of being refused' % incs[0][1], f.file, incs[0][0].line)
        return
    inc_ok = len(incs) == 1 and incs[0][1].replace(' ', '') in steps \
        and not [c for c in incs[0][0].ctx if c is not loop and not (c['k'] == 'iflet' and 'Data::Enum' in pat_s(c['pat']))
                 and not any(c is s_ for s_ in survived)]
    if not inc_ok:
        rep.bad('DISCR-VALUE', where, 'counter-step', 'after recording a variant the counter is not advanced by exactly one on every path (%s)' % [t for _, t in incs], f.file, pe.line)
        return
    # every explicit assignment must be under `if let Some((_, exp)) = variant.discriminant` and derive from the literal
    for a, txt in explicit:
        under = [c for c in a.ctx if c['k'] == 'iflet' and c['pol'] and 'discriminant' in es(c['expr'])]
        if not under:
            rep.bad('DISCR-VALUE', where, 'explicit-guard', 'counter assigned `%s` outside the explicit-discriminant branch' % txt, f.file, a.line)
            return
        negated = any(c['k'] == 'arm' and 'Expr::Unary' in pat_s(c['pat']) for c in a.ctx)
        norm = txt.replace(' ', '')
        if negated:
            # every value the expression can yield (through `?`, `match`, `if`, `Ok(..)`; `Err(..)` leaves the function) is the negated
            # parsed magnitude or i128::MIN
            leaves = value_leaves(a.value if opt_value is None else a.value['args'][0])
            ok = bool(leaves) and all(x in ('i128::MIN',) or (x.startswith('-') and len(x) > 1) for x in leaves) \
                and ('base10_parse' in norm or all(c_['k'] != 'arm' or True for c_ in a.ctx))
        else:
            ok = 'base10_parse' in norm
        if not ok:
            rep.bad('DISCR-VALUE', where, 'explicit-value', 'explicit discriminant converted by an unexpected expression `%s`' % txt, f.file, a.line)
            return
    if len(explicit) < 2:
        rep.bad('DISCR-VALUE', where, 'explicit-missing', 'explicit discriminants (positive and negated literals) are not both handled', f.file, f.line)
        return
    # what the callers get is that list itself: every success result is `Ok(<the vector the values were pushed to>)`, and nothing
    # else touches the vector (a re-ordering, ranking or mapping of the values is another function of the variants)
    from ..restable import result_leaves
    from ..terms import strip_refs as _sr
    vr = _sr(pe.recv)
    vname = vr['path']['s'] if vr['k'] == 'Path' else None
    for v_, _ctx, _how, ev_ in result_leaves(cx, f):
        txt_ = es(v_).replace(' ', '')
        if txt_.startswith('Err(') or (v_['k'] == 'Call' and es(v_['func']).split('::')[-1] == 'Err'):
            continue
        if vname is None or txt_ != 'Ok(%s)' % vname:
            rep.bad('DISCR-VALUE', where, 'result', 'the provider returns `%s`, not the list of discriminant values it computed (`Ok(%s)`)' % (es(v_)[:60], vname), f.file, ev_.line if ev_ is not None else f.line)
            return
    vd = pe.scope.lookup(vname) if vname else None
    for ev_ in fw.events:
        if ev_ is pe:
            continue
        if ev_.kind == 'mcall' and _sr(ev_.recv)['k'] == 'Path' and _sr(ev_.recv)['path']['s'] == vname and ev_.scope.lookup(vname) is vd \
                and ev_.method not in ('len', 'is_empty', 'iter', 'capacity', 'reserve'):
            rep.bad('DISCR-VALUE', where, 'result', 'the list of discriminant values is changed after it was computed: `.%s(..)`' % ev_.method, f.file, ev_.line)
            return
    if vd is not None and vd.assigns:
        rep.bad('DISCR-VALUE', where, 'result', 'the list of discriminant values is re-assigned', f.file, vd.assigns[0].line)
        return
    rep.ok('DISCR-VALUE', where, {'provider': where, 'counter': cd.name, 'explicit_assignments': [t for _, t in explicit], 'step': incs[0][1]})


def check_dominance(cx, fn, bs, match_expr, rep, fname):
    """DISCR-DOM: per-variant arms appear only inside the `Equal` arm of the discriminant match."""
    where = fn.qname
    from ..tmpl import marker_of_pat, marker_of_expr
    arms = match_expr['arms']
    found_inner = False
    for a in arms:
        ps = pat_s(a['pat'])
        has_inner = False

        def cb(role, node, extra):
            nonlocal has_inner
            if role == 'expr' and node['k'] == 'Match' and node['expr']['k'] == 'Path' and node['expr']['path']['s'] == 'self':
                has_inner = True
        visit(a['body'], 'expr', cb)
        if has_inner:
            found_inner = True
            if ps != '::core::cmp::Ordering::Equal':
                rep.bad('DISCR-DOM', where, 'arm=%s' % ps, 'per-variant field comparison reachable when the discriminants are not equal', bs.tmpl.file, bs.tmpl.line)
                return
        else:
            # a non-Equal arm must return the discriminant ordering unchanged
            val = es(a['body']).replace(' ', '')
            if ps != '::core::cmp::Ordering::Equal':
                exp = ps if fname == 'cmp' else 'Some(%s)' % ps
                exp2 = '::core::option::Option::Some(%s)' % ps
                if val not in (exp, exp2):
                    rep.bad('DISCR-DOM', where, 'arm=%s' % ps, 'when discriminants compare %s the generated code returns `%s`' % (ps.split('::')[-1], es(a['body'])[:80]),
                            bs.tmpl.file, bs.tmpl.line)
                    return
    pats = sorted(pat_s(a['pat']) for a in arms)
    if pats != ['::core::cmp::Ordering::Equal', '::core::cmp::Ordering::Greater', '::core::cmp::Ordering::Less']:
        rep.bad('DISCR-DOM', where, 'arms', 'discriminant match arms are not exactly Equal/Greater/Less: %s' % pats, bs.tmpl.file, bs.tmpl.line)
        return
    rep.ok('DISCR-DOM', '%s|%s' % (where, 'with-fields' if found_inner else 'all-unit'))


def selftest(rep):
    from .. import syn as S
    ok, ast = S.parse('expr', 'unsafe { ::core::cmp::Ord::cmp(&*<*const _>::from(self).cast::<u8>(), &*(other as *const Self as *const u8)) }')
    hit = {'unsafe': False, 'ptr': False, 'cast': False}

    def cb(role, node, extra):
        if role == 'unsafe':
            hit['unsafe'] = True
        if role == 'type' and node['k'] == 'Ptr':
            hit['ptr'] = True
        if role == 'cast':
            hit['cast'] = True
    if ok:
        visit(ast, 'expr', cb)
    if not all(hit.values()):
        rep.broken.append('DISCR-SAFE self-test fixture did not fire: %r' % hit)
