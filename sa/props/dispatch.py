"""DISP-SHAPE: the per-trait dispatcher (`trait_handlers/<trait>/mod.rs`) hands a struct to the struct generator, an enum to the enum
generator and a union to the union generator (or refuses the shape) — unconditionally.  A generator only looks at the `Data::` variant
it is written for (`if let Data::Enum(data) = &ast.data`), so a value routed to the wrong generator silently gets an impl with an empty
body (`eq` that is always true, `hash` that feeds nothing)."""
from ..syn import es, pat_s, walk_json


def intrinsic_shape(cx, fn):
    fw = cx.fw(fn)
    shapes = set()
    for ev in fw.events:
        if ev.kind == 'branch' and ev.pos['k'] == 'iflet':
            p = ev.pos['pat']
            if p['k'] == 'TupleStruct' and p['path']['s'] in ('Data::Struct', 'Data::Enum', 'Data::Union') and es(ev.pos['expr']).replace('&', '') == 'ast.data':
                shapes.add(p['path']['s'].split('::')[1].lower())
    return shapes


def check_shape_dispatch(cx, rep, needles=None, rule='DISP-SHAPE'):
    n = 0
    for fn in cx.handler_fns():
        if needles is not None and not any(x in fn.qname for x in needles):
            continue
        fw = cx.fw(fn)
        for ev in fw.events:
            if not (ev.kind == 'match' and es(ev.node['expr']).replace('&', '') == 'ast.data'):
                continue
            def calls_handler(body):
                return any(isinstance(x, dict) and x.get('k') == 'Call' and x['func']['k'] == 'Path' and x['func']['path']['segs'][-1]['id'] == 'trait_meta_handler'
                           for x in walk_json(body))
            if not any(calls_handler(a['body']) for a in ev.node['arms']):
                continue        # a `match &ast.data` that only inspects the shape (e.g. "has no variants"), not a dispatcher
            seen = {}
            for arm in ev.node['arms']:
                ps = pat_s(arm['pat'])
                if not any(ps.startswith('Data::' + sh) for sh in ('Struct', 'Enum', 'Union')) and not calls_handler(arm['body']):
                    continue    # a catch-all that refuses
                shape = None
                for sh in ('Struct', 'Enum', 'Union'):
                    if ps.startswith('Data::' + sh):
                        shape = sh.lower()
                inst = '%s arm `%s`' % (fn.qname, ps[:30])
                if shape is None:
                    rep.bad(rule, fn.qname, 'arm=%s' % ps[:30], 'the dispatcher has an arm that is not one of Data::Struct / Data::Enum / Data::Union: which generator a shape gets is not decided by the shape alone', fn.file, arm.get('l'))
                    continue
                n += 1
                if arm.get('guard') is not None:
                    rep.bad(rule, fn.qname, 'guard=%s' % shape, 'the `%s` arm of the dispatcher carries a guard (`if %s`): some %ss are routed elsewhere' % (ps[:30], es(arm['guard'])[:60], shape), fn.file, arm.get('l'))
                    continue
                if shape in seen:
                    rep.bad(rule, fn.qname, 'twice=%s' % shape, 'two dispatcher arms for %ss' % shape, fn.file, arm.get('l'))
                    continue
                seen[shape] = arm
                callees = []
                for x in walk_json(arm['body']):
                    if isinstance(x, dict) and x.get('k') == 'Call' and x['func']['k'] == 'Path' and x['func']['path']['segs'][-1]['id'] == 'trait_meta_handler':
                        callees += [c for c in cx.crate.find_fn(fn.module, [s_['id'] for s_ in x['func']['path']['segs']], fn.self_ty) if c is not fn]
                bad = [c for c in callees if intrinsic_shape(cx, c) and shape not in intrinsic_shape(cx, c)]
                if bad:
                    rep.bad(rule, fn.qname, 'route=%s' % shape,
                            'a %s is handed to `%s`, which only generates code for %s: the impl gets an empty body' % (shape, bad[0].qname, '/'.join(sorted(intrinsic_shape(cx, bad[0])))),
                            fn.file, arm.get('l'))
                else:
                    rep.ok(rule, '%s|%s -> %s' % (fn.qname, shape, ','.join(c.qname.split('::')[-2] for c in callees) or 'refusal / inline'))
            missing = [s for s in ('struct', 'enum', 'union') if s not in seen]
            if missing and not any(pat_s(a['pat']) == '_' for a in ev.node['arms']):
                pass        # rustc's exhaustiveness check covers a missing arm
    return n


def check_output_append(cx, rep, needles=None, rule='OUT-APPEND'):
    """every handler receives the one output stream all educed traits write to (`token_stream: &mut TokenStream`): it may only append
    to it (`extend`) or hand it on to another handler — replacing, clearing or reading it makes one trait's impl depend on, or
    destroy, what the traits dispatched before it have generated"""
    n = 0
    for fn in cx.handler_fns():
        if needles is not None and not any(x in fn.qname for x in needles):
            continue
        outs = [p_[0] for p_ in fn.params() if p_[0] == 'token_stream']
        if not outs:
            continue
        name = outs[0]
        fw = cx.fw(fn)
        bad = None
        for ev in fw.events:
            if ev.kind == 'assign':
                t = ev.target
                while t['k'] in ('Unary', 'Paren'):
                    t = t['expr']
                if t['k'] == 'Path' and t['path']['s'] == name and ev.scope.lookup(name) is not None and ev.scope.lookup(name).kind == 'param':
                    bad = (ev, 'assigned (`%s`)' % es(ev.node)[:50])
            if ev.kind == 'mcall':
                r = ev.recv
                while r['k'] in ('Unary', 'Paren', 'Ref'):
                    r = r['expr']
                if r['k'] == 'Path' and r['path']['s'] == name and ev.scope.lookup(name) is not None and ev.scope.lookup(name).kind == 'param' \
                        and ev.method not in ('extend', 'append_all', 'extend_one'):
                    bad = (ev, 'used with `.%s(..)`' % ev.method)
        n += 1
        if bad:
            rep.bad(rule, fn.qname, 'output', 'the shared output stream `%s` is %s: what other traits have generated is replaced or inspected' % (name, bad[1]), fn.file, bad[0].line)
        else:
            rep.ok(rule, '%s|output stream only appended to / handed on' % fn.qname)
    return n
