"""C10 — Into returns the designated field for every requested target type.

SUM-INTO (generated-code model of the Into struct and enum handlers):
  * exactly one `impl ::core::convert::Into<T>` per entry of the type-level target map, `fn into(self) -> T` for that same T, and
    nothing else is emitted; field-level targets that were not requested at type level are refused;
  * per target the designated (index, field, method) is: the only field (with the method registered *for this target* on it) |
    the field whose own target list contains T (second hit refused) | the unique field whose declared type equals T (second hit ⇒
    none ⇒ refused);
  * body: METHOD(field) iff a method is registered for this target, the field itself iff its type equals T, else
    ::core::convert::Into::into(field); the field is taken by value from `self` (struct: `self.<member>`; enum: the binder of the
    arm's pattern — `index` wildcards, binder, `..` or `{ ident, .. }`), one arm per variant, unit variants refused.
"""
from ..report import Report
from ..syn import es, pat_s, ty_s
from ..terms import match_arms, term_s, subterms, analyse_iter, strip_refs
from ..summ import (Summ, access, call_parts, block_stmts, marker_stmts, marker_of_pat, marker_of_expr, marker_of_type, atoms_after_loop)
from ..facts import Facts, atom_s
from ..genast import is_marker, marker_name
from .search import check_search_loops
from .c09 import member_from_selection, binder_of_selection

INTO = '::core::convert::Into::into'
TO_HASH = 'crate::trait_handlers::into::common::to_hash_type'


def parse_sel3(S, t):
    """ite(len(F)==1, (0, first(F), M1), iflet Some(_) = var { var } else never) -> (F, var, M1)"""
    if not (isinstance(t, tuple) and t[0] == 'ite' and len(t) == 4):
        return None
    cond, a, b = t[1], t[2], t[3]
    if not (isinstance(cond, tuple) and cond[0] == 'bin' and cond[1] == '==' and isinstance(cond[2], tuple) and cond[2][0] == 'mcall' and cond[2][2] == 'len' and str(cond[3][2]) == '1'):
        return None
    F = cond[2][1]
    firsts = (('unwrap', ('mcall', ('mcall', F, 'into_iter'), 'next')), ('unwrap', ('mcall', ('mcall', F, 'iter'), 'next')), ('index', F, ('lit', 'Int', '0')))
    if not (isinstance(a, tuple) and a[0] == 'tuple' and len(a) == 4 and a[1][0] == 'lit' and str(a[1][2]).startswith('0') and a[2] in firsts):
        return None
    if not (isinstance(b, tuple) and b[0] == 'iflet' and b[1].startswith('Some(') and isinstance(b[2], tuple) and b[2][0] == 'var' and b[3] == ('some_of', b[2]) and b[4] == ('never',)):
        return None
    return F, b[2], a[3]


def target_of(S, site):
    """the impl's target hole and the loop over the requested targets"""
    atoms = S.atoms(site)
    loops = [a for a in atoms if a[0] == 'loop']
    for la in loops:
        base = la[2]
        if isinstance(base, tuple) and base[0] == 'field' and base[2] == 'types':
            b = S.facts.builder_call(base[1])
            if b and b[2] and b[2][0] == ('param', 'meta') and str(b[0][1]).endswith('TypeAttributeBuilder'):
                return la
    return None


def check_single_method(S, m1, F, T, attrs_var_ok):
    """method for the only field: attributes of field 0, entry for this target: if let Some(fa) = MAP.get(&0) { if let Some(m) = fa.types.get(&target) { m.as_ref() } else { None } } else { None }"""
    if not (isinstance(m1, tuple) and m1[0] == 'iflet' and m1[4] == ('None',)):
        return False
    get0 = m1[2]
    if not (isinstance(get0, tuple) and get0[0] == 'mcall' and get0[2] == 'get' and get0[3] == ('lit', 'Int', '0') and attrs_var_ok(get0[1])):
        return False
    inner = m1[3]
    if not (isinstance(inner, tuple) and inner[0] == 'iflet' and inner[4] == ('None',)):
        return False
    g = inner[2]
    if not (isinstance(g, tuple) and g[0] == 'mcall' and g[2] == 'get' and g[3] == T and g[1] == ('field', ('some_of', get0), 'types')):
        return False
    return inner[3] == ('some_of', g)




def validate_into_var(S, var, F, T, attrs_var_ok, label, site):
    d = S.tm.def_by_id(var[1])
    if d is None:
        return 'selection variable not found'
    somes = [a for a in d.assigns if a.value['k'] == 'Call' and es(a.value['func']) == 'Some']
    auto = check_search_loops(S, d, var)
    if isinstance(auto, str):
        return auto
    if len(auto) != 2:
        return '%d search loops (expected two: explicit marker, unique same-typed field)' % len(auto)
    if len(somes) != 2:
        return '%d designation assignments (expected two: explicit marker, unique same-typed field)' % len(somes)
    kinds = set()
    for a in somes:
        loops = [c for c in a.ctx if c['k'] == 'for' and c not in d.ctx]
        if len(loops) != 1:
            return 'designation assigned outside a single search loop'
        Lc = loops[0]
        info = analyse_iter(Lc['iter'])
        if not info.enumerate or info.rev or info.adaptors or S.tm.term(info.base, Lc['scope']) != F:
            return 'a search loop is not `for (index, field) in <the same field list>.iter().enumerate()`'
        L = Lc['id']
        pl = a.value['args'][0]
        if pl['k'] != 'Tuple' or len(pl['elems']) != 3:
            return 'the designation is not an (index, field, method) triple'
        terms = [S.tm.term(c, a.scope) for c in pl['elems']]
        if terms[0] != ('idx', L) or terms[1] != ('elem', L):
            return 'the designation is not this iteration\'s (index, field): %s' % [term_s(t, 40) for t in terms[:2]]
        atoms = S.facts.atoms(a.ctx, S.fw)
        marks = [x for x in atoms_after_loop(atoms, L) if not (x[0] == 'some' and x[1] == var and x[2] is False and x in atoms)]
        marks = [x for x in atoms_after_loop(atoms, L)]
        pre = []
        for x in atoms:
            if x[0] in ('loop', 'via') and x[1] == L:
                break
            pre.append(x)
        if terms[2] == ('None',):
            # same-type search: only when no explicit marker was found, and the field's declared type equals the target
            none_first = any(x[0] == 'some' and x[1] == var and x[2] is False for x in pre)
            eqs = [x for x in marks if x[0] == 'eq' and x[3] is True]
            others = [x for x in marks if x not in eqs and not (x[0] == 'some' and x[1] == var)]
            okeq = len(eqs) == 1 and set([eqs[0][1], eqs[0][2]]) == set([T, ('call', TO_HASH, ('field', ('elem', L), 'ty'))])
            if not none_first or not okeq or others:
                return 'the same-type search does not designate exactly "no explicit marker and declared type == target" (guards %s)' % [atom_s(x)[:70] for x in marks]
            kinds.add('same-type')
        else:
            # explicit marker: this field's attributes (by index) list the target
            g1 = [x for x in marks if x[0] == 'some' and x[2] is True and isinstance(x[1], tuple) and x[1][0] == 'mcall' and x[1][2] == 'get'
                  and x[1][3] == ('idx', L) and attrs_var_ok(x[1][1])]
            if len(g1) != 1:
                return 'the explicit-marker search does not read the attributes of this very field'
            fa = ('some_of', g1[0][1])
            g2 = [x for x in marks if x[0] == 'some' and x[2] is True and isinstance(x[1], tuple) and x[1][0] == 'mcall' and x[1][2] in ('get_key_value', 'get')
                  and x[1][1] == ('field', fa, 'types') and x[1][3] == T]
            others = [x for x in marks if x not in g1 and x not in g2 and not (x[0] == 'some' and x[1] == var)]
            if len(g2) != 1 or others:
                return 'the explicit marker is not "this field\'s own target list contains this target" (guards %s)' % [atom_s(x)[:70] for x in marks]
            # method = the method registered for this target on this field
            mt = terms[2]
            g2t = g2[0][1]
            as_get = ('mcall', g2t[1], 'get', g2t[3])
            okm = mt in (('proj', 1, ('some_of', g2t)), ('some_of', g2t), ('some_of', as_get))
            if not okm:
                return 'the method recorded with the designation is not the one registered for this target on this field (%s)' % term_s(mt, 80)
            kinds.add('marked')
    if kinds != {'marked', 'same-type'}:
        return 'explicit-marker and same-type searches are not both present'
    return True


def attrs_map_ok(S, varterm, F):
    """`field_attributes`: a map index -> attributes of that field, filled for every field of F"""
    t = varterm
    if not (isinstance(t, tuple) and t[0] == 'var'):
        # enum: element of the per-variant vector (zip): accept zip_elem of a var whose pushes are such maps
        if isinstance(t, tuple) and t[0] == 'zip_elem' and isinstance(t[2], tuple) and t[2][0] == 'var':
            ps = S.tm.pushes().get(t[2][1], [])
            return len(ps) == 1 and attrs_map_ok(S, S.tm.term(ps[0][3], ps[0][0].scope), None)
        return False
    ps = S.tm.pushes().get(t[1], [])
    if len(ps) != 1 or ps[0][1] != 'insert':
        return False
    ev, kind, key, val = ps[0]
    kt = S.tm.term(key, ev.scope)
    vt = S.tm.term(val, ev.scope)
    if not (isinstance(kt, tuple) and kt[0] == 'idx'):
        return False
    L = kt[1]
    b = S.facts.builder_call(vt)
    if not b or not b[2] or b[2][0] != ('field', ('elem', L), 'attrs'):
        return False
    atoms = S.facts.atoms(ev.ctx, S.fw)
    extra = [x for x in atoms_after_loop(atoms, L) if x[0] != 'haskey']
    return not extra


def header(S):
    impls = S.impl_of('::core::convert::Into')
    if len(impls) != 1:
        S.bad('SUM-INTO', 'impl', 'expected exactly one `impl ::core::convert::Into<..>` emission site, found %d' % len(impls))
        return None
    site, impl = impls[0]
    if len(S.impls()) != 1:
        S.bad('SUM-INTO', 'other-impls', 'the handler emits other impls besides Into', site)
        return None
    la = target_of(S, site)
    if la is None or not S.loop_in_decl_order(la):
        S.bad('SUM-INTO', 'per-target', 'the impl is not emitted once per requested target type (loop over the type-level target map)', site)
        return None
    T = ('proj', 0, ('elem', la[1]))
    seg = impl['trait']['path']['segs'][-1]
    args = seg.get('args', [])
    okT = len(args) == 1 and args[0]['k'] == 'Type' and marker_of_type(args[0]['ty']) and S.hole_term(site, marker_of_type(args[0]['ty'])) == T
    fns = S.fns_of(impl)
    okF = False
    if len(fns) == 1 and len(impl['items']) == 1 and fns[0]['sig']['name'] == 'into':
        ins = fns[0]['sig']['inputs']
        out = fns[0]['sig']['output']
        okF = len(ins) == 1 and ins[0]['k'] == 'Self' and not ins[0]['ref'] and out is not None and marker_of_type(out) and S.hole_term(site, marker_of_type(out)) == T
    if not okT or not okF:
        S.bad('SUM-INTO', 'signature', 'the impl is not `Into<T> { fn into(self) -> T }` for the target being visited', site)
        return None
    return site, impl, fns[0], la, T


def body_forms(S, sites, T, sel_of, operand_ok, label):
    """three bodies: METHOD(x) | x | Into::into(x)"""
    ok = True
    seen = set()
    sel_terms = set()
    for b in sites:
        e = b.ast if b.cat == 'expr' else (b.ast[0]['expr'] if b.cat == 'stmts' and len(b.ast) == 1 and b.ast[0]['k'] == 'Expr' and not b.ast[0]['semi'] else None)
        if e is None:
            S.bad('SUM-INTO', label + '-form', 'unexpected body form', b)
            ok = False
            continue
        cp = call_parts(e)
        if cp is not None and len(cp[2]) == 1:
            kind = 'method' if cp[0] == 'hole' else ('into' if cp[1] == INTO else None)
            operand = cp[2][0]
        else:
            kind = 'same'
            operand = e
        if kind is None:
            S.bad('SUM-INTO', label + '-callee', 'the field is passed to `%s` (expected the registered method or ::core::convert::Into::into)' % cp[1], b)
            ok = False
            continue
        sel = operand_ok(b, operand)
        if not isinstance(sel, tuple):
            S.bad('SUM-INTO', label + '-operand', 'the converted value is not the designated field taken from self: %s' % sel, b)
            ok = False
            continue
        sel_terms.add(sel)
        atoms = S.atoms(b)
        mterm = ('proj', 2, sel)
        m_at = [x[2] for x in atoms if x[0] == 'some' and x[1] == mterm]
        eqs = [x for x in atoms if x[0] == 'eq']
        fty = ('call', TO_HASH, ('field', ('proj', 1, sel), 'ty'))
        if kind == 'method':
            if m_at != [True] or eqs or S.hole_term(b, cp[1]) != ('some_of', mterm):
                S.bad('SUM-INTO', label + '-method', 'METHOD(field) is not used exactly when a method is registered for this target on the designated field', b)
                ok = False
        else:
            okeq = len(eqs) == 1 and set([eqs[0][1], eqs[0][2]]) == set([T, fty])
            if m_at != [False] or not okeq:
                S.bad('SUM-INTO', label + '-' + kind, 'the body choice is not driven by "no method" and "declared type == target" of the designated field (guards %s)' % [atom_s(x)[:60] for x in atoms[-3:]], b)
                ok = False
            elif eqs[0][3] != (kind == 'same'):
                S.bad('SUM-INTO', label + '-' + kind, 'the field is %s although its type %s the target' % ('returned unchanged' if kind == 'same' else 'converted', 'differs from' if kind == 'same' else 'equals'), b)
                ok = False
        seen.add(kind)
    if seen != {'method', 'same', 'into'}:
        S.bad('SUM-INTO', label + '-cases', 'method / same-type / convert cases are not all present (%s)' % sorted(seen))
        ok = False
    return ok, sel_terms


def check_struct(cx, fn, rep, facts):
    S = Summ(cx, fn, rep, facts)
    h = header(S)
    if h is None:
        return
    site, impl, f, la, T = h
    st = f['block']['stmts']
    ms = marker_stmts(st)
    if len(ms) != 1 or len(st) != 1:
        S.bad('SUM-INTO', 'body', 'the body of into is not one composed expression', site)
        return
    sites = S.kids(site, ms[0][1])
    F = ('field', ('payload', 'Data::Struct', 0, ('field', ('param', 'ast'), 'data')), 'fields')

    def operand_ok(b, e):
        a = access(e)
        if a is None or a[0] != 'member' or a[1] != 'self' or a[3] != 0:
            return '`%s` is not `self.<member>` by value' % es(e)[:40]
        sel = member_from_selection(S, S.hole_term(b, a[2]))
        if sel is None:
            return 'the member is not built from the designated (index, field)'
        return sel
    ok, sels = body_forms(S, sites, T, None, operand_ok, 'struct')
    ok = check_selection(S, sels, F, T, 'struct', site) and ok
    ok = check_no_into_impl(S) and ok
    if ok:
        S.ok('SUM-INTO', 'struct', {'handler': fn.qname, 'bodies': [s.tmpl.text() for s in sites]})


def check_selection(S, sels, F, T, label, site):
    if len(sels) != 1:
        S.bad('SUM-INTO', label + '-one-selection', 'the bodies do not all use one designation', site)
        return False
    sel = list(sels)[0]
    p = parse_sel3(S, sel)
    if p is None or p[0] != F:
        S.bad('SUM-INTO', label + '-selection', 'the designated field is not "the only field, else the marked one, else the unique same-typed one" over this field list', site)
        return False
    Fl, var, m1 = p

    def attrs_var_ok(t):
        return attrs_map_ok(S, t, Fl)
    if not check_single_method(S, m1, Fl, T, attrs_var_ok):
        S.bad('SUM-INTO', label + '-single-method', 'for a single-field value the method is not the one registered for this target on that field', site)
        return False
    r = validate_into_var(S, var, Fl, T, attrs_var_ok, label, site)
    if r is not True:
        S.bad('SUM-INTO', label + '-search', r, site)
        return False
    S.ok('SUM-INTO', label + '-selection')
    return True


def check_no_into_impl(S):
    ok = False
    for ev in S.fw.events:
        if ev.kind == 'exit' and ev.how == 'return' and ev.value is not None and 'no_into_impl' in es(ev.value):
            at = S.facts.atoms(ev.ctx, S.fw)
            if any(a[0] == 'haskey' and a[3] is False and isinstance(a[1], tuple) and a[1][0] == 'field' and a[1][2] == 'types' for a in at):
                ok = True
    if ok:
        S.ok('SUM-INTO', 'unrequested-target-refused')
    else:
        S.bad('SUM-INTO', 'unrequested-target', 'a field-level Into target that was not requested at type level is not refused')
    return ok


def check_enum(cx, fn, rep, facts):
    S = Summ(cx, fn, rep, facts)
    h = header(S)
    if h is None:
        return
    site, impl, f, la, T = h
    st = f['block']['stmts']
    e = st[0]['expr'] if len(st) == 1 and st[0]['k'] == 'Expr' and not st[0]['semi'] else None
    if e is None or e['k'] != 'Match' or es(e['expr']) != 'self' or len(e['arms']) != 1 or marker_of_pat(e['arms'][0]['pat']) is None:
        S.bad('SUM-INTO', 'enum-body', 'the body is not `match self { #arms }`', site)
        return
    arm_sites = S.kids(site, marker_of_pat(e['arms'][0]['pat']))
    ok = True
    seen = set()
    for a in arm_sites:
        atoms = S.atoms(a)
        vl = S.variant_loop(atoms)
        arms = a.ast if a.cat == 'arms' else None
        if vl is None or not S.loop_in_decl_order(vl) or not arms or len(arms) != 1 or arms[0].get('guard') is not None:
            S.bad('SUM-INTO', 'enum-arm', 'an arm is not emitted once per variant in declaration order', a)
            ok = False
            continue
        V = vl[1]
        arm = arms[0]
        p = arm['pat']
        path = p.get('path')
        if path is None or len(path['segs']) != 2 or path['segs'][0]['id'] != 'Self' or not is_marker(path['segs'][1]['id']) \
                or S.hole_term(a, marker_name(path['segs'][1]['id'])) != ('field', ('elem', V), 'ident'):
            S.bad('SUM-INTO', 'enum-arm-variant', 'the arm pattern does not name this variant', a)
            ok = False
            continue
        bm = marker_of_expr(arm['body'])
        if bm is None:
            S.bad('SUM-INTO', 'enum-arm-body', 'the arm value is not the composed conversion', a)
            ok = False
            continue
        F = ('field', ('elem', V), 'fields')
        binders = set()

        def operand_ok(b, ex):
            acc = access(ex)
            if acc is None or acc[0] != 'var' or acc[2] != 0:
                return '`%s` is not the pattern binder by value' % es(ex)[:40]
            bt = S.hole_term(b, acc[1])
            si = binder_of_selection_into(S, bt)
            if si is None:
                return 'the binder is not derived from the designated (index, field)'
            binders.add(bt)
            return si[0]
        bodies = S.kids(a, bm)
        r, sels = body_forms(S, bodies, T, None, operand_ok, 'enum-arm')
        ok = ok and r
        if not sels:
            continue
        ok = check_selection(S, sels, F, T, 'enum', a) and ok
        sel = list(sels)[0]
        if len(binders) != 1:
            S.bad('SUM-INTO', 'enum-binder', 'bodies use different binders', a)
            ok = False
            continue
        bt = list(binders)[0]
        si = binder_of_selection_into(S, bt)
        is_tuple_term = si[3]
        if si[2] == 'flag':
            tup = [x[2] for x in atoms if x[0] == 'truth' and x[1] == is_tuple_term]
        else:
            # the second component is Some(<the field's own name>) for a named field
            tup = [not x[2] for x in atoms if x[0] == 'some' and x[1] == is_tuple_term]
        if len(tup) != 1:
            S.bad('SUM-INTO', 'enum-arm-guard', 'the arm form is not selected by the tuple/named flag of the designated field', a)
            ok = False
            continue
        if not any(x[0] == 'shape' and x[2] == 'Unit' and x[3] is False for x in atoms):
            S.bad('SUM-INTO', 'enum-unit-refusal', 'arms are emitted without unit variants having been refused', a)
            ok = False
        seen.add(tup[0])
        if tup[0]:
            okp = p['k'] == 'TupleStruct' and len(p['elems']) == 1 and marker_of_pat(p['elems'][0])
            kids = S.kids(a, marker_of_pat(p['elems'][0])) if okp else []
            wild = [k for k in kids if k.ast is not None and k.cat == 'patelems' and len(k.ast) == 1 and k.ast[0]['k'] == 'Wild']
            bind = [k for k in kids if k not in wild]
            okw = False
            if len(wild) == 1:
                for c in S.eff_ctx(wild[0].ctx):
                    if c['k'] == 'for' and c['iter']['k'] == 'Range' and not c['iter']['closed'] and es(c['iter'].get('from')) == '0' and c['iter'].get('to') is not None:
                        if S.tm.term(c['iter']['to'], c['scope']) == ('proj', 0, sel):
                            okw = True
            okb = len(bind) == 1 and bind[0].ast is not None and bind[0].cat == 'patelems' and len(bind[0].ast) == 2 and bind[0].ast[1]['k'] == 'Rest' and marker_of_pat(bind[0].ast[0]) \
                and S.hole_term(bind[0], marker_of_pat(bind[0].ast[0])) == bt and not bind[0].ast[0]['by_ref'] and kids and kids[-1] is bind[0]
            if not (okp and okw and okb):
                S.bad('SUM-INTO', 'enum-tuple-pattern', 'the tuple pattern is not `index` wildcards, the binder, `..` for the designated field', a)
                ok = False
        else:
            okp = p['k'] == 'Struct' and len(p['fields']) == 1 and p['fields'][0]['shorthand'] and marker_of_pat(p['fields'][0]['pat']) and not p['rest']
            kids = S.kids(a, marker_of_pat(p['fields'][0]['pat'])) if okp else []
            okb = len(kids) == 1 and kids[0].ast is not None and kids[0].cat == 'fieldpats' and len(kids[0].ast['fields']) == 1 and kids[0].ast['rest'] \
                and marker_of_pat(kids[0].ast['fields'][0]['pat']) and S.hole_term(kids[0], marker_of_pat(kids[0].ast['fields'][0]['pat'])) == bt \
                and not kids[0].ast['fields'][0]['pat'].get('by_ref')
            if okb and si[2] == 'flag':
                # `{ <field name>, .. }`: the binder is the field's own name
                okb = kids[0].ast['fields'][0]['shorthand']
            elif okb:
                # `{ <field name>: <binder>, .. }`
                fp = kids[0].ast['fields'][0]
                okb = not fp['shorthand'] and is_marker(str(fp.get('member'))) \
                    and S.hole_term(kids[0], marker_name(fp['member'])) == ('some_of', is_tuple_term)
            if not (okp and okb):
                S.bad('SUM-INTO', 'enum-named-pattern', 'the named pattern is not `{ <designated field name>, .. }`', a)
                ok = False
    if seen != {True, False}:
        S.bad('SUM-INTO', 'enum-cases', 'tuple and named variants are not both handled', site)
        ok = False
    ok = check_no_into_impl(S) and ok
    if ok:
        S.ok('SUM-INTO', 'enum', {'handler': fn.qname})


def binder_of_selection_into(S, bt):
    """like c09.binder_of_selection but the selection is a triple"""
    if isinstance(bt, tuple) and match_arms(bt) is not None:
        # form 'plain': the binder is computed where it is used, `match field.ident { Some(i) => format_ident!(<fmt>, i), None => _<index> }`;
        # the tuple/named distinction is the Option itself
        scrut, m_arms = match_arms(bt)
        if isinstance(scrut, tuple) and scrut[0] == 'field' and scrut[2] == 'ident' and isinstance(scrut[1], tuple) and scrut[1][0] == 'proj' and scrut[1][1] == 1:
            sel = scrut[1][2]
            arms = dict((p, v) for p, v in m_arms)
            some = [v for p, v in arms.items() if p.startswith('Some(')]
            none = [v for p, v in arms.items() if p == 'None']
            if parse_sel3(S, sel) is not None and len(some) == 1 and len(none) == 1 and none[0] == ('format_ident', '_{}', ('proj', 0, sel)) \
                    and isinstance(some[0], tuple) and some[0][0] == 'format_ident' and len(some[0]) == 3 and isinstance(some[0][1], str) \
                    and some[0][1].count('{}') == 1 and some[0][2] == ('some_of', scrut):
                return sel, bt, 'plain', scrut
        return None
    if not (isinstance(bt, tuple) and bt[0] == 'proj' and bt[1] == 0 and match_arms(bt[2]) is not None):
        return None
    m = bt[2]
    scrut, m_arms = match_arms(m)
    if not (isinstance(scrut, tuple) and scrut[0] == 'field' and scrut[2] == 'ident' and isinstance(scrut[1], tuple) and scrut[1][0] == 'proj' and scrut[1][1] == 1):
        return None
    sel = scrut[1][2]
    if parse_sel3(S, sel) is None:
        return None
    arms = dict((p, v) for p, v in m_arms)
    some = [v for p, v in arms.items() if p.startswith('Some(')]
    none = [v for p, v in arms.items() if p == 'None']
    if len(some) != 1 or len(none) != 1:
        return None
    a, b = some[0], none[0]
    if not (isinstance(a, tuple) and a[0] == 'tuple' and len(a) == 3 and isinstance(b, tuple) and b[0] == 'tuple' and len(b) == 3):
        return None
    if b[1] != ('format_ident', '_{}', ('proj', 0, sel)):
        return None
    # form 'flag': (the field's own name | _<index>, is_tuple)
    if a[1] == ('some_of', scrut) and a[2] == ('lit', 'Bool', False) and b[2] == ('lit', 'Bool', True):
        return sel, m, 'flag', ('proj', 1, m)
    # form 'real': (a name derived from the field's name | _<index>, Some(the field's own name) | None)
    if isinstance(a[1], tuple) and a[1][0] == 'format_ident' and len(a[1]) == 3 and isinstance(a[1][1], str) and a[1][1].count('{}') == 1 \
            and a[1][2] == ('some_of', scrut) and a[2] == ('Some', ('some_of', scrut)) and (b[2] == scrut or b[2] in (('path', 'None'), ('None',))):
        return sel, m, 'real', ('proj', 1, m)
    return None


def check_keys_normalised(cx, rep):
    """every key stored in a target map (`types.insert(key, ..)`) of the Into attribute builders is the normalised type key
    `to_hash_type(<the written type>)`: the type-level builder and the field-level builder must agree, or a field marker never
    matches the target it names (`&str` vs `&'static str`)"""
    n = 0
    for f in cx.crate.fns:
        if f.module.path[:3] != ('trait_handlers', 'into', 'models') and tuple(f.module.path[:3]) != ('trait_handlers', 'into', 'models'):
            continue
        fw = cx.fw(f)
        tm = cx.gm.terms_of(fw)
        for ev in fw.events:
            if ev.kind == 'mcall' and ev.method == 'insert' and len(ev.args) == 2:
                r = strip_refs(ev.recv)
                if r['k'] != 'Path' or r['path']['s'] != 'types':
                    continue
                kt = tm.term(ev.args[0], ev.scope)
                n += 1
                from ..terms import subterms as _sub
                inner_calls = [x_[1] for x_ in _sub(kt[2]) if isinstance(x_, tuple) and x_ and x_[0] == 'call' and str(x_[1]).startswith('crate::')] \
                    if isinstance(kt, tuple) and len(kt) > 2 else []
                if isinstance(kt, tuple) and kt[0] == 'call' and kt[1] == TO_HASH and inner_calls:
                    rep.bad('SUM-INTO', f.qname, 'target-key', 'a target type is rewritten (`%s`) before it is keyed: the other builder and the handlers key the declared field types as written, so a target '
                            'that the rewriting changes (a `$t:ty` fragment, a parenthesised type) no longer matches its own fields and markers' % str(inner_calls[0]).split('::')[-1],
                            f.file, ev.line)
                elif isinstance(kt, tuple) and kt[0] == 'call' and kt[1] == TO_HASH:
                    rep.ok('SUM-INTO', '%s|key of types.insert is to_hash_type(..)' % f.qname)
                else:
                    rep.bad('SUM-INTO', f.qname, 'target-key', 'a target type is stored under a key that is not `to_hash_type(<type>)` (%s): keys of the type-level and field-level builders no longer agree for reference types' % term_s(kt, 80),
                            f.file, ev.line)
    if n < 2:
        rep.broken.append('fewer than 2 `types.insert(..)` sites found in the Into attribute builders (%d)' % n)


def check_hash_type(cx, rep):
    """target types are keyed by their token string; `&T` fields compare as `&'static T` (to_hash_type)"""
    fs = [f for f in cx.crate.fns if f.qname.endswith('into::common::to_hash_type')]
    if len(fs) != 1:
        rep.broken.append('into::common::to_hash_type not found')
        return
    f = fs[0]
    fw = cx.fw(f)
    tm = cx.gm.terms_of(fw)
    t = tm.block_value_term(f.block, 0)
    # The type key of a target / field type is the type exactly as written, except that a reference without a lifetime gets `'static`
    # (elided lifetimes are not allowed in an impl header).  Decided on the result leaves: every leaf is `HashType::from(X)`;
    # X is the argument itself, except under "ty is a reference and has no lifetime", where X is a clone of that reference whose only
    # change is `lifetime = Some('static)`.  Nothing is stripped (no dereference helpers): `&'a mut T`, `&&T` stay what they are.
    from ..restable import result_leaves
    why = 'the type key is no longer "the type as written; a reference without a lifetime is `&\'static`"'
    pn0 = [p_[0] for p_ in f.params()][:1]
    leaves = result_leaves(cx, f)
    ok = bool(leaves) and bool(pn0)
    seen_cases = set()
    struct_update = False
    for v, ctx, how, ev in leaves:
        if not (v['k'] == 'Call' and es(v['func']).endswith('HashType::from') and len(v['args']) == 1):
            ok = False
            continue
        x = v['args'][0]
        xs = es(x).replace(' ', '').lstrip('&')
        conds = []
        for c_ in ctx:
            if c_['k'] == 'iflet':
                conds.append((pat_s(c_['pat']).split('(')[0], es(c_['expr']).replace(' ', '').lstrip('&'), c_['pol']))
            elif c_['k'] == 'if':
                conds.append(('if', es(c_['cond']).replace(' ', ''), c_['pol']))
        for c_ in ctx:
            # `match ty { Type::Reference(r) if r.lifetime.is_none() => .., _ => .. }`
            if c_['k'] == 'arm' and es(c_['scrut']).replace(' ', '').lstrip('&') == pn0[0]:
                conds.append((pat_s(c_['pat']).split('(')[0], pn0[0], True))
                if c_.get('guard') is not None:
                    conds.append(('if', es(c_['guard']).replace(' ', ''), True))
        is_ref = any(c_[0] in ('Type::Reference', 'syn::Type::Reference') and c_[1] == pn0[0] and c_[2] for c_ in conds)
        no_lt = any(c_[0] == 'if' and c_[1].endswith('.lifetime.is_none()') and c_[2] for c_ in conds)
        if is_ref and no_lt:
            if not xs.startswith('Type::Reference('):
                ok = False
            elif x['k'] == 'Call' and len(x['args']) == 1 and x['args'][0]['k'] == 'Struct':
                # `TypeReference { lifetime: Some(<'static>), ..reference.clone() }`: everything but the lifetime is the written reference
                lit_ = x['args'][0]
                fl_ = dict((f_['member'], f_['expr']) for f_ in lit_['fields'])
                lt_ = tm.term(fl_['lifetime'], ev.scope) if set(fl_) == {'lifetime'} else None
                from ..terms import term_s as _ts
                if lit_['path']['s'].split('::')[-1] != 'TypeReference' or lt_ is None or 'Lifetime::new' not in _ts(lt_, 400) or "'static" not in _ts(lt_, 400) \
                        or not (isinstance(lt_, tuple) and lt_[0] == 'Some') or lit_.get('rest') is None or not es(lit_['rest']).replace(' ', '').endswith('.clone()'):
                    ok = False
                struct_update = True
            seen_cases.add('static')
        else:
            if xs not in (pn0[0], pn0[0] + '.clone()'):
                ok = False
            seen_cases.add('as-written')
    assigns = [ev for ev in fw.events if ev.kind == 'assign']
    if struct_update and not assigns:
        pass
    elif len(assigns) != 1 or not es(assigns[0].target).replace(' ', '').endswith('.lifetime') \
            or not es(assigns[0].value).replace(' ', '').startswith('Some(Lifetime::new("\'static"'):
        ok = False
    if any(ev.kind == 'call' and ev.path and ev.path.split('::')[-1] in ('dereference', 'dereference_changed') for ev in fw.events):
        ok = False
        why = 'reference layers / `mut` of a target type are stripped before it is keyed and emitted: `Into(&\'a mut u8)` yields `impl Into<&\'a u8>`, `Into(&&str)` yields `impl Into<&\'static str>`'
    if any(ev.kind == 'macro' and 'tmpl' in ev.mac for ev in fw.events):
        ok = False
    if seen_cases != {'static', 'as-written'}:
        ok = False
    if ok:
        rep.ok('SUM-INTO', f.qname + '|normalised type key', {'helper': f.qname})
    else:
        rep.bad('SUM-INTO', f.qname, 'to_hash_type', why, f.file, f.line)
    # HashType equality / ordering by the string only
    for name in ('eq', 'cmp', 'hash'):
        g = [x for x in cx.crate.fns if x.self_ty == 'HashType' and x.name == name]
        if not g:
            rep.bad('SUM-INTO', 'common::tools::hash_type::HashType', name, 'HashType::%s not found' % name, 'src/common/tools/hash_type.rs', 1)
            continue
        from .helpers import fn_term, P, string_field_of
        K = string_field_of(cx, g[0])
        fw_ = cx.fw(g[0])
        tm_ = cx.gm.terms_of(fw_)
        pn = [p_[0] for p_ in g[0].params()]
        good = False

        def view(t_, depth=0):
            """the term with string views (`.as_str()`, `&`, a private accessor `fn key(&self) -> &str { self.0.as_str() }`) removed"""
            while isinstance(t_, tuple) and t_ and depth < 6:
                depth += 1
                if t_[0] in ('ref', 'deref') and len(t_) == 2:
                    t_ = t_[1]
                elif t_[0] == 'mcall' and len(t_) == 3 and t_[2] in ('as_str', 'as_ref', 'deref', 'borrow', 'as_bytes'):
                    t_ = t_[1]
                elif t_[0] == 'mcall' and len(t_) == 3:
                    acc = [x for x in cx.crate.fns if x.self_ty == 'HashType' and x.name == t_[2] and len(x.params()) == 1]
                    if len(acc) != 1:
                        break
                    from ..terms import subst_term as _sub
                    bt = fn_term(cx, acc[0])
                    if bt is None:
                        break
                    t_ = _sub(bt, P(0), t_[1])
                else:
                    break
            return t_
        if K is not None and name in ('eq', 'cmp'):
            t = fn_term(cx, g[0])
            if isinstance(t, tuple) and t and t[0] == 'mcall' and len(t) == 4:
                t = ('mcall', view(t[1]), t[2], view(t[3]))
            elif isinstance(t, tuple) and t and t[0] == 'call' and len(t) == 4:
                t = ('call', t[1], view(t[2]), view(t[3]))
            elif isinstance(t, tuple) and t and t[0] == 'bin' and len(t) == 4:
                t = ('bin', t[1], view(t[2]), view(t[3]))
            good = t in (('mcall', ('field', P(0), K), name, ('field', P(1), K)), ('call', {'eq': 'PartialEq::eq', 'cmp': 'Ord::cmp'}[name], ('field', P(0), K), ('field', P(1), K)),
                         ('bin', '==', ('field', P(0), K), ('field', P(1), K)) if name == 'eq' else None)
        elif K is not None:
            feeds = [ev for ev in fw_.events if (ev.kind == 'call' and ev.path and ev.path.split('::')[-1] == 'hash') or (ev.kind == 'mcall' and ev.method == 'hash')]
            if len(feeds) == 1 and not feeds[0].ctx and len(pn) == 2:
                ev = feeds[0]
                from ..terms import subst_term as _sub2

                def numbered(x):
                    for i_, n_ in enumerate(pn):
                        x = _sub2(x, ('param', n_), P(i_))
                    return x
                if ev.kind == 'call':
                    args_ = [numbered(tm_.term(a, ev.scope)) for a in ev.args]
                    good = len(args_) == 2 and view(args_[0]) == ('field', P(0), K) and args_[1] == P(1)
                else:
                    good = view(numbered(tm_.term(ev.recv, ev.scope))) == ('field', P(0), K) and [numbered(tm_.term(a, ev.scope)) for a in ev.args] == [P(1)]
        if good:
            rep.ok('SUM-INTO', g[0].qname + '|by token string')
        else:
            rep.bad('SUM-INTO', g[0].qname, name, 'HashType::%s is not defined by the token string alone' % name, g[0].file, g[0].line)


def run(cx, tier='quick'):
    rep = Report('C10')
    rep.explanation.append(
        'SUM-INTO: semantic summary of the generated Into impls: one impl per type-level target (and only those), '
        '`fn into(self) -> T`; designated (index, field, method) = only field | field whose own target list has T | unique field of '
        'declared type T, validated on the search code; body METHOD(field) / field / Into::into(field) driven by exactly those '
        'conditions; enum arms bind the designated field by position or name; unrequested field-level targets refused; type keys are '
        'token strings (HashType).')
    facts = Facts(cx)
    n = 0
    for t, sh, fn in cx.shape_handlers():
        if t == 'Into' and sh in ('struct', 'enum'):
            n += 1
            (check_struct if sh == 'struct' else check_enum)(cx, fn, rep, facts)
    if n != 2:
        rep.broken.append('expected the Into struct and enum handlers, found %d' % n)
    check_hash_type(cx, rep)
    from .c13_sel import check_selections, check_dup
    sub = Report('C10')
    check_selections(cx, facts, sub)
    check_dup(cx, facts, sub)
    for fnd in sub.findings:
        if '::into::' in fnd.where:
            rep.findings.append(fnd)
    k = 0
    for r, i, v in sub.checked:
        if '::into::' in i:
            rep.checked.append((r, i, v))
            k += 1
    rep.counts['SEL+DUP'] = k
    from .c13 import include_own_scanners
    include_own_scanners(cx, facts, rep, ['::into::'])
    from .helpers import check_hash_type_tokens, check_type_with_meta, check_ident_or_index
    check_hash_type_tokens(cx, rep)
    check_keys_normalised(cx, rep)
    check_type_with_meta(cx, rep, 'SUM-INTO')
    check_ident_or_index(cx, rep)
    from .scope import check_scopes
    check_scopes(cx, rep, ['::into::'])
    rep.floor('SUM-INTO', 8)
    rep.floor('SEL+DUP', 4)
    rep.assumptions += ['type equality is educe\'s documented notion: equality of token strings']
    rep.not_decided += ['type equality beyond token-string equality']
    from .binders import check_binder_injectivity
    check_binder_injectivity(cx, rep, ['::into::'])
    from .c13 import include_own_parsers as _iop
    from ..facts import Facts as _Fp
    _iop(cx, _Fp(cx), rep, ['::into::'])
    # the impl headers of this trait's own templates (generics, where-clause, ::core trait path): HDR
    from .c12 import check_headers as _chk_hdr
    _chk_hdr(cx, rep, ['::into::'])
    from .own import include_generic_rules as _igr
    _igr(cx, rep, ['::into::'])
    return rep
