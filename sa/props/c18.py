"""C18 — every subset of trait features builds and behaves like the full build.

  FM        rustc's own verdict (type check, `-D warnings`) on educe's source under feature subsets: quick = ∅, the 12 singletons,
            66 pairs, 12 co-singletons, all (92); thorough = all 4096. ∅ must be refused with the explicit message.
  CFG-REF   for every crate-local reference (use declarations, paths in bodies, mod declarations): gate(use) ⇒ gate(definition) under
            all assignments of the feature variables (truth table) — explains and localises what FM observes.
  CFG-SAME  every #[cfg] inside a handler is one of the two partner idioms (`let c = traits.contains(&Trait::Y)` with a `cfg(not)`
            twin `let c = false`, or a cfg-gated `if traits.contains(&Trait::Y) {..}` statement / synonym branch), so that "Y disabled"
            behaves exactly like "Y enabled but not educed".
  CFG-GATES per trait: enum variant, from_path arm, handler module and dispatch block are gated by the same single feature; the
            compile_error! gate lists exactly the trait features of Cargo.toml.
"""
import os, re, subprocess, tempfile, shutil, itertools, json, time, shlex
from concurrent.futures import ThreadPoolExecutor
from ..report import Report
from ..syn import es, pat_s, walk_json
from ..model import FEATURES, cfgs_of_attrs, cfg_eval, cfg_and, cfg_s, cfg_feats
from ..facts import Facts
from ..cx import TRAIT_DIRS
from ..terms import strip_refs


def cargo_features(cx):
    txt = cx.crate.dump.get('cargo_toml', '')
    feats = {}
    insec = False
    for line in txt.splitlines():
        s = line.strip()
        if s.startswith('['):
            insec = (s == '[features]')
            continue
        if insec and '=' in s:
            k, v = s.split('=', 1)
            feats[k.strip()] = v.strip()
    return feats


# ------------------------------------------------------------------------------------------
# FM
# ------------------------------------------------------------------------------------------

def subsets(tier):
    F = FEATURES
    if tier == 'thorough':
        out = []
        for r in range(len(F) + 1):
            for c in itertools.combinations(F, r):
                out.append(c)
        return out
    out = [()]
    out += [(f,) for f in F]
    out += list(itertools.combinations(F, 2))
    out += [tuple(x for x in F if x != f) for f in F]
    out.append(tuple(F))
    return list(dict.fromkeys(out))


def base_rustc_command(repo, tmp):
    """build the dependencies once and capture cargo's rustc invocation for the educe crate"""
    env = dict(os.environ, CARGO_TARGET_DIR=os.path.join(tmp, 'target'), CARGO_NET_OFFLINE='true')
    for _attempt in range(3):
        p = subprocess.run(['cargo', 'check', '--offline', '-v', '--lib', '--manifest-path', os.path.join(repo, 'Cargo.toml')],
                           capture_output=True, text=True, env=env, stdin=subprocess.DEVNULL)
        # cargo's own `rustc -` probe has been seen to fail when many cargo processes start at the same moment: not a verdict
        if p.returncode == 0 or 'to learn about target-specific information' not in p.stderr:
            break
        time.sleep(2 + 3 * _attempt)
    if p.returncode != 0:
        return None, p.stderr[-3000:]
    cmd = None
    for line in p.stderr.splitlines():
        line = line.strip()
        if line.startswith('Running `') and '--crate-name educe ' in line:
            cmd = line[len('Running `'):].rstrip('`')
    if cmd is None:
        return None, 'could not find the rustc invocation for educe in cargo -v output'
    return cmd, None


def fm_matrix(cx, tier, rep):
    repo = cx.repo
    tmp = tempfile.mkdtemp(prefix='educe-fm-')
    t0 = time.time()
    try:
        cmd, err = base_rustc_command(repo, tmp)
        if cmd is None:
            rep.broken.append('feature matrix: dependency build failed: %s' % err)
            return
        argv = shlex.split(cmd)
        # strip env assignments in front (cargo prints `VAR=val ... rustc ...`)
        envs = {}
        while argv and '=' in argv[0] and not argv[0].startswith('-') and '/' not in argv[0].split('=')[0]:
            k, v = argv[0].split('=', 1)
            envs[k] = v
            argv = argv[1:]
        base = []
        i = 0
        while i < len(argv):
            a = argv[i]
            if a == '--cfg' and i + 1 < len(argv) and argv[i + 1].startswith('feature='):
                i += 2
                continue
            if a == '--check-cfg':
                i += 2
                continue
            if a.startswith('--emit'):
                if a == '--emit':
                    i += 2
                else:
                    i += 1
                continue
            if a == '--out-dir':
                i += 2
                continue
            if a.startswith('--error-format') or a.startswith('--json') or a.startswith('--diagnostic-width'):
                i += 1 if '=' in a else 2
                continue
            if a == '-C' and i + 1 < len(argv) and (argv[i + 1].startswith('metadata=') or argv[i + 1].startswith('extra-filename=') or argv[i + 1].startswith('incremental=')):
                i += 2
                continue
            if a == '--cap-lints':
                i += 2
                continue
            base.append(a)
            i += 1
        sets = subsets(tier)
        results = {}

        def run_one(idx_fs):
            idx, fs = idx_fs
            out = os.path.join(tmp, 'o%d' % idx)
            os.makedirs(out, exist_ok=True)
            a = list(base) + ['--emit=metadata', '--out-dir', out, '-D', 'warnings', '-A', 'unexpected_cfgs']
            for f in fs:
                a += ['--cfg', 'feature="%s"' % f]
            p = subprocess.run(a, capture_output=True, text=True, cwd=repo, env=dict(os.environ, **envs), stdin=subprocess.DEVNULL)
            shutil.rmtree(out, ignore_errors=True)
            return fs, p.returncode, p.stderr

        with ThreadPoolExecutor(max_workers=min(16, os.cpu_count() or 4)) as ex:
            for fs, rc, err in ex.map(run_one, list(enumerate(sets))):
                results[fs] = (rc, err)
        nfail = 0
        for fs, (rc, err) in results.items():
            label = '+'.join(fs) if fs else '(none)'
            if not fs:
                if rc != 0 and 'at least one of the trait features must be enabled' in err:
                    rep.ok('FM', 'features=(none) refused with the explicit message', {'features': [], 'verdict': 'refused: ' + 'at least one of the trait features must be enabled'})
                else:
                    rep.bad('FM', 'crate', 'features=(none)', 'with no trait feature the crate must refuse to build with its explicit message (rc=%d)' % rc, 'src/supported_traits.rs', 1,
                            {'stderr': err[-1500:]})
                continue
            if rc == 0:
                rep.ok('FM', 'features=%s' % label, {'features': list(fs), 'verdict': 'rustc -D warnings: ok'} if len(fs) in (1, 11) else None)
            else:
                nfail += 1
                first = [l for l in err.splitlines() if l.startswith('error') or l.startswith('warning')][:3]
                loc = [l.strip() for l in err.splitlines() if l.strip().startswith('-->')][:1]
                file, line = None, None
                if loc:
                    m = re.match(r'-->\s*(\S+?):(\d+)', loc[0])
                    if m:
                        file, line = m.group(1), int(m.group(2))
                if nfail <= 12:
                    rep.bad('FM', 'crate', 'features=%s' % label, 'educe does not build cleanly with features {%s}: %s' % (label, ' | '.join(first)), file, line,
                            {'stderr': err[-2000:]})
                else:
                    rep.bad('FM', 'crate', 'features=(%d more subsets)' % 1, 'further failing subsets omitted', None, None)
        rep.extra['fm_subsets'] = len(sets)
        rep.extra['fm_wall_s'] = round(time.time() - t0, 1)
        rep.extra['exhaustive'] = (tier == 'thorough')
    finally:
        shutil.rmtree(tmp, ignore_errors=True)


# ------------------------------------------------------------------------------------------
# CFG-REF
# ------------------------------------------------------------------------------------------

def implies(a, b):
    """a ⇒ b for all assignments of the features mentioned (opaque predicates make the answer None)"""
    fs = sorted(cfg_feats(a) | cfg_feats(b))
    for bits in itertools.product((False, True), repeat=len(fs)):
        on = {f for f, v in zip(fs, bits) if v}
        va = cfg_eval(a, on)
        vb = cfg_eval(b, on)
        if va is None or vb is None:
            return None, None
        if va and not vb:
            return False, sorted(on)
    return True, None


def gate_of_target(cx, path):
    """cfg gate under which the crate item `path` exists: module chain ∧ item attrs (∧ variant attrs)"""
    crate = cx.crate
    # longest module prefix
    for i in range(len(path), -1, -1):
        if path[:i] in crate.modules:
            m = crate.modules[path[:i]]
            rest = path[i:]
            gates = [m.cfg]
            if rest:
                it = m.local_items.get(rest[0])
                if it is None:
                    # impl fn or re-export: be permissive (FM is the backstop)
                    return cfg_and(gates), 'module'
                gates += cfgs_of_attrs(it.get('attrs'))
                if it['k'] == 'Enum' and len(rest) >= 2:
                    for v in it['variants']:
                        if v['name'] == rest[1]:
                            gates += cfgs_of_attrs(v.get('attrs'))
                if it['k'] == 'Mod':
                    pass
            return cfg_and(gates), 'item'
    return ('true',), 'unknown'


def check_cfg_refs(cx, rep):
    crate = cx.crate
    n = 0
    # module-level use declarations and mod declarations
    for mp, m in crate.modules.items():
        for name, lst in m.uses.items():
            for path, icfg, it in lst:
                r = crate.resolve(m, list(path))
                if r[0] != 'crate':
                    continue
                g_use = icfg
                g_def, kind = gate_of_target(cx, r[1])
                ok, witness = implies(g_use, g_def)
                n += 1
                inst = 'use=%s' % '::'.join(x for x in path)
                if ok is False:
                    rep.bad('CFG-REF', '::'.join(mp) or 'crate', inst,
                            '`use %s` is compiled under %s but `%s` only exists under %s — fails with features {%s}' % ('::'.join(path), cfg_s(g_use), '::'.join(r[1]), cfg_s(g_def), '+'.join(witness)),
                            m.file, it['l'])
                else:
                    rep.ok('CFG-REF', '%s|%s' % ('::'.join(mp) or 'crate', inst), {'file': m.file, 'line': it['l'], 'use': '::'.join(path), 'gate_use': cfg_s(g_use), 'gate_def': cfg_s(g_def)} if g_def != ('true',) else None)
    # paths inside function bodies
    for f in crate.fns:
        fw = cx.fw(f)
        for ev in fw.events:
            node = None
            if ev.kind == 'use':
                node = ev.node['path']
            elif ev.kind == 'struct':
                node = ev.node['path']
            if node is None or len(node['segs']) < 2 or node['global']:
                continue
            segs = [s['id'] for s in node['segs']]
            r = crate.resolve(f.module, segs)
            if r[0] != 'crate':
                continue
            gates = [f.cfg]
            for c in ev.ctx:
                if c['k'] == 'cfg':
                    gates += list(c.get('preds') or [])
                if c['k'] == 'arm':
                    gates += list(c.get('cfg') or [])
            g_use = cfg_and(gates)
            g_def, kind = gate_of_target(cx, r[1])
            if g_def == ('true',):
                continue
            ok, witness = implies(g_use, g_def)
            n += 1
            inst = 'path=%s' % '::'.join(segs)
            if ok is False:
                rep.bad('CFG-REF', f.qname, inst,
                        '`%s` is compiled under %s but only exists under %s — fails with features {%s}' % ('::'.join(segs), cfg_s(g_use), cfg_s(g_def), '+'.join(witness)),
                        f.file, ev.line)
            else:
                rep.ok('CFG-REF', '%s|%s|%d' % (f.qname, inst, ev.line))
    rep.floor('CFG-REF', 150)


# ------------------------------------------------------------------------------------------
# CFG-SAME / CFG-GATES
# ------------------------------------------------------------------------------------------

PARTNERS = {('Clone', 'Copy'), ('Copy', 'Clone'), ('PartialEq', 'Eq'), ('Eq', 'PartialEq'), ('Ord', 'PartialOrd'), ('PartialOrd', 'Ord')}


def tests_partner(cond, Y):
    """does the condition have a conjunct that can only hold when Y is educed? (`traits.contains(&Trait::Y)` or `t == Trait::Y`)"""
    from ..metafacts import conjuncts
    for c in conjuncts(cond):
        t = es(c).replace(' ', '').replace('(', '').replace(')', '')
        if t == 'traits.contains&Trait::%s' % Y or t == 't==Trait::%s' % Y or t == 'Trait::%s==t' % Y:
            return True
    return False


def _contains(outer, inner):
    from ..syn import walk_json
    return any(x is inner for x in walk_json(outer))


def root_positive_test(cond, Y):
    """a condition that can only hold when the meta / trait at hand is Y"""
    c = cond
    while c['k'] == 'Paren':
        c = c['expr']
    t = es(c).replace(' ', '')
    key = 'Trait::%s' % Y
    if c['k'] == 'Binary' and c['op'] == '==' and (es(c['l_']).replace(' ', '') == key or es(c['r_']).replace(' ', '') == key):
        return True
    if c['k'] == 'Let' and pat_s(c['pat']).startswith('Some(') and c['expr']['k'] == 'MethodCall' and c['expr']['method'] in ('get', 'get_mut', 'remove') \
            and len(c['expr']['args']) == 1 and es(c['expr']['args'][0]).replace(' ', '').lstrip('&') == key:
        return True
    if c['k'] == 'MethodCall' and c['method'] in ('contains', 'contains_key') and len(c['args']) == 1 and es(c['args'][0]).replace(' ', '').lstrip('&') == key:
        return True
    return False


def check_cfg_same(cx, facts, rep):
    from ..parsers import _under
    for f in cx.crate.fns:
        if len(f.module.path) < 2 or f.module.path[0] != 'trait_handlers':
            continue
        X = cx.trait_of_module(f.module)
        fw = cx.fw(f)
        gated_defs = {}
        for d in fw.defs:
            if d.kind == 'let' and d.cfg and d.cfg[0][0] == 'feat':
                gated_defs[d.name] = d.cfg[0][1]
        # cfg-gated lets
        for d in fw.defs:
            if d.kind == 'let' and d.cfg:
                pred = d.cfg[0]
                inst = 'cfg-let=%s' % d.name
                if pred[0] == 'feat':
                    Y = pred[1]
                    twins = [t for t in d.twins if t.cfg and t.cfg[0] == ('not', pred)]
                    if (X, Y) not in PARTNERS:
                        rep.bad('CFG-SAME', f.qname, inst, 'code of %s is conditional on feature "%s", which is not its documented partner' % (X, Y), f.file, d.line)
                    elif d.mutable and d.init is not None and es(d.init) == 'false' and not twins:
                        # a state flag that only exists with the feature; its uses are checked as gated statements
                        rep.ok('CFG-SAME', '%s|%s|state-flag' % (f.qname, inst))
                    elif d.init is None or not tests_partner(d.init, Y):
                        rep.bad('CFG-SAME', f.qname, inst, 'cfg(feature = "%s") binding `%s = %s` does not contain the partner test `traits.contains(&Trait::%s)` as a conjunct' % (Y, d.name, es(d.init)[:60], Y), f.file, d.line)
                    elif len(twins) != 1 or twins[0].init is None or es(twins[0].init) != 'false':
                        rep.bad('CFG-SAME', f.qname, inst, 'no `#[cfg(not(feature = "%s"))] let %s = false;` twin: with the feature off the handler would not behave as with the partner not educed' % (Y, d.name), f.file, d.line)
                    else:
                        rep.ok('CFG-SAME', '%s|%s' % (f.qname, inst), {'file': f.file, 'line': d.line, 'binding': d.name, 'feature': Y, 'twin': 'false'})
                elif pred[0] == 'not':
                    inner = pred[1]
                    if inner[0] != 'feat' or not d.twins:
                        rep.bad('CFG-SAME', f.qname, inst, 'unpaired cfg(not(..)) binding', f.file, d.line)
                else:
                    rep.bad('CFG-SAME', f.qname, inst, 'unrecognised cfg predicate %s on a binding' % cfg_s(pred), f.file, d.line)
        # cfg-gated statements
        for ev in fw.events:
            if ev.kind == 'branch':
                cfgs = [c for c in ev.ctx if c['k'] == 'cfg']
                if not cfgs or cfgs[-1] is not ev.ctx[-1]:
                    continue
                preds = cfgs[-1].get('preds') or []
                inst = 'cfg-if@%s' % es(ev.node['cond'])[:50]
                if len(preds) == 1 and preds[0][0] == 'feat':
                    Y = preds[0][1]
                    if (X, Y) not in PARTNERS:
                        rep.bad('CFG-SAME', f.qname, inst, 'a statement of %s is conditional on feature "%s", which is not its documented partner' % (X, Y), f.file, ev.line)
                    elif tests_partner(ev.node['cond'], Y):
                        rep.ok('CFG-SAME', '%s|%s' % (f.qname, inst))
                    else:
                        # acceptable if its only effect is to update bindings that are themselves gated by the same feature
                        inner = [e for e in fw.events if _under(e, ev.pos['id'], pol=True)]
                        effects = [e for e in inner if e.kind in ('assign', 'mcall', 'call', 'exit', 'macro')]
                        ok = bool(effects) and all(e.kind == 'assign' and e.target['k'] == 'Path' and gated_defs.get(e.target['path']['s']) == Y for e in effects) and ev.node.get('else') is None
                        if ok:
                            rep.ok('CFG-SAME', '%s|%s|updates only %s-gated state' % (f.qname, inst, Y))
                        else:
                            rep.bad('CFG-SAME', f.qname, inst, 'cfg(feature = "%s") statement does not test whether %s is educed (`%s`): disabling the feature changes behaviour' % (Y, Y, es(ev.node['cond'])[:60]), f.file, ev.line)
                else:
                    rep.bad('CFG-SAME', f.qname, inst, 'unrecognised cfg on a statement: %s' % [cfg_s(p) for p in preds], f.file, ev.line)
    # the crate root (type-level registration and dispatch): a cfg(feature = "Y") statement must be dead when Y is off, i.e. an `if`
    # without `else` whose condition can only hold for trait Y itself (`t == Trait::Y`, `map.get(&Trait::Y)` is Some, contains(&Trait::Y))
    for f in cx.crate.fns:
        if f.module.path != () and f.module.path != ('supported_traits',):
            continue
        fw = cx.fw(f)
        for ev in fw.events:
            cfgs = [c for c in ev.ctx if c['k'] == 'cfg']
            if not cfgs or cfgs[-1] is not ev.ctx[-1]:
                continue
            preds = cfgs[-1].get('preds') or []
            if ev.kind not in ('branch', 'let', 'assign', 'mcall', 'call', 'exit', 'match', 'for', 'loop', 'macro'):
                continue
            # only the outermost construct directly under the cfg
            if ev.kind != 'branch':
                if any(e2.kind == 'branch' and e2.ctx == ev.ctx and e2.seq <= ev.seq and e2.node is not ev.node and _contains(e2.node, ev.node) for e2 in fw.events):
                    continue
            inst = 'root-cfg@%s' % (es(ev.node['cond'])[:50] if ev.kind == 'branch' else ev.kind)
            if len(preds) != 1 or preds[0][0] != 'feat':
                if ev.kind == 'branch':
                    rep.bad('CFG-SAME', f.qname, inst, 'unrecognised cfg on a statement of the crate root: %s' % [cfg_s(p_) for p_ in preds], f.file, ev.line)
                continue
            Y = preds[0][1]
            if ev.kind == 'branch':
                pos = root_positive_test(ev.node['cond'], Y)
                if not pos:
                    # the same test through a helper / closure / `.map(..)`: decided on the facts the condition establishes
                    try:
                        c_ = ev.node['cond']
                        if c_['k'] == 'Let':
                            from ..facts import expand_some
                            ats = expand_some(facts.pat_atom(c_['pat'], c_['expr'], True, ev.scope, fw))
                        else:
                            ats = facts.cond_atoms(c_, True, ev.scope, fw)
                    except Exception:
                        ats = []
                    key = ('path', 'Trait::%s' % Y)
                    for a in ats:
                        if a[0] == 'some' and a[-1] is True and isinstance(a[1], tuple) and a[1][0] == 'mcall' and a[1][2] in ('get', 'get_mut', 'remove') \
                                and len(a[1]) == 4 and a[1][3] in (key, ('ref', key)):
                            pos = True
                        if a[0] == 'eq' and a[-1] is True and key in a[1:3]:
                            pos = True
                if pos and ev.node.get('else') is None:
                    rep.ok('CFG-SAME', '%s|%s' % (f.qname, inst))
                else:
                    rep.bad('CFG-SAME', f.qname, inst, 'cfg(feature = "%s") statement in the crate root is not an else-less `if` that can only hold for trait %s itself (`%s`): with the feature off the other traits are treated differently' % (
                        Y, Y, es(ev.node['cond'])[:60]), f.file, ev.line)
    rep.floor('CFG-SAME', 20)


def check_gates(cx, rep):
    crate = cx.crate
    feats = cargo_features(cx)
    trait_feats = [k for k, v in feats.items() if v.replace(' ', '') == '[]']
    if sorted(trait_feats) != sorted(FEATURES):
        rep.bad('CFG-GATES', 'Cargo.toml', 'features', 'the trait features of Cargo.toml are %s, expected %s' % (sorted(trait_feats), sorted(FEATURES)), 'Cargo.toml', None)
    else:
        rep.ok('CFG-GATES', 'Cargo.toml|12 trait features')
    # compile_error gate
    st = crate.modules.get(('supported_traits',))
    found = False
    if st is not None:
        for it in st.items:
            if it['k'] == 'Macro' and it['mac']['name'] == 'compile_error':
                g = cfgs_of_attrs(it.get('attrs'))
                found = True
                ok = len(g) == 1 and g[0][0] == 'not' and g[0][1][0] == 'any' and sorted(x[1] for x in g[0][1][1] if x[0] == 'feat') == sorted(FEATURES) and len(g[0][1][1]) == 12
                if ok:
                    rep.ok('CFG-GATES', 'supported_traits|compile_error gate = not(any(12 trait features))')
                else:
                    rep.bad('CFG-GATES', 'supported_traits', 'compile_error-gate', 'the explicit no-feature error is gated by %s' % [cfg_s(x) for x in g], st.file, it['l'])
    if not found:
        rep.bad('CFG-GATES', 'supported_traits', 'compile_error', 'no `compile_error!` for the empty feature set', 'src/supported_traits.rs', 1)
    # enum Trait variants, handler modules
    item = crate.types.get((('supported_traits',), 'Trait'))
    if item is None:
        rep.broken.append('enum Trait not found')
    else:
        for v in item['variants']:
            g = cfgs_of_attrs(v.get('attrs'))
            if v['name'] in FEATURES:
                if g == [('feat', v['name'])]:
                    rep.ok('CFG-GATES', 'Trait::%s gated by its feature' % v['name'])
                else:
                    rep.bad('CFG-GATES', 'supported_traits::Trait', 'variant=%s' % v['name'], 'variant gated by %s' % [cfg_s(x) for x in g], 'src/supported_traits.rs', v['l'])
            elif g:
                rep.bad('CFG-GATES', 'supported_traits::Trait', 'variant=%s' % v['name'], 'non-trait variant is cfg-gated', 'src/supported_traits.rs', v['l'])
    th = crate.modules.get(('trait_handlers',))
    if th is not None:
        for t, d in TRAIT_DIRS.items():
            it = th.local_items.get(d)
            g = cfgs_of_attrs(it.get('attrs')) if it else None
            if g == [('feat', t)]:
                rep.ok('CFG-GATES', 'mod trait_handlers::%s gated by feature %s' % (d, t))
            else:
                rep.bad('CFG-GATES', 'trait_handlers', 'mod=%s' % d, 'handler module gated by %s' % ([cfg_s(x) for x in g] if g is not None else 'missing'), th.file, it['l'] if it else None)
    rep.floor('CFG-GATES', 26)


def run(cx, tier='quick'):
    rep = Report('C18')
    rep.explanation.append(
        'FM: rustc type-checks educe\'s own source with -D warnings under feature subsets (quick: 92 = ∅ + singletons + pairs + '
        'co-singletons + all; thorough: all 4096, exhaustive over the property\'s quantifier). CFG-REF: truth-table implication '
        'gate(use) ⇒ gate(definition) for every crate-local reference. CFG-SAME: every cfg inside a handler is the partner idiom with '
        'its constant-false twin. CFG-GATES: variant / from_path arm / module / dispatch gates agree per trait; compile_error gate.')
    facts = Facts(cx)
    check_gates(cx, rep)
    check_cfg_refs(cx, rep)
    check_cfg_same(cx, facts, rep)
    from .c15 import check_disp
    check_disp(cx, facts, rep)
    fm_matrix(cx, tier, rep)
    rep.floor('FM', 90 if tier == 'quick' else 4000)
    rep.assumptions += ['rustc\'s verdict on educe\'s source is the definition of "builds"; cargo passes exactly --cfg feature="X" per enabled feature']
    rep.not_decided += ['behavioural equality of generated code across subsets beyond the CFG-SAME structural argument']
    # "a disabled trait named in an attribute is refused like an unknown one" presupposes that every field's attributes reach a scanner
    from .c13 import check_field_scan_coverage as _cover
    from ..facts import Facts as _Fc
    _fc = _Fc(cx)
    _cover(cx, _fc, rep)
    # ... and that every scanner refuses a name Trait::from_path does not know (a disabled trait has no from_path arm: CFG-GATES)
    from .c13 import check_scanners as _scan
    from ..report import Report as _R
    sub = _R(rep.prop)
    _scan(cx, _fc, sub)
    n = 0
    for fnd in sub.findings:
        if fnd.rule == 'SCAN' and ('unknown-trait' in fnd.key or 'attribute-loop' in fnd.key or 'meta-loop' in fnd.key or 'early-exit' in fnd.key or 'continue' in fnd.key):
            rep.findings.append(fnd)
    for r, i, v in sub.checked:
        if r == 'SCAN' and ('unknown-trait-rejected' in i or 'visits-all' in i):
            rep.checked.append((r, i, v))
            n += 1
    rep.counts['SCAN'] = rep.counts.get('SCAN', 0) + n
    for b in sub.broken:
        if b not in rep.broken:
            rep.broken.append(b)
    rep.floor('SCAN', 40, '(24 scanners × 2 obligations)')
    return rep
