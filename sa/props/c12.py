"""C12 — explicit bound modes and the type's own generics are honoured verbatim.

  HDR        every emitted impl has the header `impl #ig <::core trait> for #ident #tg #wc` whose three generics holes
             come from `split_for_impl()` of the type's generics or of a clone of them that received *only* the predicates
             computed by Bound::into_where_predicates…; companions reuse the primary's variables.
  BOUND-MAP  Bound::from_meta / WherePredicatesOrBool: true→Auto, false|""→Disabled, predicates|string→Custom, *→All.
  BOUND-USE  into_where_predicates…: Disabled→none, Auto→per-type predicates, Custom(p)→p unchanged, All→all *type* params;
             the two predicate builders emit `#ty: #bound_trait` / `#ident: #bound_trait` / `Self: #supertrait` and nothing else.
"""
from ..report import Report
from ..genast import visit, is_marker, marker_name
from ..syn import es, pat_s, ty_s
from ..terms import term_s, subterms, analyse_iter, strip_refs
from ..tmpl import generics_part, generics_source
from ..walk import ctx_s

BOUND_FN = 'into_where_predicates_by_generic_parameters_check_types'


def impls_of_site(s):
    out = []

    def cb(role, node, extra):
        if role == 'impl':
            out.append((node, extra))
    visit(s.ast, s.cat, cb)
    return out


def check_headers(cx, rep, needles=None):
    n = 0
    for fn in cx.handler_fns():
        if needles is not None and not any(x in fn.qname for x in needles):
            continue
        sites, bad = cx.all_sites(fn)
        where = fn.qname
        fw = cx.fw(fn)
        tm = cx.gm.terms_of(fw)
        primary_vars = None
        for s in sites:
            if s.ast is None:
                # fail closed: a template that contains an `impl` but does not parse where it lands has an unverified header
                if any(t_.get('t') == 'i' and t_.get('s') == 'impl' for t_ in s.tmpl.tokens):
                    n += 1
                    rep.bad('HDR', where, 'impl@unparsable', 'an impl template does not parse as %s, so its header cannot be verified: `%s`' % (s.cat, s.tmpl.text()[:120]), s.tmpl.file, s.tmpl.line)
                continue
            for impl, kind in impls_of_site(s):
                n += 1
                check_one_header(cx, fn, s, impl, kind, rep)
    if needles is None:
        rep.floor('HDR', 30, '(39 impl templates today)')
    return n


def hole_of_generics_list(g):
    ps = g['params']
    if len(ps) == 1 and is_marker(ps[0]['name']) and not ps[0].get('bounds'):
        return marker_name(ps[0]['name'])
    return None


def where_hole(g):
    ws = g['where']
    if len(ws) == 1 and ws[0]['k'] == 'Type' and ws[0]['ty']['k'] == 'Path' and is_marker(ws[0]['ty']['path']['s']) \
            and len(ws[0]['bounds']) == 1 and ws[0]['bounds'][0].get('path', {}).get('s') == '__W':
        return marker_name(ws[0]['ty']['path']['s'])
    return None


def check_one_header(cx, fn, s, impl, kind, rep):
    where = fn.qname
    t = s.tmpl
    tfw = t.fw
    tm = t.terms
    trait = impl['trait']['path']['s'] if impl.get('trait') else '(inherent)'
    inst = 'impl %s%s' % (trait, ' [nested]' if kind == 'nested' else '')
    loc = (t.file, t.line)
    ig = hole_of_generics_list(impl['generics'])
    wc = where_hole(impl['generics'])
    if kind == 'nested' and ig is None and not impl['generics']['params'] and not impl['generics']['where']:
        # impl for a template-local helper type that does not involve the user's type at all
        mentions = []

        def cbm(role, node, extra):
            if role == 'path' and any(is_marker(sg['id']) for sg in node['segs']):
                mentions.append(node['s'])
        visit(impl['self_ty'], 'type', cbm)
        if not mentions:
            rep.ok('HDR', '%s|%s|template-local type' % (where, inst))
            return
    if ig is None:
        rep.bad('HDR', where, inst, 'the impl does not declare exactly the type\'s generics (`impl #impl_generics …`): found `<%s>`' %
                ', '.join(p['name'] for p in impl['generics']['params']), *loc)
        return
    if cx.gm.hole_class(t, ig) != 'generics:impl':
        rep.bad('HDR', where, inst, '`#%s` in impl-generics position is not the first component of split_for_impl()' % ig, *loc)
        return
    if wc is None:
        if impl['generics']['where'] or True:
            rep.bad('HDR', where, inst, 'the impl has no `#where_clause` hole (the type\'s where-clause would be dropped) or adds fixed predicates', *loc)
            return
    if cx.gm.hole_class(t, wc) != 'generics:where':
        rep.bad('HDR', where, inst, '`#%s` in where-clause position is neither the third component of split_for_impl() nor make_where_clause()' % wc, *loc)
        return
    if impl.get('trait') is not None and not impl['trait']['path']['global']:
        rep.bad('HDR', where, inst, 'trait path `%s` is not absolute' % trait, *loc)
        return
    if impl.get('trait') is not None and impl['trait']['path']['segs'][0]['id'] != 'core':
        rep.bad('HDR', where, inst, 'trait path `%s` is not rooted at ::core' % trait, *loc)
        return
    # self type
    st = impl['self_ty']
    tg = None
    if kind != 'nested':
        okself = st['k'] == 'Path' and len(st['path']['segs']) == 1 and is_marker(st['path']['segs'][0]['id']) and not st['path']['global']
        if okself:
            seg = st['path']['segs'][0]
            args = seg.get('args', [])
            if len(args) == 1 and args[0]['k'] == 'Type' and args[0]['ty']['k'] == 'Path' and is_marker(args[0]['ty']['path']['s']):
                tg = marker_name(args[0]['ty']['path']['s'])
            idt = t.hole_term(marker_name(seg['id']))
            if idt != ('field', ('param', 'ast'), 'ident'):
                okself = False
        if not okself or tg is None:
            rep.bad('HDR', where, inst, 'the impl is not `for #ident #ty_generics` with #ident = the type\'s own name', *loc)
            return
    else:
        # nested helper impl: must mention `#ty_ident #ty_generics` somewhere in its self type
        found = []

        def cb(role, node, extra):
            if role == 'path' and extra == 'type' and len(node['segs']) == 1 and is_marker(node['segs'][0]['id']):
                for a in node['segs'][0].get('args', []):
                    if a['k'] == 'Type' and a['ty']['k'] == 'Path' and is_marker(a['ty']['path']['s']):
                        found.append(marker_name(a['ty']['path']['s']))
        visit(st, 'type', cb)
        tg = found[0] if found else None
        if tg is None:
            rep.bad('HDR', where, inst, 'nested impl does not mention the type with its generics', *loc)
            return
    if cx.gm.hole_class(t, tg) != 'generics:ty':
        rep.bad('HDR', where, inst, '`#%s` in type-generics position is not the second component of split_for_impl()' % tg, *loc)
        return
    # sources
    src_i = generics_source(t.hole_term(ig))
    src_t = generics_source(t.hole_term(tg))
    src_w = generics_source(t.hole_term(wc))
    if src_i != src_t:
        rep.bad('HDR', where, inst, 'impl generics and type generics come from different Generics values (%s vs %s)' % (term_s(src_i), term_s(src_t)), *loc)
        return
    ok_src = []
    for src in (src_i, src_w):
        c = classify_generics_source(cx, tfw, src)
        if c[0] == 'bad':
            rep.bad('HDR', where, inst, 'generics of the impl header: %s' % c[1], *loc)
            return
        ok_src.append(c)
    # an impl of a handler that computes bounds carries them: its where-clause comes from the Generics value the computed predicates
    # were pushed into, not from the type's untouched generics (a companion `impl Copy` / `impl Eq` / `fn new` block emitted with the
    # bare where-clause applies to instantiations the generated code does not compile for)
    if kind != 'nested' and ok_src[1][0] == 'ast' and any(ev.kind == 'mcall' and ev.method == BOUND_FN for ev in tfw.events):
        rep.bad('HDR', where, inst, 'the where-clause of this impl is the type\'s own (`ast.generics`), although the handler computes bound predicates: they are not applied to this impl', *loc)
        return
    rep.ok('HDR', '%s|%s' % (where, inst), {'file': t.file, 'line': t.line, 'impl': inst, 'generics_from': ok_src[0][1], 'where_from': ok_src[1][1]})


def classify_generics_source(cx, fw, src):
    """('ast', why) | ('clone', why) | ('bad', why)"""
    tm = cx.gm.terms_of(fw)
    if src == ('field', ('param', 'ast'), 'generics'):
        return ('ast', "the type's own generics")
    if isinstance(src, tuple) and src[0] == 'var':
        d = tm.def_by_id(src[1])
        if d is None or d.init is None:
            return ('bad', 'unknown Generics value `%s`' % src[2])
        it = tm.term(d.init, d.scope)
        if it != ('field', ('param', 'ast'), 'generics'):
            return ('bad', '`%s` is not a clone of the type\'s generics (initialised from %s)' % (d.name, term_s(it)))
        if d.assigns:
            return ('bad', '`%s` is reassigned' % d.name)
        # every mutation: make_where_clause() then pushes of bound predicates only
        direct_pushes = []
        for ev in fw.events:
            if ev.kind == 'mcall':
                r = strip_refs(ev.recv)
                if r['k'] == 'Path' and r['path']['s'] == d.name and ev.scope.lookup(d.name) is d:
                    if ev.method not in ('make_where_clause', 'split_for_impl', 'clone'):
                        return ('bad', '`%s.%s(..)` modifies the generics copy' % (d.name, ev.method))
                if r['k'] == 'Field' and es(r).startswith(d.name + '.'):
                    # `<copy>.make_where_clause().predicates.push(p)`: the same push without the intermediate binding
                    if es(r).replace(' ', '') == d.name + '.make_where_clause().predicates' and ev.method == 'push' and len(ev.args) == 1:
                        direct_pushes.append(ev)
                        continue
                    return ('bad', 'direct modification `%s`' % es(ev.node)[:60])
            if ev.kind == 'assign' and es(ev.target).startswith(d.name + '.'):
                return ('bad', 'direct assignment to `%s`' % es(ev.target))
        # pushes into the where clause
        wdefs = [x for x in fw.defs if x.kind == 'let' and x.init is not None and es(x.init).replace(' ', '') == '%s.make_where_clause()' % d.name]
        for wd in wdefs + [None]:
            for ev in (fw.events if wd is not None else direct_pushes):
                if wd is None or (ev.kind == 'mcall' and es(ev.recv).startswith(wd.name + '.') or (ev.kind == 'mcall' and es(ev.recv) == wd.name)):
                    if wd is not None and ev.scope.lookup(wd.name) is not wd:
                        continue
                    if wd is not None and (ev.method != 'push' or es(ev.recv) != wd.name + '.predicates'):
                        return ('bad', 'where-clause modified by `%s`' % es(ev.node)[:80])
                    vt = tm.term(ev.args[0], ev.scope)
                    # must be an element of the `bound` computed by Bound::into_where_predicates…
                    okv = False
                    if isinstance(vt, tuple) and vt[0] == 'elem':
                        fev = tm.for_event(vt[1])
                        if fev is not None:
                            bt = tm.term(analyse_iter(fev.entry['iter']).base, fev.scope)
                            okv = is_bound_result(tm, bt)
                            if not okv:
                                # iterating the result of the bound computation directly (`for p in bound.into_where_predicates..(..)`)
                                it_ = strip_refs(fev.entry['iter'])
                                okv = it_['k'] == 'MethodCall' and it_['method'] == BOUND_FN
                    if not okv:
                        return ('bad', 'a predicate that does not come from Bound::%s is pushed into the where-clause (%s)' % (BOUND_FN, term_s(vt)))
                    # the copy must be made afresh for every impl: a push inside a loop (over targets / variants) that the copy was
                    # created outside of accumulates the predicates of earlier iterations in later impl headers
                    own_loop = vt[1]
                    outer = [c for c in ev.ctx if c['k'] == 'for' and c['id'] != own_loop and not any(c2.get('id') == c['id'] for c2 in d.ctx)]
                    if outer:
                        return ('bad', 'the generics copy `%s` is created outside the loop `for %s in %s` in which predicates are pushed into it: predicates of earlier iterations leak into the impl headers of later ones'
                                % (d.name, pat_s(outer[0]['pat']), es(outer[0]['iter'])[:50]))
                if wd is not None and ev.kind == 'assign' and es(ev.target).startswith(wd.name):
                    return ('bad', 'where-clause reassigned')
        return ('clone', 'clone of the type\'s generics + predicates from Bound::%s only' % BOUND_FN)
    return ('bad', 'unrecognised Generics source %s' % term_s(src))


def is_bound_result(tm, bt, depth=0):
    if not isinstance(bt, tuple) or depth > 6:
        return False
    if bt[0] == 'mcall' and bt[2] == BOUND_FN:
        return True
    if bt[0] == 'var':
        d = tm.def_by_id(bt[1])
        if d is None:
            return False
        vals = []
        if d.init is not None:
            vals.append(tm.term(d.init, d.scope))
        for a in d.assigns:
            vals.append(tm.term(a.value, a.scope))
        # allowed: `Punctuated::new()` (no predicates) or the Bound result
        ok = True
        for v in vals:
            if isinstance(v, tuple) and v[0] == 'call' and v[1] in ('Punctuated::new', 'syn::punctuated::Punctuated::new'):
                continue
            if not is_bound_result(tm, v, depth + 1):
                ok = False
        return ok and bool(vals)
    return False


# ------------------------------------------------------------------------------------------
# Bound tables
# ------------------------------------------------------------------------------------------

def find_fn(cx, suffix):
    return [f for f in cx.crate.fns if f.qname.endswith(suffix)]


def arm_table(cx, f, scrut_pred):
    """{pattern string: arm body json} of the (single) match whose scrutinee satisfies the predicate"""
    fw = cx.fw(f)
    for ev in fw.events:
        if ev.kind == 'match' and scrut_pred(ev.node['expr']):
            return {pat_s(a['pat']): a['body'] for a in ev.node['arms']}, ev
    return None, None


def check_bound_tables(cx, rep):
    from ..restable import table
    from ..alpha import Alpha

    def has(rows, kinds_ok, value):
        return any(kinds_ok(tuple(k for k in r[0] if k != '_')) and r[1] == value for r in rows)
    # Bound::from_meta
    fs = find_fn(cx, 'common::bound::Bound::from_meta')
    if len(fs) != 1:
        rep.broken.append('Bound::from_meta not found')
    else:
        f = fs[0]
        where = f.qname
        rows = table(cx, f)
        al = Alpha(f)
        fw = cx.fw(f)
        scr = [al.text(ev.node['expr']) for ev in fw.events if ev.kind == 'match']
        if not any(x in ('meta_2_where_predicates($0)?', 'crate::common::where_predicates_bool::meta_2_where_predicates($0)?') for x in scr):
            rep.bad('BOUND-MAP', where, 'match', 'Bound::from_meta no longer maps the parsed value through a match on meta_2_where_predicates(meta)', f.file, f.line)
        else:
            W = 'WherePredicatesOrBool::'
            exp = [
                ('WherePredicates', lambda ks: ks[-1:] == (W + 'WherePredicates',), ['Ok(Self::Custom(where_predicates))'], 'explicit predicates → Custom'),
                ('Bool-true', lambda ks: ks[-2:] in ((W + 'Bool', 'if(bool)'), (W + 'Bool', '!if(!bool)')) or ks[-1:] == (W + 'Bool(true)',), ['Ok(Self::Auto)'], '`bound = true` → Auto'),
                ('Bool-false', lambda ks: ks[-2:] in ((W + 'Bool', '!if(bool)'), (W + 'Bool', 'if(!bool)')) or ks[-1:] == (W + 'Bool(false)',), ['Ok(Self::Disabled)'], '`bound = false` → Disabled'),
                ('All', lambda ks: ks[-1:] == (W + 'All',), ['Ok(Self::All)'], '`*` → All'),
            ]
            for name, kp, vals, why in exp:
                if any(has(rows, kp, v) for v in vals):
                    rep.ok('BOUND-MAP', '%s|%s' % (where, name), {'maps_to': vals[0]})
                else:
                    rep.bad('BOUND-MAP', where, 'arm=%s' % name, '%s: found %s' % (why, [(list(r[0]), r[1][:60]) for r in rows if kp(tuple(k for k in r[0] if k != '_'))][:2]), f.file, f.line)
            extra = [r for r in rows if r[1].startswith('Ok(') and r[1] not in ('Ok(Self::Custom(where_predicates))', 'Ok(Self::Auto)', 'Ok(Self::Disabled)', 'Ok(Self::All)')]
            for r in extra:
                rep.bad('BOUND-MAP', where, 'extra', 'an additional bound mode is produced: %s under %s' % (r[1][:60], list(r[0])), f.file, r[2].line)
    # into_where_predicates…
    fs = find_fn(cx, 'common::bound::Bound::' + BOUND_FN)
    if len(fs) != 1:
        rep.broken.append('Bound::%s not found' % BOUND_FN)
    else:
        f = fs[0]
        where = f.qname
        rows = table(cx, f)
        pn = [p_[0] for p_ in f.params() if p_[0] != 'self']
        fw = cx.fw(f)
        if not any(ev.kind == 'match' and es(ev.node['expr']).lstrip('&*') == 'self' for ev in fw.events):
            rep.bad('BOUND-USE', where, 'match', 'no `match self` in %s' % BOUND_FN, f.file, f.line)
        elif len(pn) != 4:
            rep.bad('BOUND-USE', where, 'signature', '%s no longer takes (params, bound_trait, types, supertraits)' % BOUND_FN, f.file, f.line)
        else:
            G = 'create_where_predicates_from_generic_parameters_check_types'
            A = 'create_where_predicates_from_all_generic_parameters'
            exp = [
                ('Disabled', ['Punctuated::new()', 'WherePredicates::new()'], '`bound = false` must add no predicate'),
                ('Custom', ['custom'], 'explicit predicates must be returned unchanged'),
                ('Auto', ['%s($1,$2,$3)' % G, 'crate::common::where_predicates_bool::%s($1,$2,$3)' % G], 'automatic mode must build predicates from (bound_trait, types, supertraits)'),
                ('All', ['%s($0,$1)' % A, 'crate::common::where_predicates_bool::%s($0,$1)' % A], '`bound(*)` must build predicates from (params, bound_trait)'),
            ]
            # nothing but the mode decides: every way out of the function is one arm of `match self`, under no other condition
            for r in rows:
                keys = tuple(k for k in r[0] if k != '_')
                if len(keys) != 1 or not str(keys[0]).startswith('Self::'):
                    rep.bad('BOUND-USE', where, 'extra-case', 'a result (`%s`) is produced under %s: the predicates no longer depend on the bound mode alone' % (r[1][:60], list(r[0])), f.file, f.line)
            for name, vals, why in exp:
                cand = [r for r in rows if tuple(k for k in r[0] if k != '_')[-1:] == ('Self::' + name,)]
                if len(cand) == 1 and cand[0][1] in vals:
                    rep.ok('BOUND-USE', where + '|' + name)
                else:
                    rep.bad('BOUND-USE', where, name, '%s; arm is `%s`' % (why, [c[1][:80] for c in cand] or 'missing'), f.file, f.line)
    check_predicate_builders(cx, rep)
    check_parse_forms(cx, rep)


def unblock(e):
    while e is not None and e['k'] == 'Block' and len(e['stmts']) == 1 and e['stmts'][0]['k'] == 'Expr' and not e['stmts'][0]['semi']:
        e = e['stmts'][0]['expr']
    return e


def norm(e):
    return es(unblock(e)).replace(' ', '')


def check_from_meta_arm(ctor, var, body):
    b = unblock(body)
    if ctor.endswith('WherePredicates'):
        return norm(b) == 'Self::Custom(%s)' % var
    if ctor.endswith('Bool'):
        if b['k'] != 'If' or b.get('else') is None:
            return False
        c, t, e = b['cond'], norm(b['then']), norm(b['else'])
        if norm(c) == var:
            return t == 'Self::Auto' and e == 'Self::Disabled'
        if norm(c) == '!' + var:
            return t == 'Self::Disabled' and e == 'Self::Auto'
        return False
    if ctor.endswith('All'):
        return norm(b) == 'Self::All'
    return False


def check_predicate_builders(cx, rep):
    """the two builders: loops, guards and the templates pushed"""
    gm = cx.gm
    for suffix, spec in (
        ('where_predicates_bool::create_where_predicates_from_all_generic_parameters', 'all'),
        ('where_predicates_bool::create_where_predicates_from_generic_parameters_check_types', 'auto'),
    ):
        fs = find_fn(cx, suffix)
        if len(fs) != 1:
            rep.broken.append('%s not found' % suffix)
            continue
        f = fs[0]
        fw = cx.fw(f)
        tm = gm.terms_of(fw)
        where = f.qname
        pushes = [ev for ev in fw.events if ev.kind == 'mcall' and ev.method == 'push']
        seen = []
        from ..facts import Facts
        facts_ = Facts(cx)
        for ev in pushes:
            a = ev.args[0]
            # syn::parse2(quote!{..}).unwrap(), possibly bound to a variable first
            tmpl = None
            lv = cx.hg(f).leaves(a, ev.scope, ev.ctx, fw)
            if len(lv) == 1 and lv[0].kind == 'tmpl':
                tmpl = lv[0].tmpl
            if tmpl is None:
                rep.bad('BOUND-USE', where, 'push', 'a predicate is pushed that is not built from a template: `%s`' % es(a)[:80], f.file, ev.line)
                continue
            ok, ast, forms = gm.parse(tmpl, 'wherepreds')
            if not ok or len(ast) != 1 or ast[0]['k'] != 'Type' or len(ast[0]['bounds']) != 1:
                rep.bad('BOUND-USE', where, 'template', 'predicate template is not a single `T: Trait` predicate: `%s`' % tmpl.text(), f.file, tmpl.line)
                continue
            w = ast[0]
            lhs = w['ty']
            rhs = w['bounds'][0]['path']
            loops = [c for c in ev.ctx if c['k'] == 'for']
            guards = [c for c in ev.ctx if c['k'] != 'for']
            lhs_s = ('Self' if (lhs['k'] == 'Path' and lhs['path']['s'] == 'Self') else
                     ('#' + marker_name(lhs['path']['s']) if lhs['k'] == 'Path' and is_marker(lhs['path']['s']) else ty_s(lhs)))
            rhs_hole = marker_name(rhs['s']) if is_marker(rhs['s']) else None
            if rhs_hole is None:
                rep.bad('BOUND-USE', where, 'template-rhs', 'predicate bounds by the fixed path `%s` instead of the requested trait' % rhs['s'], f.file, tmpl.line)
                continue
            rt = tmpl.hole_term(rhs_hole)
            seen.append((lhs_s, rt, loops, guards, ev, tmpl))
        if spec == 'all':
            ok = len(seen) == 1
            if ok:
                lhs_s, rt, loops, guards, ev, tmpl = seen[0]
                lt = tmpl.hole_term(lhs_s[1:]) if lhs_s.startswith('#') else None
                pn = [p_[0] for p_ in f.params()]
                L = loops[0]['id'] if len(loops) == 1 else None
                info = analyse_iter(loops[0]['iter']) if L is not None else None
                at = [x for x in facts_.atoms(ev.ctx, fw) if x[0] not in ('loop', 'cfg')]
                ok = (len(pn) == 2 and rt == ('param', pn[1]) and L is not None and not info.adaptors and not info.rev
                      and tm.term(info.base, loops[0]['scope']) == ('param', pn[0])
                      and at == [('is', ('elem', L), 'GenericParam::Type', True)]
                      and lt == ('field', ('payload', 'GenericParam::Type', 0, ('elem', L)), 'ident')
                      # every parameter is visited: nothing leaves the loop early
                      and not [e2 for e2 in fw.events if e2.kind == 'exit' and e2.how in ('break', 'return') and any(c_.get('id') == L for c_ in e2.ctx)])
            if ok:
                rep.ok('BOUND-USE', where + '|type-params-only', {'template': seen[0][5].text(), 'guard': ctx_s(tuple(seen[0][3]))})
            else:
                rep.bad('BOUND-USE', where, 'all-mode',
                        '`bound(*)` must emit exactly `#ident: #bound_trait` for every GenericParam::Type of the type and nothing else (found %s)' %
                        [(x[0], term_s(x[1]), ctx_s(tuple(x[3]))) for x in seen], f.file, f.line)
        else:
            exp = {('#t', ('param', 'bound_trait'), 'types'), ('Self', None, 'supertraits')}
            got = set()
            okall = True
            for lhs_s, rt, loops, guards, ev, tmpl in seen:
                if guards or len(loops) != 1:
                    okall = False
                    continue
                base = es(analyse_iter(loops[0]['iter']).base)
                if lhs_s.startswith('#'):
                    lt = tmpl.hole_term(lhs_s[1:])
                    if lt == ('elem', loops[0]['id']) and base == 'types' and rt == ('param', 'bound_trait'):
                        got.add('types')
                    else:
                        okall = False
                elif lhs_s == 'Self':
                    if rt == ('elem', loops[0]['id']) and base == 'supertraits':
                        got.add('supertraits')
                    else:
                        okall = False
                else:
                    okall = False
            if okall and got == {'types', 'supertraits'} and len(seen) == 2:
                rep.ok('BOUND-USE', where + '|per-type+supertraits', {'templates': [x[5].text() for x in seen]})
            else:
                rep.bad('BOUND-USE', where, 'auto-mode',
                        'automatic mode must emit exactly `#t: #bound_trait` for every collected type and `Self: #supertrait` for every supertrait (found %s)' %
                        [(x[0], term_s(x[1]), ctx_s(tuple(x[3]))) for x in seen], f.file, f.line)


def check_parse_forms(cx, rep):
    """WherePredicatesOrBool::from_lit / Parse: bool, string (empty => false), `*`, predicate list"""
    from ..restable import table
    from ..alpha import Alpha

    def nk(r):
        return tuple(k for k in r[0] if k != '_')
    fs = find_fn(cx, 'where_predicates_bool::WherePredicatesOrBool::from_lit')
    if len(fs) == 1:
        f = fs[0]
        where = f.qname
        rows = table(cx, f)
        al = Alpha(f)
        fw = cx.fw(f)
        if not any(ev.kind == 'match' and al.text(ev.node['expr']).lstrip('&*') == '$0' for ev in fw.events):
            rep.bad('BOUND-MAP', where, 'match', 'from_lit no longer matches on the literal kind', f.file, f.line)
        else:
            if any(nk(r)[-1:] == ('Lit::Bool',) and r[1] in ('Ok(Self::Bool(bool.value))', 'Ok(Self::Bool(bool.value()))') for r in rows):
                rep.ok('BOUND-MAP', where + '|bool-literal')
            else:
                rep.bad('BOUND-MAP', where, 'bool-literal', 'boolean literal must map to Bool(value)', f.file, f.line)
            ok_pred = any(nk(r)[-2:] == ('Lit::Str', 'Ok') and r[1] == 'Ok(Self::WherePredicates(ok))' for r in rows)
            ok_empty = any(nk(r)[-2:] == ('Lit::Str', 'Err') and r[1] == 'Ok(Self::Bool(false))' for r in rows)
            guard = False
            scr = False
            for ev in fw.events:
                if ev.kind == 'match':
                    if al.text(ev.node['expr']) == 'str.parse_with(WherePredicates::parse_terminated)':
                        scr = True
                        for a in ev.node['arms']:
                            if pat_s(a['pat']).startswith('Err(') and a.get('guard') is not None and al.text(a['guard']) == 'str.value().is_empty()':
                                b = a['body']
                                guard = al.text(unblock(b)) == 'Self::Bool(false)'
            if ok_pred and ok_empty and guard and scr:
                rep.ok('BOUND-MAP', where + '|string-literal')
            else:
                rep.bad('BOUND-MAP', where, 'string-literal', 'a string must parse as predicates, the empty string (and only it) meaning `false`', f.file, f.line)
    else:
        rep.broken.append('WherePredicatesOrBool::from_lit not found')
    fs = [f for f in cx.crate.fns if f.qname.endswith('where_predicates_bool::WherePredicatesOrBool::parse')]
    if len(fs) == 1:
        f = fs[0]
        where = f.qname
        rows = table(cx, f)
        ok1 = any(nk(r) == ('parse<Lit>',) and r[1] in ('Self::from_lit(&ok)', 'Self::from_lit(ok)') for r in rows)
        ok2 = any(nk(r) == ('!parse<Lit>', 'parse<Token![*]>') and r[1] == 'Ok(Self::All)' for r in rows)
        ok3 = any(nk(r) == ('!parse<Lit>', '!parse<Token![*]>') and r[1].startswith('Ok(Self::WherePredicates($0.parse_terminated(WherePredicate::parse,') for r in rows)
        for nm, okx in (('literal-first', ok1), ('star', ok2), ('predicate-list', ok3)):
            if okx:
                rep.ok('BOUND-MAP', where + '|' + nm)
            else:
                rep.bad('BOUND-MAP', where, nm, 'the list form `bound(..)` no longer accepts the %s form as documented (cases: %s)' % (nm, [(list(r[0]), r[1][:50]) for r in rows][:4]), f.file, f.line)
    else:
        rep.broken.append('WherePredicatesOrBool::parse not found')


def run(cx, tier='quick'):
    rep = Report('C12')
    rep.explanation.append(
        'HDR: every impl template (incl. companions, per-target Into impls and Debug\'s nested wrapper impl) has generics holes that come '
        'from split_for_impl()/make_where_clause() of the type\'s generics or a clone that only receives predicates from '
        'Bound::into_where_predicates…; BOUND-MAP/BOUND-USE: the value→mode table of Bound::from_meta and WherePredicatesOrBool, '
        'the mode→predicates table, and the two predicate builders (type parameters only for `*`; `T: Trait` per collected type + '
        '`Self: Supertrait` for auto; explicit predicates returned unchanged; none when disabled).')
    check_headers(cx, rep)
    check_bound_tables(cx, rep)
    from .scope import check_scopes
    check_scopes(cx, rep, None)
    rep.floor('BOUND-MAP', 6)
    rep.floor('BOUND-USE', 5)
    rep.assumptions += ['syn::Generics::split_for_impl reproduces parameters with inline bounds minus defaults and the where-clause']
    rep.not_decided += ['syn\'s printing of generics']
    # the predicates handed to the header: BND (what is collected, under which conditions, for which paths) — shared with C11
    from .c11 import check_handler as _bnd_handler
    from ..facts import Facts as _Facts
    from ..report import Report as _Report
    sub = _Report('C12')
    f_ = _Facts(cx)
    for t_, sh_, fn_ in cx.shape_handlers():
        _bnd_handler(cx, fn_, t_, sh_, sub, f_)
    for fnd in sub.findings:
        if fnd.rule == 'BND' and not any(x.key == fnd.key for x in rep.findings):
            rep.findings.append(fnd)
    for r_, i_, v_ in sub.checked:
        if r_ == 'BND':
            rep.checked.append((r_, i_, v_))
            rep.counts[r_] = rep.counts.get(r_, 0) + 1
    return rep
