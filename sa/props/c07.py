"""C07 — Clone and clone_from reproduce the source value field by field.

SUM-CLONE (generated-code model of the Clone struct / enum / union handlers):
  * `clone`: constructor of the same shape/variant whose initialiser for every field, exactly once and in place, is
    CLONE(<access to that same field of self>), CLONE = the field's own method iff given, else ::core::clone::Clone::clone;
  * `clone_from(&mut self, source)`: for every field exactly one of `Clone::clone_from(<dst of that field in self>, <src of that field
    in source>)` / `<dst> = M(<src>)`; enums: destination binders come from the pattern matched against `self`, source binders from
    the pattern matched against `source`, same variant; different variants ⇒ `*self = ::core::clone::Clone::clone(source)`;
  * Copy educed and no custom method ⇒ body `*self` (bitwise copy); the Copy companion is emitted iff Copy is educed and shares the
    impl header variables (HDR, C12); union: `*self`.
"""
from ..report import Report
from ..syn import es, pat_s, ty_s
from ..terms import term_s
from ..summ import (Summ, access, call_parts, block_stmts, marker_stmts, marker_of_pat, marker_of_expr, marker_of_stmt, member_of_loop,
                    pattern_model, pattern_once, FieldStmts, binder_resolver, variant_arms, atoms_after_loop, strip_ref_gen)
from ..facts import Facts, atom_s
from ..genast import is_marker, marker_name
from ..tmpl import MARK

CLONE = '::core::clone::Clone::clone'
CLONE_FROM = '::core::clone::Clone::clone_from'


def idx_aliases(S, site, L):
    """enumerate indices of second-phase loops over an unfiltered, order-preserving Vec filled in loop L are equal to L's index"""
    out = set()
    for c in S.eff_ctx(site.ctx):
        if c['k'] == 'via' and c['kind'] == 'push' and c['info'].enumerate and not c['info'].rev and not c['info'].adaptors:
            pev = c['push']
            patoms = S.facts.atoms(S.facts.effective_ctx(pev.ctx, S.fw), S.fw)
            loops = [a for a in patoms if a[0] == 'loop']
            if loops and loops[-1][1] == L and not atoms_after_loop(patoms, L):
                out.add(c['id'])
    return out


def member_resolver(S, bases):
    """like struct_member_resolver but accepting index aliases of unfiltered collections"""
    def resolver(s, e, i, L):
        want, refs_want, mut_want = bases[i]
        a = access(e)
        if a is None or a[0] != 'member':
            return '`%s` is not `%s%s.<field>`' % (es(e)[:60], '&' * refs_want, want)
        _, base, hole, refs, mut = a
        if base != want or refs != refs_want or mut != mut_want:
            return '`%s` (expected `%s%s%s.<field>`)' % (es(e)[:60], '&' * refs_want, 'mut ' if mut_want else '', want)
        mt = S.hole_term(s, hole)
        if member_of_loop(mt, L) is not None:
            return True
        for alias in idx_aliases(S, s, L):
            if mt == ('call', 'Index::from', ('idx', alias)) or (isinstance(mt, tuple) and mt[0] == 'call' and str(mt[1]).endswith('Index::from') and mt[2:] == (('idx', alias),)):
                return True
        return '`#%s` is not the member of the field being visited (%s)' % (hole, term_s(mt, 80))
    return resolver


def call_op(e):
    cp = call_parts(e)
    if cp is None:
        return None
    kind, callee, args = cp
    return ('method' if kind == 'hole' else 'builtin', callee, args)


def header(S):
    impls = [(s, it) for s, it in S.impl_of('::core::clone::Clone') if not S.atoms(s)]
    if len(impls) != 1:
        S.bad('SUM-CLONE', 'impl', 'expected exactly one unconditional `impl ::core::clone::Clone`, found %d' % len(impls))
        return None
    site, impl = impls[0]
    fns = S.fns_of(impl)
    names = [f['sig']['name'] for f in fns]
    if names != ['clone']:
        S.bad('SUM-CLONE', 'impl-fns', 'the impl template must define `fn clone` (+ optional clone_from through its hole), found %s' % names, site)
        return None
    f = fns[0]
    ins = f['sig']['inputs']
    if not (len(ins) == 1 and ins[0]['k'] == 'Self' and ins[0]['ref'] and not ins[0]['mut'] and ty_s(f['sig']['output']) == 'Self'):
        S.bad('SUM-CLONE', 'signature', 'unexpected signature of fn clone', site)
        return None
    return site, impl, f


def copy_atoms(atoms):
    return [a for a in atoms if a[0] == 'educed' and a[1] == 'Copy']


def is_not_copy_guard(a):
    return (a[0] == 'educed' and a[1] == 'Copy' and a[2] is False) or (a[0] == 'nand' and "('educed', 'Copy', True)" in a[1])


def check_copy_companion(S):
    comps = S.impl_of('::core::marker::Copy')
    if len(comps) != 1:
        S.bad('SUM-CLONE', 'copy-companion', 'expected one Copy companion impl, found %d' % len(comps))
        return False
    site, impl = comps[0]
    atoms = [a for a in S.atoms(site) if a[0] != 'cfg']
    if atoms != [('educed', 'Copy', True)] or impl['items']:
        S.bad('SUM-CLONE', 'copy-companion-guard', 'the Copy companion is emitted under %s / with items (expected: empty impl iff Copy is educed)' % [atom_s(a) for a in atoms], site)
        return False
    S.ok('SUM-CLONE', 'copy-companion')
    return True


def field_init_sites(S, site, hole, label, loop_kind, named, src_resolver):
    """initialisers `name: CLONE(src),` / `CLONE(src),`"""
    sites = S.kids(site, hole)
    fs = FieldStmts(S, 'SUM-CLONE')

    def match_stmt(s):
        if named:
            if s.cat != 'fieldvals' or len(s.ast) != 1 or s.ast[0]['shorthand']:
                return 'not a single `name: value,` initialiser'
            fv = s.ast[0]
            if not is_marker(fv['member']):
                return 'initialiser for a fixed field name'
            op = call_op(fv['expr'])
            if op is None or len(op[2]) != 1:
                return 'the initialiser is not CLONE(<source field>)'
            s._member = marker_name(fv['member'])
            return [op]
        if s.cat != 'args' or len(s.ast) != 1:
            return 'not a single positional initialiser'
        op = call_op(s.ast[0])
        if op is None or len(op[2]) != 1:
            return 'the initialiser is not CLONE(<source field>)'
        return [op]

    def resolver(s, e, i, L):
        r = src_resolver(s, e, 0, L)
        if r is not True:
            return r
        if named:
            mt = S.hole_term(s, s._member)
            if member_of_loop(mt, L) not in ('named', 'both'):
                return 'the initialised field `#%s` is not the field whose value is cloned' % s._member
        return True
    return fs.run(sites, label, loop_kind, match_stmt, resolver, builtin_for={CLONE}, need_ignore=False, allowed_extra=lambda a, L: a[0] == 'empty'), sites


def clone_from_sites(S, sites, label, loop_kind, dst_res, src_res, deref_dst):
    fs = FieldStmts(S, 'SUM-CLONE')

    def match_stmt(s):
        st = s.ast if s.cat == 'stmts' else None
        if st is None or len(st) != 1 or st[0]['k'] != 'Expr':
            return 'not a single statement'
        e = st[0]['expr']
        if e['k'] == 'Assign':
            op = call_op(e['r_'])
            if op is None or len(op[2]) != 1 or op[0] != 'method':
                return 'assignment whose value is not METHOD(<source field>)'
            s._dst = e['l_']
            s._form = 'assign'
            return [(op[0], op[1], [e['l_'], op[2][0]])]
        op = call_op(e)
        if op is None or len(op[2]) != 2 or op[0] != 'builtin' or op[1] != CLONE_FROM:
            return 'neither `Clone::clone_from(dst, src)` nor `dst = METHOD(src)`'
        s._form = 'clone_from'
        return [op]

    def resolver(s, e, i, L):
        if i == 0:
            return dst_res(s, e, getattr(s, '_form', None), L)
        return src_res(s, e, L)
    return fs.run(sites, label, loop_kind, match_stmt, resolver, builtin_for={CLONE_FROM}, need_ignore=False, allowed_extra=lambda a, L: a[0] == 'empty')


def let_underscore_source(site):
    st = site.ast if site.cat == 'stmts' else None
    return bool(st) and len(st) == 1 and st[0]['k'] == 'Local' and st[0]['pat']['k'] == 'Wild' and st[0].get('init') is not None and es(st[0]['init']) == 'source'


def field_collection_terms(S, field_sites):
    """terms whose emptiness means "this struct / variant has no field": the collection the per-field loop runs over and the
    accumulator the per-field statements are appended to"""
    from ..terms import analyse_iter, strip_refs
    out = set()
    for fs in field_sites:
        tm = fs.tmpl.terms
        for c in fs.ctx:
            if getattr(c, 'k', None) == 'for' or (isinstance(c, dict) and c.get('k') == 'for'):
                it = c['iter'] if isinstance(c, dict) else c.iter
                sc = c.get('scope') if isinstance(c, dict) else None
                try:
                    out.add(tm.term(analyse_iter(it).base, sc or fs.tmpl.scope))
                except Exception:
                    pass
        ev = getattr(fs.leaf, 'event', None) if fs.leaf is not None else None
        if ev is not None and ev.kind == 'mcall' and ev.method == 'extend':
            r = strip_refs(ev.recv)
            if r['k'] == 'Path':
                out.add(tm.term(r, ev.scope))
    return out


def find_clone_from(S, site, impl):
    """the optional `fn clone_from` supplied through an impl-item hole"""
    holes = [ii for ii in impl['items'] if ii['k'] == 'Macro' and ii['mac']['name'].startswith(MARK)]
    if len(holes) != 1:
        S.bad('SUM-CLONE', 'clone_from-hole', 'no single hole for the optional `fn clone_from`', site)
        return None
    h = holes[0]['mac']['name'][len(MARK):]
    kids = S.kids(site, h)
    if len(kids) != 1 or kids[0].cat != 'implitems' or len(kids[0].ast) != 1 or kids[0].ast[0]['k'] != 'Fn':
        S.bad('SUM-CLONE', 'clone_from-fn', 'the optional item is not exactly one `fn clone_from`', site)
        return None
    k = kids[0]
    f = k.ast[0]
    ins = f['sig']['inputs']
    if not (f['sig']['name'] == 'clone_from' and len(ins) == 2 and ins[0]['k'] == 'Self' and ins[0]['ref'] and ins[0]['mut']
            and ins[1]['k'] == 'Typed' and ins[1]['pat'].get('name') == 'source' and ty_s(ins[1]['ty']).replace(' ', '') == '&Self' and f['sig']['output'] is None):
        S.bad('SUM-CLONE', 'clone_from-signature', 'unexpected signature of fn clone_from', k)
        return None
    g = S.atoms(k)
    # "iff it has a body": the guard is the non-emptiness of the very stream that fills the body of this fn
    body_ids = set()
    for h_ in k.tmpl.holes:
        d_ = k.tmpl.hole_def(h_)
        if d_ is not None:
            body_ids.add(d_.id)
    if not (len(g) == 1 and g[0][0] == 'empty' and g[0][2] is False and isinstance(g[0][1], tuple) and g[0][1][0] == 'var' and g[0][1][1] in body_ids):
        S.bad('SUM-CLONE', 'clone_from-guard', 'fn clone_from is emitted under %s (expected: iff it has a body)' % [atom_s(a) for a in g], k)
        return None
    return k, f


def check_struct(cx, fn, rep, facts):
    S = Summ(cx, fn, rep, facts)
    h = header(S)
    if h is None:
        return
    site, impl, f = h
    st = f['block']['stmts']
    ms = marker_stmts(st)
    if len(ms) != 1 or len(st) != 1:
        S.bad('SUM-CLONE', 'clone-body', 'the body of clone is not one composed expression', site)
        return
    ok = True
    forms = {}
    for b in S.kids(site, ms[0][1]):
        atoms = [a for a in S.atoms(b) if a[0] != 'data']
        e = b.ast[0]['expr'] if b.cat == 'stmts' and len(b.ast) == 1 and b.ast[0]['k'] == 'Expr' else None
        if e is None:
            S.bad('SUM-CLONE', 'clone-form', 'unexpected clone body form', b)
            ok = False
            continue
        shapes = [a for a in atoms if a[0] == 'shape' and a[3] is True]
        notcopy = [a for a in atoms if is_not_copy_guard(a)]
        iscopy = [a for a in atoms if a == ('educed', 'Copy', True)]
        rest = [a for a in atoms if a not in shapes and a not in notcopy and a not in iscopy]
        if rest:
            S.bad('SUM-CLONE', 'clone-guard', 'a clone body is emitted under unexpected conditions %s' % [atom_s(a) for a in rest], b)
            ok = False
            continue
        if es(e) == '*self':
            if not iscopy or shapes or notcopy:
                S.bad('SUM-CLONE', 'clone-copy-guard', '`*self` must be the body exactly when Copy is educed', b)
                ok = False
            forms['copy'] = b
            continue
        if not notcopy or len(shapes) != 1:
            S.bad('SUM-CLONE', 'clone-shape-guard', 'a field-wise clone body must be guarded by "Copy not educed" and exactly one shape (found %s)' % [atom_s(a) for a in atoms], b)
            ok = False
            continue
        sh = shapes[0][2]
        forms[sh] = b
        if sh == 'Unit':
            if es(e) != 'Self':
                S.bad('SUM-CLONE', 'clone-unit', 'a unit struct must clone to `Self`', b)
                ok = False
        elif sh == 'Named':
            if not (e['k'] == 'Struct' and e['path']['s'] == 'Self' and len(e['fields']) == 1 and e['fields'][0]['shorthand'] and is_marker(e['fields'][0]['member']) and not e.get('rest')):
                S.bad('SUM-CLONE', 'clone-named', 'a named struct must clone to `Self { <one initialiser per field> }`', b)
                ok = False
                continue
            r, sites = field_init_sites(S, b, marker_name(e['fields'][0]['member']), 'struct-named', 'struct', True, member_resolver(S, [('self', 1, False)]))
            ok = ok and r
        elif sh == 'Unnamed':
            if not (e['k'] == 'Call' and es(e['func']) == 'Self' and len(e['args']) == 1 and marker_of_expr(e['args'][0])):
                S.bad('SUM-CLONE', 'clone-tuple', 'a tuple struct must clone to `Self(<one initialiser per field>)`', b)
                ok = False
                continue
            r, sites = field_init_sites(S, b, marker_of_expr(e['args'][0]), 'struct-tuple', 'struct', False, member_resolver(S, [('self', 1, False)]))
            ok = ok and r
    for need in ('copy', 'Unit', 'Named', 'Unnamed'):
        if need not in forms:
            S.bad('SUM-CLONE', 'clone-missing-%s' % need, 'no clone body for the %s case' % need, site)
            ok = False
    # clone_from
    cf = find_clone_from(S, site, impl)
    if cf is None:
        return
    k, cff = cf
    st = cff['block']['stmts']
    ms = marker_stmts(st)
    if len(ms) != 1 or len(st) != 1:
        S.bad('SUM-CLONE', 'clone_from-body', 'the body of clone_from is not the composed per-field statements', k)
        return
    sites = S.kids(k, ms[0][1])
    field_sites = [s for s in sites if not let_underscore_source(s)]
    subjects = field_collection_terms(S, field_sites)
    for s in sites:
        if let_underscore_source(s):
            at = [a for a in S.atoms(s) if a[0] not in ('data',) and not is_not_copy_guard(a) and not (a[0] == 'empty' and a[2] is False)]
            # "nothing to assign" = the field list (or the accumulated per-field statements) is empty — not some other collection
            okg = all(a[0] == 'shape' or (a[0] == 'empty' and a[2] is True and a[1] in subjects) for a in at)
            if not okg:
                S.bad('SUM-CLONE', 'clone_from-noop-guard', '`let _ = source;` emitted under %s' % [atom_s(a) for a in at], s)
                ok = False
        if not any(is_not_copy_guard(a) for a in S.atoms(s)):
            S.bad('SUM-CLONE', 'clone_from-copy', 'a clone_from body is emitted although Copy is educed', s)
            ok = False

    def dst_res(s, e, form, L):
        want_refs = 0 if form == 'assign' else 1
        want_mut = form != 'assign'
        return member_resolver(S, [('self', want_refs, want_mut)])(s, e, 0, L)

    def src_res(s, e, L):
        return member_resolver(S, [('source', 1, False)])(s, e, 0, L)
    groups = {}
    for s_ in field_sites:
        shp = [a for a in S.atoms(s_) if a[0] == 'shape' and a[3] is True]
        groups.setdefault(shp[0][2] if len(shp) == 1 else '?', []).append(s_)
    for shp in ('Named', 'Unnamed'):
        if shp not in groups:
            S.bad('SUM-CLONE', 'clone_from-missing-%s' % shp, 'no clone_from statements for %s structs' % shp, k)
            ok = False
    for shp, lst in groups.items():
        if shp not in ('Named', 'Unnamed'):
            S.bad('SUM-CLONE', 'clone_from-shape', 'clone_from statement outside a Named/Unnamed shape branch', lst[0])
            ok = False
            continue
        ok = clone_from_sites(S, lst, 'struct-clone_from-%s' % shp, 'struct', dst_res, src_res, False) and ok
    ok = check_copy_companion(S) and ok
    if ok:
        S.ok('SUM-CLONE', 'struct', {'handler': fn.qname})


def check_enum(cx, fn, rep, facts):
    S = Summ(cx, fn, rep, facts)
    h = header(S)
    if h is None:
        return
    site, impl, f = h
    st = f['block']['stmts']
    ms = marker_stmts(st)
    if len(ms) != 1 or len(st) != 1:
        S.bad('SUM-CLONE', 'clone-body', 'the body of clone is not one composed expression', site)
        return
    ok = True
    seen = set()
    for b in S.kids(site, ms[0][1]):
        atoms = [a for a in S.atoms(b) if a[0] != 'data']
        e = b.ast[0]['expr'] if b.cat == 'stmts' and len(b.ast) == 1 and b.ast[0]['k'] == 'Expr' else None
        if e is None:
            S.bad('SUM-CLONE', 'clone-form', 'unexpected clone body form', b)
            ok = False
            continue
        if es(e) == '*self':
            # Copy educed and no custom method anywhere
            need = {('educed', 'Copy', True)}
            flags = [a for a in atoms if a[0] == 'truth' and a[2] is False and isinstance(a[1], tuple) and a[1][0] == 'var']
            if not (('educed', 'Copy', True) in atoms and len(flags) == 1 and len(atoms) == 2 and custom_flag_ok(S, flags[0][1])):
                S.bad('SUM-CLONE', 'clone-copy-guard', '`*self` must be the body exactly when Copy is educed and no field has a custom clone method (guards %s)' % [atom_s(a) for a in atoms], b)
                ok = False
            seen.add('copy')
            continue
        if not any(is_not_copy_guard(a) for a in atoms):
            S.bad('SUM-CLONE', 'clone-notcopy-guard', 'a variant-wise clone body is not guarded by "not the bitwise-copy case"', b)
            ok = False
        if e['k'] == 'Macro':
            if e['mac']['name'] != '::core::unreachable' or not __import__('sa.emptiness', fromlist=['empty_evidence']).empty_evidence(atoms, S.cx, S.fw):
                S.bad('SUM-CLONE', 'clone-empty-enum', 'unexpected macro body', b)
                ok = False
            seen.add('empty')
            continue
        if e['k'] != 'Match' or es(e['expr']) != 'self' or len(e['arms']) != 1 or marker_of_pat(e['arms'][0]['pat']) is None:
            S.bad('SUM-CLONE', 'clone-match', 'the clone body is not `match self { #arms }`', b)
            ok = False
            continue
        seen.add('match')
        by_shape = variant_arms(S, 'SUM-CLONE', b, marker_of_pat(e['arms'][0]['pat']))
        if by_shape is None:
            ok = False
            continue
        for sh, lst in by_shape.items():
            a, V = lst[0]
            ok = check_clone_arm(S, a, V, sh) and ok
    for need in ('copy', 'empty', 'match'):
        if need not in seen:
            S.bad('SUM-CLONE', 'clone-missing-%s' % need, 'no clone body for the %s case' % need, site)
            ok = False
    cf = find_clone_from(S, site, impl)
    if cf is None:
        return
    k, cff = cf
    st = cff['block']['stmts']
    ms = marker_stmts(st)
    if len(ms) != 1 or len(st) != 1:
        S.bad('SUM-CLONE', 'clone_from-body', 'the body of clone_from is not the composed statements', k)
        return
    for b in S.kids(k, ms[0][1]):
        if not any(is_not_copy_guard(a) for a in S.atoms(b)):
            S.bad('SUM-CLONE', 'clone_from-copy', 'a clone_from body is emitted in the bitwise-copy case', b)
            ok = False
        if let_underscore_source(b):
            if not __import__('sa.emptiness', fromlist=['empty_evidence']).empty_evidence(S.atoms(b), S.cx, S.fw):
                S.bad('SUM-CLONE', 'clone_from-noop-guard', '`let _ = source;` outside the empty-enum case', b)
                ok = False
            continue
        e = b.ast[0]['expr'] if b.cat == 'stmts' and len(b.ast) == 1 and b.ast[0]['k'] == 'Expr' else None
        if e is None or e['k'] != 'Match' or es(e['expr']) != 'self' or len(e['arms']) != 1 or marker_of_pat(e['arms'][0]['pat']) is None:
            S.bad('SUM-CLONE', 'clone_from-match', 'the clone_from body is not `match self { #arms }`', b)
            ok = False
            continue
        by_shape = variant_arms(S, 'SUM-CLONE', b, marker_of_pat(e['arms'][0]['pat']))
        if by_shape is None:
            ok = False
            continue
        for sh, lst in by_shape.items():
            a, V = lst[0]
            ok = check_clone_from_arm(S, a, V, sh) and ok
    ok = check_copy_companion(S) and ok
    if ok:
        S.ok('SUM-CLONE', 'enum', {'handler': fn.qname})


def custom_flag_ok(S, flagterm):
    """`let mut has_custom = false;` set to true exactly under `field_attribute.method.is_some()` for every field of every variant"""
    d = S.tm.def_by_id(flagterm[1])
    if d is None or d.init is None or es(d.init) != 'false' or not d.assigns:
        return False
    for a in d.assigns:
        if es(a.value) != 'true':
            return False
        # second-phase loops over collections filled in the field loops count as those loops (the push-site conditions are spliced in)
        atoms = S.facts.atoms(S.facts.effective_ctx(a.ctx, S.fw), S.fw)
        la, lk = S.field_loop(atoms)
        if la is None or lk != 'variant':
            return False
        meth = [p for p in (S.attr_atom(x, la[1], 'method') for x in atoms) if p is not None]
        extra = [x for x in atoms_after_loop(atoms, la[1]) if S.attr_atom(x, la[1], 'method') is None and x[0] not in ('cfg', 'via')]
        if meth != [True] or extra:
            return False
    return True


def check_clone_arm(S, a, V, sh):
    arms = a.ast if a.cat == 'arms' else None
    if not arms or len(arms) != 1 or arms[0].get('guard') is not None:
        S.bad('SUM-CLONE', 'clone-arm-%s' % sh, 'arm template is not a single unguarded arm', a)
        return False
    arm = arms[0]
    pm = pattern_model(S, a, arm['pat'], 'self')
    if pm is None or pm.variant_term != ('field', ('elem', V), 'ident') or pm.problems:
        S.bad('SUM-CLONE', 'clone-arm-%s-pattern' % sh, 'the arm pattern is not `Self::<this variant> ..`', a)
        return False
    e = arm['body']

    def same_variant(path):
        return len(path['segs']) == 2 and path['segs'][0]['id'] == 'Self' and is_marker(path['segs'][1]['id']) and S.hole_term(a, marker_name(path['segs'][1]['id'])) == pm.variant_term
    if sh == 'Unit':
        if not (e['k'] == 'Path' and same_variant(e['path'])):
            S.bad('SUM-CLONE', 'clone-arm-Unit', 'a unit variant must clone to the same variant', a)
            return False
        return True
    ok = pattern_once(S, pm, 'SUM-CLONE', 'clone-arm-%s' % sh)
    if sh == 'Named':
        if not (e['k'] == 'Struct' and same_variant(e['path']) and len(e['fields']) == 1 and e['fields'][0]['shorthand'] and is_marker(e['fields'][0]['member']) and not e.get('rest')):
            S.bad('SUM-CLONE', 'clone-arm-Named', 'a named variant must clone to `Self::<same variant> { <one initialiser per field> }`', a)
            return False
        r, _ = field_init_sites(S, a, marker_name(e['fields'][0]['member']), 'clone-arm-Named', 'variant', True, binder_resolver(S, [pm]))
        return r and ok
    if not (e['k'] == 'Call' and e['func']['k'] == 'Path' and same_variant(e['func']['path']) and len(e['args']) == 1 and marker_of_expr(e['args'][0])):
        S.bad('SUM-CLONE', 'clone-arm-Unnamed', 'a tuple variant must clone to `Self::<same variant>(<one initialiser per field>)`', a)
        return False
    r, _ = field_init_sites(S, a, marker_of_expr(e['args'][0]), 'clone-arm-Unnamed', 'variant', False, binder_resolver(S, [pm]))
    return r and ok


def check_clone_from_arm(S, a, V, sh):
    arms = a.ast if a.cat == 'arms' else None
    if not arms or len(arms) != 1 or arms[0].get('guard') is not None:
        S.bad('SUM-CLONE', 'clone_from-arm-%s' % sh, 'arm template is not a single unguarded arm', a)
        return False
    arm = arms[0]
    pdst = pattern_model(S, a, arm['pat'], 'self')
    if pdst is None or pdst.variant_term != ('field', ('elem', V), 'ident') or pdst.problems:
        S.bad('SUM-CLONE', 'clone_from-arm-%s-pattern' % sh, 'the arm pattern is not `Self::<this variant> ..`', a)
        return False
    body = block_stmts(arm['body'])
    if len(body) != 1 or body[0]['k'] != 'Expr' or body[0]['expr']['k'] != 'If' or body[0]['expr']['cond']['k'] != 'Let':
        S.bad('SUM-CLONE', 'clone_from-arm-%s-body' % sh, 'the arm body is not `if let Self::V .. = source { .. } else { *self = clone(source) }`', a)
        return False
    iff = body[0]['expr']
    if es(iff['cond']['expr']) != 'source':
        S.bad('SUM-CLONE', 'clone_from-arm-%s-scrutinee' % sh, 'the inner pattern is matched against `%s`, not `source`' % es(iff['cond']['expr']), a)
        return False
    psrc = pattern_model(S, a, iff['cond']['pat'], 'source')
    if psrc is None or psrc.variant_term != pdst.variant_term or psrc.problems:
        S.bad('SUM-CLONE', 'clone_from-arm-%s-src-pattern' % sh, 'the `source` pattern does not name the same variant', a)
        return False
    el = iff.get('else')
    els = block_stmts(el) if el is not None else []
    okelse = (len(els) == 1 and els[0]['k'] == 'Expr' and els[0]['expr']['k'] == 'Assign' and es(els[0]['expr']['l_']) == '*self'
              and call_op(els[0]['expr']['r_']) == ('builtin', CLONE, els[0]['expr']['r_']['args']) and [es(x) for x in els[0]['expr']['r_']['args']] == ['source'])
    if not okelse:
        S.bad('SUM-CLONE', 'clone_from-arm-%s-else' % sh, 'for a different variant the destination is not replaced by `::core::clone::Clone::clone(source)`', a)
        return False
    then = iff['then']['stmts']
    if sh == 'Unit':
        if then:
            S.bad('SUM-CLONE', 'clone_from-arm-Unit', 'statements in a unit arm', a)
            return False
        return True
    ms = marker_stmts(then)
    if len(ms) != len(then) or len(ms) != 1:
        S.bad('SUM-CLONE', 'clone_from-arm-%s-then' % sh, 'the same-variant branch is not exactly the per-field statements', a)
        return False
    ok = pattern_once(S, pdst, 'SUM-CLONE', 'clone_from-arm-%s-dst' % sh) and pattern_once(S, psrc, 'SUM-CLONE', 'clone_from-arm-%s-src' % sh)
    sites = S.kids(a, ms[0][1])
    bdst = binder_resolver(S, [pdst])
    bsrc = binder_resolver(S, [psrc])

    def dst_res(s, e, form, L):
        if form == 'assign':
            acc = access(e)
            if acc is None or acc[0] != 'deref-var':
                return 'the assignment target `%s` is not `*<destination binder>`' % es(e)[:40]
            from ..syn import parse
            fake = {'k': 'Path', 'path': {'segs': [{'id': MARK + acc[1]}], 's': MARK + acc[1], 'global': False}}
            return bdst(s, fake, 0, L)
        return bdst(s, e, 0, L)

    def src_res(s, e, L):
        return bsrc(s, e, 0, L)
    return clone_from_sites(S, sites, 'clone_from-arm-%s' % sh, 'variant', dst_res, src_res, True) and ok


def check_union(cx, fn, rep, facts):
    S = Summ(cx, fn, rep, facts)
    h = header(S)
    if h is None:
        return
    site, impl, f = h
    st = f['block']['stmts']
    if not (len(st) == 1 and st[0]['k'] == 'Expr' and not st[0]['semi'] and es(st[0]['expr']) == '*self') or len(impl['items']) != 1:
        S.bad('SUM-CLONE', 'union', 'a union must clone by bitwise copy (`*self`) and nothing else', site)
        return
    if check_copy_companion(S):
        S.ok('SUM-CLONE', 'union', {'handler': fn.qname, 'body': '*self'})


def run(cx, tier='quick'):
    rep = Report('C07')
    rep.explanation.append(
        'SUM-CLONE: semantic summary of the generated clone / clone_from of the Clone struct, enum and union handlers: same-shape / '
        'same-variant constructor with exactly one CLONE(<that field of self>) per field in place (method iff given); clone_from with '
        'destination from the self pattern and source from the source pattern of that same field, fallback `*self = clone(source)`; '
        '`*self` exactly when Copy is educed and no custom method is used; Copy companion iff Copy educed.')
    facts = Facts(cx)
    n = 0
    for t, sh, fn in cx.shape_handlers():
        if t == 'Clone' and sh in ('struct', 'enum', 'union'):
            n += 1
            if sh == 'struct':
                check_struct(cx, fn, rep, facts)
            elif sh == 'enum':
                check_enum(cx, fn, rep, facts)
            elif sh == 'union':
                check_union(cx, fn, rep, facts)
    if n != 3:
        rep.broken.append('expected the Clone struct, enum and union handlers, found %d' % n)
    from .c13 import include_own_scanners
    include_own_scanners(cx, facts, rep, ['::clone::'])
    from .helpers import check_ident_or_index
    check_ident_or_index(cx, rep)
    from .scope import check_scopes
    check_scopes(cx, rep, ['::clone::'])
    rep.floor('SUM-CLONE', 15)
    rep.assumptions += ['`*self` of a Copy type is a bitwise copy', 'semantics of match / if let / struct expressions']
    rep.not_decided += ['behaviour of user-supplied clone methods']
    from .binders import check_binder_injectivity
    check_binder_injectivity(cx, rep, ['::clone::'])
    from .c13 import include_own_parsers as _iop
    from ..facts import Facts as _Fp
    _iop(cx, _Fp(cx), rep, ['::clone::', '::copy::'])
    # the impl headers of this trait's own templates (generics, where-clause, ::core trait path): HDR
    from .c12 import check_headers as _chk_hdr
    _chk_hdr(cx, rep, ['::clone::', '::copy::'])
    from .own import include_generic_rules as _igr
    _igr(cx, rep, ['::clone::', '::copy::'])
    return rep
