"""C05 — Hash input is a function of the variant and non-ignored fields only.

SUM-HASH (generated-code model of the Hash struct and enum handlers):
  * struct body = for every field, in declaration order, exactly one `HASH(&self.f, state);` iff the field is not ignored;
    HASH = the field's own method iff given, else ::core::hash::Hash::hash; second argument is the `state` parameter;
  * enum: one arm per variant; every arm starts with `::core::hash::Hash::hash(&<variant index>, state);` where the index is
    the enumerate index of the variants loop (injective per variant), followed by the field statements over the arm's own
    pattern binders (one pattern element per field);
  * `state` is used nowhere else; nothing else is fed to the hasher.
Consequence (lemma): with the same ignore/method choices as PartialEq (C02), a == b ⇒ identical feed.
"""
from ..report import Report
from ..syn import es, pat_s, ty_s
from ..terms import term_s
from ..summ import (Summ, access, call_parts, block_stmts, marker_stmts, marker_of_pat, marker_of_stmt, pattern_model, pattern_once,
                    FieldStmts, struct_member_resolver, binder_resolver, variant_arms)
from ..facts import Facts, atom_s
from ..genast import is_marker, marker_name, visit

HASH = '::core::hash::Hash::hash'


def hash_call(stmt):
    if stmt['k'] != 'Expr' or not stmt['semi']:
        return 'not a `HASH(value, state);` statement'
    cp = call_parts(stmt['expr'])
    if cp is None or len(cp[2]) != 2:
        return 'not a two-argument hash call'
    kind, callee, args = cp
    return [('method' if kind == 'hole' else 'builtin', callee, args)]


def state_resolver(inner):
    def resolver(s, e, i, L):
        if i == 1:
            a = access(e)
            if a == ('name', 'state', 0, False):
                return True
            return '`%s` is not the `state` parameter' % es(e)[:40]
        return inner(s, e, 0, L)
    return resolver


def header(S):
    impls = [(s, it) for s, it in S.impl_of('::core::hash::Hash') if not S.atoms(s)]
    if len(impls) != 1:
        S.bad('SUM-HASH', 'impl', 'expected exactly one unconditional `impl ::core::hash::Hash`, found %d' % len(impls))
        return None
    site, impl = impls[0]
    fns = S.fns_of(impl)
    if len(fns) != 1 or fns[0]['sig']['name'] != 'hash':
        S.bad('SUM-HASH', 'impl-fns', 'the impl must define exactly `fn hash` (found %s)' % [f['sig']['name'] for f in fns], site)
        return None
    f = fns[0]
    sig = f['sig']
    g = sig['generics']['params']
    ins = sig['inputs']
    ok = (len(g) == 1 and g[0]['k'] == 'Type' and len(g[0]['bounds']) == 1 and g[0]['bounds'][0]['path']['s'] == '::core::hash::Hasher'
          and len(ins) == 2 and ins[0]['k'] == 'Self' and ins[0]['ref'] and not ins[0]['mut'] and ins[1]['k'] == 'Typed'
          and ins[1]['pat'].get('name') == 'state' and ins[1]['ty']['k'] == 'Ref' and ins[1]['ty']['mut']
          and ins[1]['ty']['elem']['k'] == 'Path' and ins[1]['ty']['elem']['path']['s'] == g[0]['name'] and sig['output'] is None)
    if not ok:
        S.bad('SUM-HASH', 'signature', 'unexpected signature of fn hash', site)
        return None
    return site, f


def count_state_uses(S, root):
    """every use of `state` in the composed body must be argument 2 of a hash call"""
    n_use = 0
    n_arg = 0
    for s in S.sites:
        r = s
        while r.parent is not None:
            r = r.parent
        if r is not root or s.ast is None:
            continue

        def cb(role, node, extra):
            nonlocal n_use, n_arg
            if role == 'path' and extra == 'expr' and node['s'] == 'state':
                n_use += 1
            if role == 'call' and len(node['args']) == 2:
                a = access(node['args'][1])
                if a == ('name', 'state', 0, False):
                    n_arg += 1
        visit(s.ast, s.cat, cb)
    return n_use, n_arg


def check_struct(cx, fn, rep, facts):
    S = Summ(cx, fn, rep, facts)
    h = header(S)
    if h is None:
        return
    site, f = h
    st = f['block']['stmts']
    ms = marker_stmts(st)
    if len(ms) != len(st):
        S.bad('SUM-HASH', 'body', 'the body contains fixed statements besides the per-field feeds', site)
        return
    sites = []
    for _, hname in ms:
        sites += S.kids(site, hname)
    fs = FieldStmts(S, 'SUM-HASH')

    def match_stmt(s):
        st = s.ast if s.cat == 'stmts' else None
        if st is None or len(st) != 1:
            return 'a per-field emission is not a single statement'
        return hash_call(st[0])
    ok = fs.run(sites, 'struct', 'struct', match_stmt, state_resolver(struct_member_resolver(S, [('self', 1, False)])), builtin_for={HASH})
    u, a = count_state_uses(S, site)
    if u != a:
        S.bad('SUM-HASH', 'state-use', '`state` is used %d times of which only %d as the hasher argument of a feed' % (u, a), site)
        ok = False
    if ok:
        S.ok('SUM-HASH', 'struct', {'handler': fn.qname, 'statement': sites[0].tmpl.text()[:120]})


def check_enum(cx, fn, rep, facts):
    S = Summ(cx, fn, rep, facts)
    h = header(S)
    if h is None:
        return
    site, f = h
    st = f['block']['stmts']
    ms = marker_stmts(st)
    if len(ms) != len(st) or len(ms) != 1:
        S.bad('SUM-HASH', 'enum-body', 'the body is not the composed `match self`', site)
        return
    bodies = S.kids(site, ms[0][1])
    if len(bodies) != 1:
        S.bad('SUM-HASH', 'enum-body-sites', 'expected one `match self { #arms }` emission, found %d' % len(bodies), site)
        return
    b = bodies[0]
    g = [a_ for a_ in S.atoms(b) if not (a_[0] == 'data' and a_[1] == 'Enum' and a_[2] is True)]
    if not (len(g) == 1 and __import__('sa.emptiness', fromlist=['nonempty_evidence']).nonempty_evidence(g, S.cx, S.fw)):
        S.bad('SUM-HASH', 'enum-match-guard', 'the `match self` is emitted under %s' % [atom_s(a) for a in g], b)
        return
    e = b.ast[0]['expr'] if b.cat == 'stmts' and len(b.ast) == 1 and b.ast[0]['k'] == 'Expr' else None
    if e is None or e['k'] != 'Match' or es(e['expr']) != 'self' or len(e['arms']) != 1 or marker_of_pat(e['arms'][0]['pat']) is None:
        S.bad('SUM-HASH', 'enum-match', 'the body is not `match self { #arms }`', b)
        return
    by_shape = variant_arms(S, 'SUM-HASH', b, marker_of_pat(e['arms'][0]['pat']))
    if by_shape is None:
        return
    allok = True
    for sh, lst in by_shape.items():
        a, V = lst[0]
        arms = a.ast if a.cat == 'arms' else None
        if not arms or len(arms) != 1 or arms[0].get('guard') is not None:
            S.bad('SUM-HASH', 'arm-%s' % sh, 'arm template is not a single unguarded arm', a)
            allok = False
            continue
        arm = arms[0]
        pm = pattern_model(S, a, arm['pat'], 'self')
        if pm is None or pm.variant_term != ('field', ('elem', V), 'ident') or pm.problems:
            S.bad('SUM-HASH', 'arm-%s-pattern' % sh, 'the arm pattern is not `Self::<this variant> ..`', a)
            allok = False
            continue
        body = block_stmts(arm['body'])
        # first statement: the variant index
        if not body:
            S.bad('SUM-HASH', 'arm-%s-index' % sh, 'the variant is not fed to the hasher', a)
            allok = False
            continue
        first = hash_call(body[0])
        okidx = False
        if not isinstance(first, str):
            kind, callee, args = first[0]
            if kind == 'builtin' and callee == HASH and access(args[1]) == ('name', 'state', 0, False):
                a0 = access(args[0])
                if a0 is not None and a0[0] == 'var' and a0[2] == 1:
                    it = S.hole_term(a, a0[1])
                    vl = S.variant_loop(S.atoms(a))
                    if it == ('idx', V) and vl is not None and vl[3]:
                        okidx = True
        if not okidx:
            S.bad('SUM-HASH', 'arm-%s-index' % sh, 'the arm does not start with `::core::hash::Hash::hash(&<index of this variant in the variants loop>, state);`', a)
            allok = False
            continue
        rest = body[1:]
        if sh == 'Unit':
            if rest:
                S.bad('SUM-HASH', 'arm-Unit-rest', 'a unit variant feeds more than its index', a)
                allok = False
            continue
        ms2 = marker_stmts(rest)
        if len(ms2) != len(rest) or len(ms2) != 1:
            S.bad('SUM-HASH', 'arm-%s-rest' % sh, 'after the index the arm is not exactly the per-field feeds', a)
            allok = False
            continue
        expkind = {'Named': 'named', 'Unnamed': 'tuple'}[sh]
        if pm.kind != expkind:
            S.bad('SUM-HASH', 'arm-%s-pattern-kind' % sh, 'pattern kind %s does not fit a %s variant' % (pm.kind, sh), a)
            allok = False
            continue
        ok = pattern_once(S, pm, 'SUM-HASH', 'arm-%s' % sh)
        sites = S.kids(a, ms2[0][1])
        fs = FieldStmts(S, 'SUM-HASH')

        def match_stmt(s):
            st = s.ast if s.cat == 'stmts' else None
            if st is None or len(st) != 1:
                return 'a per-field emission is not a single statement'
            return hash_call(st[0])
        ok = fs.run(sites, 'arm-%s' % sh, 'variant', match_stmt, state_resolver(binder_resolver(S, [pm])), builtin_for={HASH}) and ok
        allok = allok and ok
    u, a_ = count_state_uses(S, site)
    if u != a_:
        S.bad('SUM-HASH', 'state-use', '`state` is used %d times of which only %d as the hasher argument of a feed' % (u, a_), site)
        allok = False
    if allok:
        S.ok('SUM-HASH', 'enum', {'handler': fn.qname, 'arms': {sh: lst[0][0].tmpl.text()[:100] for sh, lst in by_shape.items()}})


def run(cx, tier='quick'):
    rep = Report('C05')
    rep.explanation.append(
        'SUM-HASH: semantic summary of the generated `hash` of the Hash struct and enum handlers: exactly one feed per non-ignored '
        'field in declaration order (method iff given, else Hash::hash) into the `state` parameter; every enum arm first feeds the '
        'enumerate index of its variant; one pattern element per field; `state` used nowhere else. The a==b ⇒ same-feed consequence '
        'follows from SUM-EQ ∧ SUM-HASH under equal ignore/method choices (lemma).')
    facts = Facts(cx)
    n = 0
    for t, sh, fn in cx.shape_handlers():
        if t == 'Hash' and sh == 'struct':
            check_struct(cx, fn, rep, facts)
            n += 1
        elif t == 'Hash' and sh == 'enum':
            check_enum(cx, fn, rep, facts)
            n += 1
    if n != 2:
        rep.broken.append('expected the Hash struct and enum handlers, found %d' % n)
    from .c13 import include_own_scanners
    include_own_scanners(cx, facts, rep, ['::hash::'])
    from .helpers import check_ident_or_index
    check_ident_or_index(cx, rep)
    from .scope import check_scopes
    check_scopes(cx, rep, ['::hash::'])
    rep.floor('SUM-HASH', 2)
    rep.assumptions += ['::core::hash::Hash::hash of usize/fields feeds data determined by the value', 'union Hash (byte-wise, `unsafe`-gated) is specified by C20; its summary is evaluated here as well']
    # the union generator of this trait (byte-wise, SUM-UNION of C20) is part of this trait's derive too
    from . import c20 as _c20
    from ..facts import Facts as _Fu
    _c20.check_hash(cx, rep, _Fu(cx))
    rep.not_decided += ['whether a user field type\'s Hash distinguishes values (premise of the property)']
    from .binders import check_binder_injectivity
    check_binder_injectivity(cx, rep, ['::hash::'])
    from .c13 import include_own_parsers as _iop
    from ..facts import Facts as _Fp
    _iop(cx, _Fp(cx), rep, ['::hash::'])
    # the impl headers of this trait's own templates (generics, where-clause, ::core trait path): HDR
    from .c12 import check_headers as _chk_hdr
    _chk_hdr(cx, rep, ['::hash::'])
    from .own import include_generic_rules as _igr
    _igr(cx, rep, ['::hash::'])
    return rep
