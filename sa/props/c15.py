"""C15 — each trait's impl depends only on that trait's own attributes.

  DISP        lib.rs hands handler X exactly the metas stored under Trait::X (key ↔ module ↔ feature agree), unconditionally and
              independently of the other traits; the map key of a meta is the trait named by that meta.
  MODELS-OWN  inside trait_handlers/X/ every attribute builder resolves into X's own `models` module.
  SCAN        X's scanners hand only X's metas (or the documented synonym's) to X's parameter parser (shared with C13).
  IMPORTS     code under trait_handlers/X/ references no other trait's module.
  ATTRS-READ  `.attrs` is read only as the subject of X's own scanners (and by lib.rs's type-level loop).
  TRAITS-USE  the set of educed traits is only tested with `.contains(&Trait::Y)` for the documented partner Y of X (Copy↔Clone,
              Eq↔PartialEq, PartialOrd↔Ord) or by the scanners' generic `!traits.contains(&t)` validation, or passed on unchanged.
"""
from ..report import Report
from ..syn import es, pat_s, walk_json
from ..terms import term_s, subterms, strip_refs
from ..walk import ctx_s
from ..facts import Facts, atom_s
from ..cx import TRAIT_DIRS
from ..model import cfgs_of_attrs
from ..callgraph import CallGraph

PARTNERS = {('Clone', 'Copy'), ('Copy', 'Clone'), ('PartialEq', 'Eq'), ('Eq', 'PartialEq'), ('Ord', 'PartialOrd'), ('PartialOrd', 'Ord')}


def run(cx, tier='quick'):
    rep = Report('C15')
    rep.explanation.append(
        'Who-may-read / who-may-call rules over the resolved source model: dispatch agreement in lib.rs (DISP), builders resolve into '
        'the handler\'s own models module (MODELS-OWN), scanners filter by own trait (SCAN, shared with C13), no cross-trait module '
        'references (IMPORTS), `.attrs` read only through own scanners (ATTRS-READ), the educed-trait set influences a handler only '
        'through the three documented couplings (TRAITS-USE).')
    facts = Facts(cx)
    check_disp(cx, facts, rep)
    check_models_own(cx, facts, rep)
    from .c13 import check_scanners
    check_scanners(cx, facts, rep)
    check_imports(cx, rep)
    check_attrs_read(cx, rep)
    check_traits_use(cx, facts, rep)
    rep.floor('DISP', 12)
    rep.floor('MODELS-OWN', 80)
    rep.floor('IMPORTS', 60)
    rep.floor('TRAITS-USE', 100)
    rep.floor('ATTRS-READ', 60)
    rep.not_decided += []
    rep.assumptions += ['the three couplings Copy/Clone, Eq/PartialEq, PartialOrd/Ord are the documented ones']
    from .dispatch import check_shape_dispatch
    check_shape_dispatch(cx, rep, None)
    from .dispatch import check_output_append
    check_output_append(cx, rep, None)
    # the type-level registration must visit every meta of every #[educe(..)] attribute: a loop that is left early makes one
    # trait's presence depend on another's (MERGE rule of C14)
    from .c14 import check_merge as _check_merge
    from ..facts import Facts as _F2
    from ..report import Report as _R2
    sub = _R2('C15')
    _check_merge(cx, _F2(cx), sub)
    for fnd in sub.findings:
        if fnd.rule == 'MERGE' and not any(x.key == fnd.key for x in rep.findings):
            rep.findings.append(fnd)
    for r_, i_, v_ in sub.checked:
        if r_ == 'MERGE':
            rep.checked.append((r_, i_, v_))
            rep.counts[r_] = rep.counts.get(r_, 0) + 1
    return rep


def dispatch_blocks(cx):
    """[(trait key, cfg feats, call event, get-event ctx)] from derive_input_handler"""
    fn = [f for f in cx.crate.fns if f.name == 'derive_input_handler']
    if not fn:
        return None, []
    fn = fn[0]
    fw = cx.fw(fn)
    tm = cx.gm.terms_of(fw)
    out = []
    for ev in fw.events:
        if ev.kind == 'call' and ev.path and ev.path.endswith('::trait_meta_handler'):
            out.append(ev)
    return fn, out


def check_disp(cx, facts, rep):
    fn, calls = dispatch_blocks(cx)
    if fn is None:
        rep.broken.append('derive_input_handler not found')
        return
    fw = cx.fw(fn)
    tm = cx.gm.terms_of(fw)
    where = fn.qname
    seen = set()
    for ev in calls:
        segs = ev.path.split('::')
        # module of the handler
        res = cx.crate.resolve(fn.module, segs[:-1])
        mod_trait = None
        if res[0] == 'crate' and len(res[1]) >= 2 and res[1][0] == 'trait_handlers':
            for t, d in TRAIT_DIRS.items():
                if d == res[1][1]:
                    mod_trait = t
        inst = 'dispatch=%s' % (mod_trait or ev.path)
        if mod_trait is None:
            rep.bad('DISP', where, inst, 'dispatch call `%s` does not resolve into trait_handlers/<trait>' % ev.path, fn.file, ev.line)
            continue
        seen.add(mod_trait)
        at = facts.atoms(ev.ctx, fw)
        # context must be exactly: cfg(feature = X) + `if let Some(meta) = trait_meta_map.get(&Trait::X)`
        keys = [a for a in at if a[0] == 'some' and a[2] is True and isinstance(a[1], tuple) and a[1][0] == 'mcall' and a[1][2] == 'get']
        cfgs = [a for a in at if a[0] == 'cfg']
        others = [a for a in at if a not in keys and a not in cfgs]
        okkey = len(keys) == 1 and keys[0][1][3] == ('path', 'Trait::' + mod_trait)
        okcfg = [c[1] for c in cfgs] == [str(('feat', mod_trait))]
        if not okkey:
            rep.bad('DISP', where, inst + '-key', 'the %s handler is fed from `%s`, not from the metas stored under Trait::%s' % (mod_trait, term_s(keys[0][1]) if keys else '?', mod_trait), fn.file, ev.line)
            continue
        if not okcfg:
            rep.bad('DISP', where, inst + '-cfg', 'dispatch of %s is gated by %s instead of feature "%s"' % (mod_trait, [c[1] for c in cfgs], mod_trait), fn.file, ev.line)
            continue
        if others:
            rep.bad('DISP', where, inst + '-conditional', 'dispatch of %s additionally depends on %s: another trait or condition influences whether it runs' % (mod_trait, [atom_s(a) for a in others]), fn.file, ev.line)
            continue
        # arguments
        args = [tm.term(a, ev.scope) for a in ev.args]
        mapget = keys[0][1]
        meta_t = ('some_of', mapget)
        exp_meta = meta_t if mod_trait == 'Into' else ('index', meta_t, ('lit', 'Int', '0'))
        a1 = strip_refs(ev.args[1]) if len(ev.args) > 1 else None
        acc_ok = a1 is not None and a1['k'] == 'Path' and cx.gm.is_acc_def(ev.scope.lookup(a1['path']['s']), fw) and not any(c['k'] in ('for', 'if', 'iflet', 'arm') for c in ev.scope.lookup(a1['path']['s']).ctx)
        okargs = len(args) == 4 and args[0] == ('param', 'ast') and acc_ok \
            and isinstance(args[2], tuple) and args[2][0] == 'mcall' and args[2][2] == 'collect' and args[3] == exp_meta
        if not okargs:
            rep.bad('DISP', where, inst + '-args', 'the %s handler is not called with (&ast, &mut token_stream, &traits, %s of its own metas): %s' % (
                mod_trait, 'all' if mod_trait == 'Into' else 'the first', [term_s(a, 60) for a in args]), fn.file, ev.line)
            continue
        # result propagated with `?`
        rep.ok('DISP', '%s|%s' % (where, inst), {'file': fn.file, 'line': ev.line, 'trait': mod_trait, 'key': 'Trait::' + mod_trait, 'cfg': mod_trait})
    for t in TRAIT_DIRS:
        if t not in seen:
            rep.bad('DISP', where, 'dispatch=%s-missing' % t, 'no dispatch block for %s' % t, fn.file, fn.line)
    # the key under which a meta is stored is the trait named by that same meta
    from ..metafacts import MetaFacts
    mf = MetaFacts(cx, CallGraph(cx))
    maps = [d for d in fw.defs if d.name == 'trait_meta_map']
    if maps and mf.map_keys_are_from_path(('var', maps[0].id, 'trait_meta_map'), fw):
        rep.ok('DISP', where + '|map-key-is-own-trait')
    else:
        rep.bad('DISP', where, 'map-key', 'a meta may be stored under a key that is not Trait::from_path of its own path', fn.file, fn.line)
    # from_path table: "X" ↔ Self::X under cfg(feature = "X")
    from .traitenum import from_path_model
    fm = from_path_model(cx)
    if fm is None:
        rep.broken.append('Trait::from_path not found')
    else:
        form, table, any_ = fm
        f = [g for g in cx.crate.fns if g.qname.endswith('supported_traits::Trait::from_path')][0]
        n = 0
        for name, (variant, cf) in sorted(table.items()):
            n += 1
            if variant != name or cf != [('feat', name)]:
                rep.bad('DISP', f.qname, 'from_path=%s' % name, 'the name "%s" maps to `%s` under cfg %s' % (name, variant, cf), f.file, f.line)
            else:
                rep.ok('DISP', '%s|"%s"' % (f.qname, name))
        if n < 12 or any_:
            rep.bad('DISP', f.qname, 'from_path-arms', 'only %d trait names are recognised by an enumerable table (%s form)' % (n, form), f.file, f.line)


def check_models_own(cx, facts, rep):
    from .c13_flags import builder_sites
    for s in builder_sites(cx):
        ht = cx.trait_of_module(s.fn.module)
        inst = 'builder@%s' % s.position
        if s.trait == ht:
            rep.ok('MODELS-OWN', '%s|%s|%d' % (s.fn.qname, inst, s.ev.seq % 1000))
        else:
            rep.bad('MODELS-OWN', s.fn.qname, inst + '=%s' % s.trait,
                    'a handler of %s reads attributes through the models of %s: it would be configured by the other trait\'s attributes' % (ht, s.trait), s.fn.file, s.ev.line)


def check_imports(cx, rep):
    """every path in trait_handlers/X/** that resolves into trait_handlers/Y/** with Y != X"""
    for mp, m in cx.crate.modules.items():
        if len(mp) < 2 or mp[0] != 'trait_handlers':
            continue
        X = mp[1]
        bad = 0
        n = 0
        # `use` declarations
        for name, lst in m.uses.items():
            for path, cfg, it in lst:
                n += 1
                r = cx.crate.resolve(m, list(path))
                if r[0] == 'crate' and len(r[1]) >= 2 and r[1][0] == 'trait_handlers' and r[1][1] != X and r[1][1] in TRAIT_DIRS.values():
                    rep.bad('IMPORTS', '::'.join(mp), 'use=%s' % '::'.join(path), 'imports from another trait\'s module `%s`' % '::'.join(r[1]), m.file, it['l'])
                    bad += 1
        # paths in function bodies
        for f in cx.crate.fns:
            if f.module is not m:
                continue
            for node in walk_json(f.item):
                if isinstance(node, dict) and 'segs' in node and 'global' in node and len(node['segs']) >= 2:
                    segs = [s['id'] for s in node['segs']]
                    if segs[0] in ('crate', 'super', 'self'):
                        n += 1
                        r = cx.crate.resolve(m, segs)
                        if r[0] == 'crate' and len(r[1]) >= 2 and r[1][0] == 'trait_handlers' and r[1][1] != X and r[1][1] in TRAIT_DIRS.values():
                            rep.bad('IMPORTS', f.qname, 'path=%s' % '::'.join(segs), 'references another trait\'s module `%s`' % '::'.join(r[1]), f.file, node.get('l'))
                            bad += 1
        if not bad:
            rep.ok('IMPORTS', '%s|%d paths' % ('::'.join(mp), n))


def check_attrs_read(cx, rep):
    from ..inline import origin_chains
    for f in cx.crate.fns:
        if id(f) in getattr(cx.crate, 'fully_inlined', ()):
            continue        # every call of this private helper is analysed as part of its caller (sa/inline.py)
        fw = cx.fw(f)
        chains = origin_chains(f)
        reads = []
        for node in walk_json(f.block):
            if isinstance(node, dict) and node.get('k') == 'Field' and node.get('member') == 'attrs':
                reads.append(node)
        if not reads:
            continue
        # allowed: argument 0 of a build_from_attributes call; lib.rs type-level loop over ast.attrs
        allowed = set()
        for ev in fw.events:
            if ev.kind == 'mcall' and ev.method == 'build_from_attributes' and ev.args:
                a = strip_refs(ev.args[0])
                allowed.add(id(a))
        for r in reads:
            inst = 'read=%s' % es(r)
            if id(r) in allowed:
                rep.ok('ATTRS-READ', '%s|%s|%s' % (f.qname, inst, r.get('l')))
            elif (f.name == 'derive_input_handler' or any(q.split('::')[-1] == 'derive_input_handler' for q in chains.get(id(r), ()))) and es(r) == 'ast.attrs':
                rep.ok('ATTRS-READ', '%s|%s|type-level loop' % (f.qname, inst))
            else:
                rep.bad('ATTRS-READ', f.qname, inst, 'attributes are read outside a trait\'s own scanner: `%s`' % es(r), f.file, r.get('l'))


def check_traits_use(cx, facts, rep):
    cg = CallGraph(cx)
    for f in cx.crate.fns:
        fw = cx.fw(f)
        pd = [d for d in fw.param_defs if d.name == 'traits']
        # what a scanner is told is the educed set: the set this function received, not one made up on the spot (with a narrower set
        # the scanner refuses the attributes of the other educed traits as "not used": their presence breaks this trait's derive)
        for ev in fw.events:
            if ev.kind == 'mcall' and ev.method == 'build_from_attributes' and len(ev.args) >= 2 and f.name != 'build_from_attributes':
                x = strip_refs(ev.args[1])
                cd = ev.scope.lookup(x['path']['s']) if x['k'] == 'Path' and len(x['path']['segs']) == 1 else None
                if cd is not None and cd.kind == 'param' and any(cd is d_ for d_ in fw.param_defs):
                    rep.ok('TRAITS-USE', '%s|scanner-told-educed-set|%d' % (f.qname, len([e_ for e_ in fw.events if e_.kind == 'mcall' and e_.method == 'build_from_attributes' and e_.seq <= ev.seq])))
                else:
                    rep.bad('TRAITS-USE', f.qname, 'scanner-traits-arg', 'the scanner is not given the educed-trait set this function received but `%s`%s: attributes of the traits missing from it are refused as "not used", so another trait\'s attribute breaks this one' % (
                        es(ev.args[1])[:40], (' (a local defined at line %s)' % cd.line) if cd is not None and cd.kind != 'param' else ''), f.file, ev.line)
        if not pd and f.name != 'derive_input_handler' and f.name != 'supertraits':
            continue
        X = cx.trait_of_module(f.module)
        for ev in fw.events:
            if ev.kind == 'use' and len(ev.node['path']['segs']) == 1 and ev.node['path']['s'] == 'traits':
                pass
        uses_total = len([ev for ev in fw.events if ev.kind == 'use' and ev.node['path']['s'] == 'traits' and len(ev.node['path']['segs']) == 1])
        accounted = 0
        for ev in fw.events:
            if ev.kind == 'mcall':
                r = strip_refs(ev.recv)
                if r['k'] == 'Path' and r['path']['s'] == 'traits':
                    accounted += 1
                    if ev.method != 'contains' or len(ev.args) != 1:
                        rep.bad('TRAITS-USE', f.qname, 'traits.%s' % ev.method, 'the educed-trait set is used with `.%s(..)`' % ev.method, f.file, ev.line)
                        continue
                    a = strip_refs(ev.args[0])
                    if a['k'] == 'Path' and a['path']['s'].startswith('Trait::'):
                        Y = a['path']['s'].split('::')[-1]
                        if (X, Y) in PARTNERS:
                            rep.ok('TRAITS-USE', '%s|contains(%s)' % (f.qname, Y))
                        else:
                            rep.bad('TRAITS-USE', f.qname, 'contains=%s' % Y,
                                    'code of %s tests whether %s is educed: outside the documented couplings, another trait influences this one' % (X, Y), f.file, ev.line)
                    elif a['k'] == 'Path' and len(a['path']['segs']) == 1:
                        # generic validation `!traits.contains(&t)`
                        at = facts.atoms(ev.ctx, fw)
                        rep.ok('TRAITS-USE', '%s|contains(t)-validation' % f.qname)
                    else:
                        rep.bad('TRAITS-USE', f.qname, 'contains=?', 'unrecognised membership test `%s`' % es(ev.node), f.file, ev.line)
            if ev.kind in ('mcall', 'call'):
                for a in ev.args:
                    x = strip_refs(a)
                    if x['k'] == 'Path' and len(x['path']['segs']) == 1 and x['path']['s'] == 'traits':
                        accounted += 1
                        callees = cg.resolve_mcall(fw, ev) if ev.kind == 'mcall' else cg.resolve_call(fw, ev)
                        if callees:
                            rep.ok('TRAITS-USE', '%s|passed-to-%s' % (f.qname, callees[0].qname.split('::')[-1]))
                        else:
                            rep.bad('TRAITS-USE', f.qname, 'passed=%s' % es(ev.node)[:50], 'the educed-trait set is passed to a non-crate function', f.file, ev.line)
            if ev.kind == 'let' and ev.init is not None:
                x = strip_refs(ev.init)
                if x['k'] == 'Path' and x['path']['s'] == 'traits' and ev.node['pat']['k'] == 'Wild':
                    accounted += 1
        if accounted != uses_total and pd:
            rep.bad('TRAITS-USE', f.qname, 'other-use', 'the educed-trait set has %d uses of which only %d are membership tests or pass-throughs' % (uses_total, accounted), f.file, f.line)
