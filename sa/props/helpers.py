"""Shape checks of small shared helpers that the summaries rely on (member names, type keys, printed paths, list parsers)."""
from ..syn import es, pat_s, ty_s
from ..report import Report


def norm(e):
    return es(e).replace(' ', '')


def find(cx, suffix):
    return [f for f in cx.crate.fns if f.qname.endswith(suffix)]


def fn_term(cx, f):
    """canonical value term of a small function: its tail value with parameters numbered (renaming locals, parameters or pattern
    variables, or writing `match` for `if let`, leaves it unchanged); None if the function returns early"""
    from ..terms import subst_term
    fw = cx.fw(f)
    if any(ev.kind == 'exit' and ev.how == 'return' for ev in fw.events):
        return None
    tm = cx.gm.terms_of(fw)
    t = tm.block_value_term(f.block, 0)
    for i_, (n_, _) in enumerate(f.params()):
        t = subst_term(t, ('param', n_), ('param', i_))
    return t


def P(i):
    return ('param', i)


def check_ident_or_index(cx, rep, rule='IDX-HELPER'):
    """IdentOrIndex: `from_ident_with_index(ident, index)` = the identifier if there is one, else the index; printing prints it."""
    fs = find(cx, 'common::ident_index::IdentOrIndex::from_ident_with_index')
    if len(fs) != 1:
        rep.broken.append('IdentOrIndex::from_ident_with_index not found')
        return
    f = fs[0]
    t = fn_term(cx, f)
    FROM = ('Self::from', 'IdentOrIndex::from', 'crate::common::ident_index::IdentOrIndex::from')
    def named_ok(x):
        return isinstance(x, tuple) and x[0] == 'call' and ((x[1] in FROM and x[2:] == (('some_of', P(0)),))
                                                            or (x[1] in ('Self::Ident', 'IdentOrIndex::Ident') and x[2:] == (('some_of', P(0)),)))

    def index_ok(x):
        return isinstance(x, tuple) and x[0] == 'call' and ((x[1] in FROM and x[2:] == (P(1),))
                                                            or (x[1] in ('Self::Index', 'IdentOrIndex::Index') and len(x) == 3 and isinstance(x[2], tuple)
                                                                and x[2][0] == 'call' and x[2][1] in ('Index::from', 'syn::Index::from') and x[2][2:] == (P(1),)))
    ok = isinstance(t, tuple) and t[0] == 'iflet' and t[1] == 'Some(_)' and t[2] == P(0) and named_ok(t[3]) and index_ok(t[4])
    (rep.ok(rule, f.qname + '|ident-else-index') if ok else rep.bad(rule, f.qname, 'shape', 'the member of a field is no longer "its identifier, else its declaration index"', f.file, f.line))
    want = {
        ('Ident', False): ('call', 'Self::Ident', P(0)), ('Index', False): ('call', 'Self::Index', P(0)), ('Ident', True): ('call', 'Self::Ident', P(0)),
        ('usize', False): ('call', 'Self::Index', ('call', 'Index::from', P(0))),
    }
    n = 0
    for g in cx.crate.fns:
        if g.self_ty == 'IdentOrIndex' and g.name == 'from' and g.module.path == ('common', 'ident_index'):
            ps = [a for a in g.sig['inputs'] if a['k'] == 'Typed']
            t = ps[0]['ty']
            key = (ty_s(t['elem']) if t['k'] == 'Ref' else ty_s(t), t['k'] == 'Ref')
            n += 1
            gt = fn_term(cx, g)
            if isinstance(gt, tuple) and gt[:2] == ('call', 'IdentOrIndex::Ident'):
                gt = ('call', 'Self::Ident') + gt[2:]
            if isinstance(gt, tuple) and gt[:2] == ('call', 'IdentOrIndex::Index'):
                gt = ('call', 'Self::Index') + gt[2:]
            if isinstance(gt, tuple) and len(gt) == 3 and isinstance(gt[2], tuple) and gt[2][:2] in (('call', 'syn::Index::from'), ('call', 'Index::from')):
                gt = gt[:2] + (('call', 'Index::from') + gt[2][2:],)
            if want.get(key) == gt:
                rep.ok(rule, '%s|From<%s%s>' % (g.qname, '&' if key[1] else '', key[0]))
            else:
                rep.bad(rule, g.qname, 'From<%s%s>' % ('&' if key[1] else '', key[0]), 'conversion into IdentOrIndex changed: `%s`' % es(g.block)[:80], g.file, g.line)
    if n != 4:
        rep.bad(rule, 'common::ident_index::IdentOrIndex', 'from-impls', 'expected 4 From impls, found %d' % n, 'src/common/ident_index.rs', 1)
    tt = [g for g in cx.crate.fns if g.self_ty == 'IdentOrIndex' and g.name == 'to_tokens']
    ok = False
    if len(tt) == 1:
        from ..terms import match_arms
        t = fn_term(cx, tt[0])
        ma = match_arms(t)
        if ma and ma[0] == P(0) and len(ma[1]) == 2:
            got = {}
            for ps_, v in ma[1]:
                for var in ('Ident', 'Index'):
                    if ps_ in ('Self::%s(_)' % var, 'IdentOrIndex::%s(_)' % var):
                        pay = ('payload', ps_.split('(')[0], 0, P(0))
                        got[var] = v in (('call', 'ToTokens::to_tokens', pay, P(1)), ('mcall', pay, 'to_tokens', P(1)),
                                         ('call', 'quote::ToTokens::to_tokens', pay, P(1)))
            ok = got == {'Ident': True, 'Index': True}
    if ok:
        rep.ok(rule, tt[0].qname + '|prints the identifier / index')
    else:
        rep.bad(rule, 'common::ident_index::IdentOrIndex', 'to_tokens', 'IdentOrIndex no longer prints exactly its identifier / index', 'src/common/ident_index.rs', tt[0].line if tt else 1)


def check_path_to_string(cx, rep, rule='PATH-STRING'):
    fs = find(cx, 'common::path::path_to_string')
    if len(fs) != 1:
        rep.broken.append('common::path::path_to_string not found')
        return
    f = fs[0]
    t = fn_term(cx, f)
    toks = (('mcall', ('mcall', P(0), 'into_token_stream'), 'to_string'), ('mcall', ('mcall', P(0), 'to_token_stream'), 'to_string'))
    ok = isinstance(t, tuple) and t[0] == 'mcall' and t[2] == 'replace' and t[1] in toks and t[3:] in ((('lit', 'Char', ' '), ('lit', 'Str', '')), (('lit', 'Str', ' '), ('lit', 'Str', '')))
    (rep.ok(rule, f.qname + '|token string without spaces') if ok else rep.bad(rule, f.qname, 'shape', 'a path is no longer printed as its token string with the spaces removed (`Enum::Variant`)', f.file, f.line))


def string_field_of(cx, fn_or_name, module_path=None):
    """member key (index of a tuple struct, name otherwise) of the single `String` field of a struct"""
    name = fn_or_name if isinstance(fn_or_name, str) else fn_or_name.self_ty
    mp = module_path if module_path is not None else (None if isinstance(fn_or_name, str) else tuple(fn_or_name.module.path))
    for (m, n), it in cx.crate.types.items():
        if n == name and it['k'] == 'Struct' and (mp is None or tuple(m) == tuple(mp)):
            fs = it['fields']['fields']
            hits = [(i, f) for i, f in enumerate(fs) if ty_s(f['ty']).strip() == 'String']
            if len(hits) == 1:
                i, f = hits[0]
                return f['name'] if f.get('name') else i
    return None


def ctor_string_args(cx, f, key):
    """terms of the String component at every construction of Self in function f"""
    fw = cx.fw(f)
    tm = cx.gm.terms_of(fw)
    out = []
    for ev in fw.events:
        if ev.kind == 'call' and ev.path in ('Self', f.self_ty) and isinstance(key, int) and len(ev.args) > key:
            out.append(tm.term(ev.args[key], ev.scope))
        if ev.kind == 'struct' and es(ev.node['path'] if isinstance(ev.node.get('path'), dict) and 'k' in ev.node['path'] else {'k': 'Path', 'path': ev.node['path']}) in ('Self', f.self_ty):
            for fld in ev.node['fields']:
                if str(fld['member']) == str(key):
                    out.append(tm.term(fld['expr'], ev.scope))
    return out


def check_hash_type_tokens(cx, rep, rule='SUM-INTO'):
    tt = [g for g in cx.crate.fns if g.self_ty == 'HashType' and g.name == 'to_tokens']
    ok = False
    if len(tt) == 1:
        g = tt[0]
        fw = cx.fw(g)
        tm = cx.gm.terms_of(fw)
        names = [p_[0] for p_ in g.params()]
        ext = [ev for ev in fw.events if ev.kind == 'mcall' and ev.method in ('extend', 'append_all') and len(names) == 2
               and tm.term(ev.recv, ev.scope) == ('param', names[1])]
        others = [ev for ev in fw.events if ev.kind in ('macro',) and 'tmpl' in ev.mac]
        if len(ext) == 1 and len(ext[0].args) == 1 and not ext[0].ctx and not others:
            a = tm.term(ext[0].args[0], ext[0].scope)
            src = ('field', ('param', names[0]), string_field_of(cx, g))
            ok = a in (('unwrap', ('call', 'proc_macro2::TokenStream::from_str', src)), ('unwrap', ('call', 'TokenStream::from_str', src)),
                       ('unwrap', ('mcall', src, 'parse')))
    if ok:
        rep.ok(rule, tt[0].qname + '|prints the stored type string')
    else:
        rep.bad(rule, 'common::tools::hash_type::HashType', 'to_tokens', 'a target type is no longer printed as its stored token string', 'src/common/tools/hash_type.rs', tt[0].line if tt else 1)
    fr = [g for g in cx.crate.fns if g.self_ty == 'HashType' and g.name == 'from']
    n = 0
    for g in fr:
        ps = [a for a in g.sig['inputs'] if a['k'] == 'Typed']
        t = ps[0]['ty']
        p0 = [p_[0] for p_ in g.params()][:1]
        if t['k'] == 'Ref':
            key = string_field_of(cx, g)
            args = ctor_string_args(cx, g, key)
            good = len(args) == 1 and p0 and args[0] in (('mcall', ('mcall', ('param', p0[0]), 'into_token_stream'), 'to_string'),
                                                         ('mcall', ('mcall', ('param', p0[0]), 'to_token_stream'), 'to_string'))
        else:
            gt = fn_term(cx, g)
            good = gt in (('call', 'Self::from', P(0)), ('call', 'HashType::from', P(0)))
        n += 1
        if good:
            rep.ok(rule, '%s|From<%s>' % (g.qname, ty_s(t)))
        else:
            rep.bad(rule, g.qname, 'From<%s>' % ty_s(t), 'the type key is no longer the token string of the type', g.file, g.line)
    if n != 4:
        rep.bad(rule, 'common::tools::hash_type::HashType', 'from-impls', 'expected 4 From impls, found %d' % n, 'src/common/tools/hash_type.rs', 1)


def check_type_with_meta(cx, rep, rule='PARAM'):
    """`Into(Type [, params..])`: the type, then — if anything follows — a comma and all remaining metas"""
    from ..restable import table
    fs = find(cx, 'common::type::TypeWithPunctuatedMeta::parse')
    if len(fs) != 1:
        rep.broken.append('TypeWithPunctuatedMeta::parse not found')
        return
    f = fs[0]
    rows = [(tuple(r[0]), r[1].replace('Token![,]', 'Token!(,)')) for r in table(cx, f)]
    TY = '$0.parse::<Type>()?'
    LIST = '$0.parse_terminated(Meta::parse,Token!(,))?'
    want = {(('if($0.is_empty())',), 'Ok(Self{ty:%s,list:Punctuated::new()})' % TY), (('!if($0.is_empty())',), 'Ok(Self{ty:%s,list:%s})' % (TY, LIST))}
    ok = set(rows) == want or set(rows) == {(('!if(!$0.is_empty())',), 'Ok(Self{ty:%s,list:Punctuated::new()})' % TY), (('if(!$0.is_empty())',), 'Ok(Self{ty:%s,list:%s})' % (TY, LIST))}
    # the same decision written as one expression: `list: if input.is_empty() { new() } else { comma; rest }`
    alt = {((), 'Ok(Self{ty:%s,list:if$0.is_empty(){Punctuated::new()}else{$0.parse::<Token!(,)>()?;%s}})' % (TY, LIST)),
           ((), 'Ok(Self{ty:%s,list:if!$0.is_empty(){$0.parse::<Token!(,)>()?;%s}else{Punctuated::new()}})' % (TY, LIST))}
    ok = ok or (len(rows) == 1 and set(rows) & alt)
    # order of the parser calls on the input: type, emptiness test, comma, remaining metas
    fw = cx.fw(f)
    tm = cx.gm.terms_of(fw)
    p0 = [p_[0] for p_ in f.params() if p_[0] != 'self'][:1]
    seq = []
    for ev in sorted((e for e in fw.events if e.kind == 'mcall'), key=lambda e: e.seq):
        if p0 and tm.term(ev.recv, ev.scope) == ('param', p0[0]):
            tf = ev.node.get('turbofish')
            tft = ''
            if tf:
                t0 = tf[0]
                tft = (t0.get('ty', {}).get('text') or ty_s(t0['ty'])).replace(' ', '') if t0.get('k') == 'Type' else ''
            seq.append((ev.method, tft.replace('Token![,]', 'Token!(,)').replace('Token![,]'.replace(' ', ''), 'Token!(,)')))
    seq_ok = [m_ for m_, _ in seq] == ['parse', 'is_empty', 'parse', 'parse_terminated'] and seq[0][1] == 'Type' and 'Token' in seq[2][1] and ',' in seq[2][1]
    if ok and seq_ok:
        rep.ok(rule, f.qname + '|type then all parameters')
    else:
        rep.bad(rule, f.qname, 'shape', '`Into(Type, params..)` is no longer parsed as "the type, then every remaining parameter" (cases %s; parser calls %s)' % (sorted(rows), seq), f.file, f.line)
