"""Shape checks of small shared helpers that the summaries rely on (member names, type keys, printed paths, list parsers)."""
from ..syn import es, pat_s, ty_s
from ..report import Report


def norm(e):
    return es(e).replace(' ', '')


def find(cx, suffix):
    return [f for f in cx.crate.fns if f.qname.endswith(suffix)]


def check_ident_or_index(cx, rep, rule='IDX-HELPER'):
    """IdentOrIndex: `from_ident_with_index(ident, index)` = the identifier if there is one, else the index; printing prints it."""
    fs = find(cx, 'common::ident_index::IdentOrIndex::from_ident_with_index')
    if len(fs) != 1:
        rep.broken.append('IdentOrIndex::from_ident_with_index not found')
        return
    f = fs[0]
    ok = norm(f.block) == '{ifletSome(ident)=ident{Self::from(ident)}else{Self::from(index)}}'
    (rep.ok(rule, f.qname + '|ident-else-index') if ok else rep.bad(rule, f.qname, 'shape', 'the member of a field is no longer "its identifier, else its declaration index"', f.file, f.line))
    want = {
        ('Ident', False): '{Self::Ident(value)}', ('Index', False): '{Self::Index(value)}', ('Ident', True): '{Self::Ident(value.clone())}',
        ('usize', False): '{Self::Index(Index::from(value))}',
    }
    n = 0
    for g in cx.crate.fns:
        if g.self_ty == 'IdentOrIndex' and g.name == 'from' and g.module.path == ('common', 'ident_index'):
            ps = [a for a in g.sig['inputs'] if a['k'] == 'Typed']
            t = ps[0]['ty']
            key = (ty_s(t['elem']) if t['k'] == 'Ref' else ty_s(t), t['k'] == 'Ref')
            n += 1
            if want.get(key) == norm(g.block):
                rep.ok(rule, '%s|From<%s%s>' % (g.qname, '&' if key[1] else '', key[0]))
            else:
                rep.bad(rule, g.qname, 'From<%s%s>' % ('&' if key[1] else '', key[0]), 'conversion into IdentOrIndex changed: `%s`' % es(g.block)[:80], g.file, g.line)
    if n != 4:
        rep.bad(rule, 'common::ident_index::IdentOrIndex', 'from-impls', 'expected 4 From impls, found %d' % n, 'src/common/ident_index.rs', 1)
    tt = [g for g in cx.crate.fns if g.self_ty == 'IdentOrIndex' and g.name == 'to_tokens']
    if len(tt) == 1 and norm(tt[0].block) == '{matchself{Self::Ident(ident)=>ToTokens::to_tokens(ident,token_stream),Self::Index(index)=>ToTokens::to_tokens(index,token_stream),}}':
        rep.ok(rule, tt[0].qname + '|prints the identifier / index')
    else:
        rep.bad(rule, 'common::ident_index::IdentOrIndex', 'to_tokens', 'IdentOrIndex no longer prints exactly its identifier / index', 'src/common/ident_index.rs', tt[0].line if tt else 1)


def check_path_to_string(cx, rep, rule='PATH-STRING'):
    fs = find(cx, 'common::path::path_to_string')
    if len(fs) != 1:
        rep.broken.append('common::path::path_to_string not found')
        return
    f = fs[0]
    ok = norm(f.block) == "{path.into_token_stream().to_string().replace('',\"\")}" or norm(f.block) == '{path.into_token_stream().to_string().replace(\' \',"")}'
    txt = es(f.block)
    ok = ok or txt.replace(' ', '') == "{path.into_token_stream().to_string().replace('',\"\")}"
    # robust: token string with all spaces removed
    ok = 'into_token_stream().to_string().replace(' in txt and txt.count('replace(') == 1 and "' '" in txt and '""' in txt
    (rep.ok(rule, f.qname + '|token string without spaces') if ok else rep.bad(rule, f.qname, 'shape', 'a path is no longer printed as its token string with the spaces removed (`Enum::Variant`)', f.file, f.line))


def check_hash_type_tokens(cx, rep, rule='SUM-INTO'):
    tt = [g for g in cx.crate.fns if g.self_ty == 'HashType' and g.name == 'to_tokens']
    ok = len(tt) == 1 and norm(tt[0].block) == '{letty=proc_macro2::TokenStream::from_str(self.0.as_str()).unwrap();token_stream.extend(ty);}'
    if ok:
        rep.ok(rule, tt[0].qname + '|prints the stored type string')
    else:
        rep.bad(rule, 'common::tools::hash_type::HashType', 'to_tokens', 'a target type is no longer printed as its stored token string', 'src/common/tools/hash_type.rs', tt[0].line if tt else 1)
    fr = [g for g in cx.crate.fns if g.self_ty == 'HashType' and g.name == 'from']
    n = 0
    for g in fr:
        ps = [a for a in g.sig['inputs'] if a['k'] == 'Typed']
        t = ps[0]['ty']
        b = norm(g.block)
        if t['k'] == 'Ref':
            good = b == '{Self(value.into_token_stream().to_string(),value.span())}'
        else:
            good = b == '{Self::from(&value)}'
        n += 1
        if good:
            rep.ok(rule, '%s|From<%s>' % (g.qname, ty_s(t)))
        else:
            rep.bad(rule, g.qname, 'From<%s>' % ty_s(t), 'the type key is no longer the token string of the type', g.file, g.line)
    if n != 4:
        rep.bad(rule, 'common::tools::hash_type::HashType', 'from-impls', 'expected 4 From impls, found %d' % n, 'src/common/tools/hash_type.rs', 1)


def check_type_with_meta(cx, rep, rule='PARAM'):
    """`Into(Type [, params..])`: the type, then — if anything follows — a comma and all remaining metas"""
    fs = find(cx, 'common::type::TypeWithPunctuatedMeta::parse')
    if len(fs) != 1:
        rep.broken.append('TypeWithPunctuatedMeta::parse not found')
        return
    f = fs[0]
    b = norm(f.block)
    want = ('{letty=input.parse::<Type>()?;ifinput.is_empty(){returnOk(Self{ty:ty,list:Punctuated::new()});}input.parse::<Token!(,)>()?;'
            'letlist=input.parse_terminated(Meta::parse,Token!(,))?;Ok(Self{ty:ty,list:list})}')
    b = b.replace('Token![,]', 'Token!(,)')
    b2 = b.replace('Self{ty,list:Punctuated::new()}', 'Self{ty:ty,list:Punctuated::new()}').replace('Self{ty,list}', 'Self{ty:ty,list:list}')
    if b2 == want:
        rep.ok(rule, f.qname + '|type then all parameters')
    else:
        rep.bad(rule, f.qname, 'shape', '`Into(Type, params..)` is no longer parsed as "the type, then every remaining parameter"', f.file, f.line)
