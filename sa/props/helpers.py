"""Shape checks of small shared helpers that the summaries rely on (member names, type keys, printed paths, list parsers)."""
from ..syn import es, pat_s, ty_s
from ..report import Report


def norm(e):
    return es(e).replace(' ', '')


def find(cx, suffix):
    return [f for f in cx.crate.fns if f.qname.endswith(suffix)]


def fn_term(cx, f):
    """canonical value term of a small function: its tail value with parameters numbered (renaming locals, parameters or pattern
    variables, or writing `match` for `if let`, leaves it unchanged); None if the function returns early"""
    from ..terms import subst_term
    fw = cx.fw(f)
    if any(ev.kind == 'exit' and ev.how == 'return' for ev in fw.events):
        return None
    tm = cx.gm.terms_of(fw)
    t = tm.block_value_term(f.block, 0)
    st = f.block.get('stmts') or []
    if t == ('unit',) and st and st[-1].get('k') == 'Expr' and st[-1].get('semi') and all(x.get('k') == 'Local' for x in st[:-1]):
        # a unit function whose last statement is the effect (`x.to_tokens(ts);`): the effect is its "value"
        try:
            evs = [ev for ev in fw.events if ev.node is st[-1]['expr']]
            if evs:
                t2 = tm.term(st[-1]['expr'], evs[0].scope)
                if isinstance(t2, tuple) and t2 and t2[0] != 'opaque':
                    t = t2
        except Exception:
            pass
    for i_, (n_, _) in enumerate(f.params()):
        t = subst_term(t, ('param', n_), ('param', i_))
    return t


def P(i):
    return ('param', i)


def check_ident_or_index(cx, rep, rule='IDX-HELPER'):
    """IdentOrIndex: `from_ident_with_index(ident, index)` = the identifier if there is one, else the index; printing prints it."""
    fs = find(cx, 'common::ident_index::IdentOrIndex::from_ident_with_index')
    if len(fs) != 1:
        rep.broken.append('IdentOrIndex::from_ident_with_index not found')
        return
    f = fs[0]
    t = fn_term(cx, f)
    FROM = ('Self::from', 'IdentOrIndex::from', 'crate::common::ident_index::IdentOrIndex::from')
    def named_ok(x):
        return isinstance(x, tuple) and x[0] == 'call' and ((x[1] in FROM and x[2:] == (('some_of', P(0)),))
                                                            or (x[1] in ('Self::Ident', 'IdentOrIndex::Ident') and x[2:] == (('some_of', P(0)),)))

    def index_ok(x):
        return isinstance(x, tuple) and x[0] == 'call' and ((x[1] in FROM and x[2:] == (P(1),))
                                                            or (x[1] in ('Self::Index', 'IdentOrIndex::Index') and len(x) == 3 and isinstance(x[2], tuple)
                                                                and x[2][0] == 'call' and x[2][1] in ('Index::from', 'syn::Index::from') and x[2][2:] == (P(1),)))
    ok = isinstance(t, tuple) and t[0] == 'iflet' and t[1] == 'Some(_)' and t[2] == P(0) and named_ok(t[3]) and index_ok(t[4])
    (rep.ok(rule, f.qname + '|ident-else-index') if ok else rep.bad(rule, f.qname, 'shape', 'the member of a field is no longer "its identifier, else its declaration index"', f.file, f.line))
    want = {
        ('Ident', False): ('call', 'Self::Ident', P(0)), ('Index', False): ('call', 'Self::Index', P(0)), ('Ident', True): ('call', 'Self::Ident', P(0)),
        ('usize', False): ('call', 'Self::Index', ('call', 'Index::from', P(0))),
    }
    n = 0
    for g in cx.crate.fns:
        if g.self_ty == 'IdentOrIndex' and g.name == 'from' and g.module.path == ('common', 'ident_index'):
            ps = [a for a in g.sig['inputs'] if a['k'] == 'Typed']
            t = ps[0]['ty']
            key = (ty_s(t['elem']) if t['k'] == 'Ref' else ty_s(t), t['k'] == 'Ref')
            n += 1
            gt = fn_term(cx, g)
            if isinstance(gt, tuple) and gt[:2] == ('call', 'IdentOrIndex::Ident'):
                gt = ('call', 'Self::Ident') + gt[2:]
            if isinstance(gt, tuple) and gt[:2] == ('call', 'IdentOrIndex::Index'):
                gt = ('call', 'Self::Index') + gt[2:]
            if isinstance(gt, tuple) and len(gt) == 3 and isinstance(gt[2], tuple) and gt[2][:2] in (('call', 'syn::Index::from'), ('call', 'Index::from')):
                gt = gt[:2] + (('call', 'Index::from') + gt[2][2:],)
            if want.get(key) == gt:
                rep.ok(rule, '%s|From<%s%s>' % (g.qname, '&' if key[1] else '', key[0]))
            else:
                rep.bad(rule, g.qname, 'From<%s%s>' % ('&' if key[1] else '', key[0]), 'conversion into IdentOrIndex changed: `%s`' % es(g.block)[:80], g.file, g.line)
    if n != 4:
        rep.bad(rule, 'common::ident_index::IdentOrIndex', 'from-impls', 'expected 4 From impls, found %d' % n, 'src/common/ident_index.rs', 1)
    tt = [g for g in cx.crate.fns if g.self_ty == 'IdentOrIndex' and g.name == 'to_tokens']
    ok = False
    if len(tt) == 1:
        from ..terms import match_arms
        t = fn_term(cx, tt[0])
        ma = match_arms(t)
        if ma is None and isinstance(t, tuple) and t and t[0] == 'mcall' and len(t) == 4 and t[2] == 'to_tokens':
            # `let x: &dyn ToTokens = match self { .. => ident, .. => index }; x.to_tokens(ts)`: the call distributes over the arms
            mr = match_arms(t[1])
            if mr is not None:
                ma = (mr[0], [(ps_, ('mcall', v, 'to_tokens', t[3])) for ps_, v in mr[1]])
        if ma and ma[0] == P(0) and len(ma[1]) == 2:
            got = {}
            for ps_, v in ma[1]:
                for var in ('Ident', 'Index'):
                    if ps_ in ('Self::%s(_)' % var, 'IdentOrIndex::%s(_)' % var):
                        pay = ('payload', ps_.split('(')[0], 0, P(0))
                        got[var] = v in (('call', 'ToTokens::to_tokens', pay, P(1)), ('mcall', pay, 'to_tokens', P(1)),
                                         ('call', 'quote::ToTokens::to_tokens', pay, P(1)))
            ok = got == {'Ident': True, 'Index': True}
    if ok:
        rep.ok(rule, tt[0].qname + '|prints the identifier / index')
    else:
        rep.bad(rule, 'common::ident_index::IdentOrIndex', 'to_tokens', 'IdentOrIndex no longer prints exactly its identifier / index', 'src/common/ident_index.rs', tt[0].line if tt else 1)


def check_path_to_string(cx, rep, rule='PATH-STRING'):
    fs = find(cx, 'common::path::path_to_string')
    if len(fs) != 1:
        rep.broken.append('common::path::path_to_string not found')
        return
    f = fs[0]
    t = fn_term(cx, f)
    toks = (('mcall', ('mcall', P(0), 'into_token_stream'), 'to_string'), ('mcall', ('mcall', P(0), 'to_token_stream'), 'to_string'))
    ok = isinstance(t, tuple) and t[0] == 'mcall' and t[2] == 'replace' and t[1] in toks and t[3:] in ((('lit', 'Char', ' '), ('lit', 'Str', '')), (('lit', 'Str', ' '), ('lit', 'Str', '')))
    (rep.ok(rule, f.qname + '|token string without spaces') if ok else rep.bad(rule, f.qname, 'shape', 'a path is no longer printed as its token string with the spaces removed (`Enum::Variant`)', f.file, f.line))


def string_field_of(cx, fn_or_name, module_path=None):
    """member key (index of a tuple struct, name otherwise) of the single `String` field of a struct"""
    name = fn_or_name if isinstance(fn_or_name, str) else fn_or_name.self_ty
    mp = module_path if module_path is not None else (None if isinstance(fn_or_name, str) else tuple(fn_or_name.module.path))
    for (m, n), it in cx.crate.types.items():
        if n == name and it['k'] == 'Struct' and (mp is None or tuple(m) == tuple(mp)):
            fs = it['fields']['fields']
            hits = [(i, f) for i, f in enumerate(fs) if ty_s(f['ty']).strip() == 'String']
            if len(hits) == 1:
                i, f = hits[0]
                return f['name'] if f.get('name') else i
    return None


def ctor_string_args(cx, f, key):
    """terms of the String component at every construction of Self in function f"""
    fw = cx.fw(f)
    tm = cx.gm.terms_of(fw)
    out = []
    for ev in fw.events:
        if ev.kind == 'call' and ev.path in ('Self', f.self_ty) and isinstance(key, int) and len(ev.args) > key:
            out.append(tm.term(ev.args[key], ev.scope))
        if ev.kind == 'struct' and es(ev.node['path'] if isinstance(ev.node.get('path'), dict) and 'k' in ev.node['path'] else {'k': 'Path', 'path': ev.node['path']}) in ('Self', f.self_ty):
            for fld in ev.node['fields']:
                if str(fld['member']) == str(key):
                    out.append(tm.term(fld['expr'], ev.scope))
    return out


def field_of_type(cx, fn_or_name, type_names, module_path=None):
    """member key of the single field whose declared type is one of `type_names`"""
    name = fn_or_name if isinstance(fn_or_name, str) else fn_or_name.self_ty
    mp = module_path if module_path is not None else (None if isinstance(fn_or_name, str) else tuple(fn_or_name.module.path))
    for (m, n), it in cx.crate.types.items():
        if n == name and it['k'] == 'Struct' and (mp is None or tuple(m) == tuple(mp)):
            fs = it['fields']['fields']
            hits = [(i, f) for i, f in enumerate(fs) if ty_s(f['ty']).replace(' ', '') in type_names]
            if len(hits) == 1:
                i, f = hits[0]
                return f['name'] if f.get('name') else i
    return None


def check_hash_type_tokens(cx, rep, rule='SUM-INTO'):
    """HashType = (key string, span, tokens): what is emitted are the *tokens of the type as given* (re-lexing the string form loses
    `$crate` and invisible groups and panics), what is compared is a string computed from those tokens alone"""
    TOK = ('TokenStream', 'proc_macro2::TokenStream')
    tt = [g for g in cx.crate.fns if g.self_ty == 'HashType' and g.name == 'to_tokens']
    ok = False
    if len(tt) == 1:
        g = tt[0]
        fw = cx.fw(g)
        tm = cx.gm.terms_of(fw)
        names = [p_[0] for p_ in g.params()]
        ext = [ev for ev in fw.events if ev.kind == 'mcall' and ev.method in ('extend', 'append_all') and len(names) == 2
               and tm.term(ev.recv, ev.scope) == ('param', names[1])]
        others = [ev for ev in fw.events if ev.kind in ('macro',) and 'tmpl' in ev.mac]
        tk = field_of_type(cx, g, TOK)
        if len(ext) == 1 and len(ext[0].args) == 1 and not ext[0].ctx and not others and tk is not None:
            a = tm.term(ext[0].args[0], ext[0].scope)
            src = ('field', ('param', names[0]), tk)
            ok = a in (('mcall', src, 'clone'), src, ('mcall', src, 'to_token_stream'), ('mcall', ('mcall', src, 'clone'), 'into_iter'))
    if ok:
        rep.ok(rule, tt[0].qname + '|emits the stored tokens of the type')
    else:
        rep.bad(rule, 'common::tools::hash_type::HashType', 'to_tokens', 'a target type is not emitted as the tokens it was given as (a string round trip loses `$crate` / invisible groups and can panic)',
                'src/common/tools/hash_type.rs', tt[0].line if tt else 1)
    fr = [g for g in cx.crate.fns if g.self_ty == 'HashType' and g.name == 'from']
    n = 0
    for g in fr:
        ps = [a for a in g.sig['inputs'] if a['k'] == 'Typed']
        t = ps[0]['ty']
        if t['k'] == 'Ref':
            gt = fn_term(cx, g)
            good = gt in (('call', 'Self::new', ('mcall', P(0), 'into_token_stream'), ('mcall', P(0), 'span')),
                          ('call', 'HashType::new', ('mcall', P(0), 'into_token_stream'), ('mcall', P(0), 'span')),
                          ('call', 'Self::new', ('mcall', P(0), 'to_token_stream'), ('mcall', P(0), 'span')))
        else:
            gt = fn_term(cx, g)
            good = gt in (('call', 'Self::from', P(0)), ('call', 'HashType::from', P(0)), ('call', 'Self::from', ('ref', P(0))), ('call', 'HashType::from', ('ref', P(0))))
        n += 1
        if good:
            rep.ok(rule, '%s|From<%s>' % (g.qname, ty_s(t)))
        else:
            rep.bad(rule, g.qname, 'From<%s>' % ty_s(t), 'a HashType is not built from the tokens (and span) of the value alone', g.file, g.line)
    if n != 4:
        rep.bad(rule, 'common::tools::hash_type::HashType', 'from-impls', 'expected 4 From impls, found %d' % n, 'src/common/tools/hash_type.rs', 1)
    # the constructor: key = token_string(tokens), tokens stored unchanged
    nw = [g for g in cx.crate.fns if g.self_ty == 'HashType' and g.name == 'new']
    good = False
    if len(nw) == 1:
        g = nw[0]
        fw = cx.fw(g)
        tm = cx.gm.terms_of(fw)
        p0 = [p_[0] for p_ in g.params()]
        sk, tk = string_field_of(cx, g), field_of_type(cx, g, TOK)
        ctors = [ev for ev in fw.events if ev.kind == 'call' and ev.path in ('Self', 'HashType')]
        key_e = tok_e = None
        if len(ctors) == 1 and isinstance(sk, int) and isinstance(tk, int) and len(ctors[0].args) > max(sk, tk) and p0:
            key_e, tok_e, csc = ctors[0].args[sk], ctors[0].args[tk], ctors[0].scope
        else:
            # a struct with named fields: `Self { <string field>: key, .., <tokens field>: tokens }`
            lits = [ev for ev in fw.events if ev.kind == 'struct' and ev.node.get('path', {}).get('s') in ('Self', 'HashType') and not ev.node.get('rest')]
            if len(lits) == 1 and isinstance(sk, str) and isinstance(tk, str) and p0:
                fl = dict((f_['member'], f_['expr']) for f_ in lits[0].node['fields'])
                if sk in fl and tk in fl:
                    key_e, tok_e, csc = fl[sk], fl[tk], lits[0].scope
        if key_e is not None:
            key_t = tm.term(key_e, csc)
            tok_t = tm.term(tok_e, csc)
            fills = [ev for ev in fw.events if ev.kind == 'call' and ev.path and ev.path.split('::')[-1] == 'token_string' and len(ev.args) == 2]
            if tok_t == ('param', p0[0]) and len(fills) == 1 and not fills[0].ctx:
                a0 = tm.term(fills[0].args[0], fills[0].scope)
                a1 = tm.term(fills[0].args[1], fills[0].scope)
                while isinstance(a1, tuple) and a1 and a1[0] in ('ref', 'refmut') and len(a1) == 2:
                    a1 = a1[1]
                fresh = key_t in (('call', 'String::new'), ('call', 'String::default')) or (isinstance(key_t, tuple) and key_t and key_t[0] == 'var')
                good = fresh and a0 in (('mcall', ('param', p0[0]), 'clone'), ('param', p0[0])) and a1 == key_t
                # the key string is written by token_string only
                if any(ev.kind == 'mcall' and ev.method in ('push', 'push_str', 'insert_str', 'extend') and tm.term(ev.recv, ev.scope) == key_t for ev in fw.events) \
                        or any(ev.kind == 'assign' for ev in fw.events):
                    good = False
    if good:
        rep.ok(rule, nw[0].qname + '|key = token_string(tokens), tokens stored as given')
    else:
        rep.bad(rule, 'common::tools::hash_type::HashType', 'new', 'the key of a HashType is not computed from its tokens by `token_string` alone, or the tokens are not stored as given',
                'src/common/tools/hash_type.rs', nw[0].line if nw else 1)
    # token_string: leaf tokens are printed one by one; `to_string()` is never applied to a group or a whole stream (that is where the
    # source spacing leaks in)
    ts = [g for g in cx.crate.fns if g.name == 'token_string' and tuple(g.module.path) == ('common', 'tools', 'hash_type')]
    good = False
    if len(ts) == 1:
        g = ts[0]
        fw = cx.fw(g)
        calls = [ev for ev in fw.events if ev.kind == 'mcall' and ev.method == 'to_string']
        good = bool(calls)
        for ev in calls:
            arms = [c_ for c_ in ev.ctx if c_['k'] == 'arm']
            in_group_arm = any('Group' in pat_s(c_['pat']) for c_ in arms)
            after_group_arm = any(any('TokenTree::Group' in pat_s(p_) for p_ in (c_.get('earlier') or [])) for c_ in arms)
            if in_group_arm or not after_group_arm:
                good = False
        loops = [ev for ev in fw.events if ev.kind == 'for']
        if len(loops) != 1:
            good = False
    if good:
        rep.ok(rule, ts[0].qname + '|prints leaf tokens only, groups structurally')
    else:
        rep.bad(rule, 'common::tools::hash_type', 'token_string', 'the comparison key is not printed token by token (a `to_string()` of a group or stream reproduces the spacing of the source text)',
                'src/common/tools/hash_type.rs', ts[0].line if ts else 1)


def check_type_with_meta(cx, rep, rule='PARAM'):
    """`Into(Type [, params..])`: the type, then — if anything follows — a comma and all remaining metas"""
    from ..restable import table
    fs = find(cx, 'common::type::TypeWithPunctuatedMeta::parse')
    if len(fs) != 1:
        rep.broken.append('TypeWithPunctuatedMeta::parse not found')
        return
    f = fs[0]
    rows = [(tuple(r[0]), r[1].replace('Token![,]', 'Token!(,)')) for r in table(cx, f)]
    TY = '$0.parse::<Type>()?'
    LIST = '$0.parse_terminated(Meta::parse,Token!(,))?'
    want = {(('if($0.is_empty())',), 'Ok(Self{ty:%s,list:Punctuated::new()})' % TY), (('!if($0.is_empty())',), 'Ok(Self{ty:%s,list:%s})' % (TY, LIST))}
    ok = set(rows) == want or set(rows) == {(('!if(!$0.is_empty())',), 'Ok(Self{ty:%s,list:Punctuated::new()})' % TY), (('if(!$0.is_empty())',), 'Ok(Self{ty:%s,list:%s})' % (TY, LIST))}
    # the same decision written as one expression: `list: if input.is_empty() { new() } else { comma; rest }`
    alt = {((), 'Ok(Self{ty:%s,list:if$0.is_empty(){Punctuated::new()}else{$0.parse::<Token!(,)>()?;%s}})' % (TY, LIST)),
           ((), 'Ok(Self{ty:%s,list:if!$0.is_empty(){$0.parse::<Token!(,)>()?;%s}else{Punctuated::new()}})' % (TY, LIST))}
    ok = ok or (len(rows) == 1 and set(rows) & alt)
    # order of the parser calls on the input: type, emptiness test, comma, remaining metas
    fw = cx.fw(f)
    tm = cx.gm.terms_of(fw)
    p0 = [p_[0] for p_ in f.params() if p_[0] != 'self'][:1]
    seq = []
    for ev in sorted((e for e in fw.events if e.kind == 'mcall'), key=lambda e: e.seq):
        if p0 and tm.term(ev.recv, ev.scope) == ('param', p0[0]):
            tf = ev.node.get('turbofish')
            tft = ''
            if tf:
                t0 = tf[0]
                tft = (t0.get('ty', {}).get('text') or ty_s(t0['ty'])).replace(' ', '') if t0.get('k') == 'Type' else ''
            seq.append((ev.method, tft.replace('Token![,]', 'Token!(,)').replace('Token![,]'.replace(' ', ''), 'Token!(,)')))
    seq_ok = [m_ for m_, _ in seq] == ['parse', 'is_empty', 'parse', 'parse_terminated'] and seq[0][1] == 'Type' and 'Token' in seq[2][1] and ',' in seq[2][1]
    if ok and seq_ok:
        rep.ok(rule, f.qname + '|type then all parameters')
    else:
        rep.bad(rule, f.qname, 'shape', '`Into(Type, params..)` is no longer parsed as "the type, then every remaining parameter" (cases %s; parser calls %s)' % (sorted(rows), seq), f.file, f.line)
