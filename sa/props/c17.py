"""C17 — the macro is total: it never panics, aborts or hangs.

PANIC: a census of every panic-capable construct in educe's own source (unwrap/expect, panicking macros,
index expressions, panicking std methods, unchecked integer arithmetic, process-abort calls) in functions
reachable from the derive entry point; each site must match a *discharge rule* whose premises are
re-checked on the current tree (dominating checks via the context chains, typestate of Meta values over
the call graph, template re-parsing). Anything else is reported with its location.
TERM: loops are `for` loops over finite collections / ranges (or recognised fresh-name searches); the only
recursion is structurally decreasing.
"""
from ..report import Report
from ..syn import es, pat_s, ty_s, path_s
from ..terms import subterms, term_s, strip_refs, analyse_iter
from ..walk import ctx_s
from ..callgraph import CallGraph
from ..metafacts import MetaFacts, conjuncts, disjuncts, pat_lits, contains_sub
from .. import syn as S

PANIC_MACROS = {'unreachable', 'panic', 'todo', 'unimplemented', 'assert', 'assert_eq', 'assert_ne', 'debug_assert',
                'debug_assert_eq', 'debug_assert_ne'}
UNWRAP_METHODS = {'unwrap', 'expect', 'unwrap_err', 'expect_err', 'unwrap_unchecked'}
PANICKY_METHODS = {'insert_str', 'remove', 'swap_remove', 'split_at', 'split_at_mut', 'split_off', 'drain', 'copy_from_slice',
                   'clone_from_slice', 'swap', 'chunks', 'chunks_exact', 'windows', 'step_by', 'repeat', 'rotate_left', 'rotate_right',
                   'truncate_front', 'borrow_mut', 'replace_range', 'char_indices_panics', 'abs', 'pow', 'rem_euclid', 'div_euclid',
                   'set_span_panics', 'select_nth_unstable', 'reserve_exact',
                   # String methods that take a byte index and panic off a char boundary / out of range
                   'truncate', 'from_utf8_unchecked', 'get_unchecked', 'get_unchecked_mut', 'as_str_unchecked'}
ABORT_PATHS = ('process::exit', 'process::abort', 'std::process::exit', 'std::process::abort', 'abort', 'exit',
               'std::panic::panic_any', 'panic_any', 'std::hint::unreachable_unchecked', 'unreachable_unchecked')
ARITH_OPS = {'+', '-', '*', '/', '%', '<<', '>>', '+=', '-=', '*=', '/=', '%=', '<<=', '>>='}


class Site:
    def __init__(self, kind, ev, fw, what):
        self.kind = kind
        self.ev = ev
        self.fw = fw
        self.what = what

    @property
    def where(self):
        return self.fw.fn.qname


def copy_elsewhere(sites, s):
    """is there a census site for the same construct (same source line, same text) in another function — the inlined copy of a
    helper's statement in one of its callers?  Only then may the helper's own, context-free copy be left to the callers."""
    return any(o is not s and o.fw.fn is not s.fw.fn and o.kind == s.kind and o.ev.line == s.ev.line and o.what == s.what for o in sites)


PUNCTUATED_FIELDS = {'bounds', 'params', 'predicates', 'args', 'inputs', 'elems', 'named', 'unnamed', 'variants', 'lifetimes', 'segments', 'nested'}


def punctuated_hole_followed(t):
    """does the template interpolate a syn Punctuated field (`x.bounds`, `generics.params`, ..) and go on with further tokens right after it?"""
    def scan(tokens):
        for i, tok in enumerate(tokens):
            if tok['t'] == 'h' and i + 1 < len(tokens):
                tr = t.hole_term(tok['s'])
                while isinstance(tr, tuple) and tr and tr[0] in ('ref', 'deref', 'clone') and len(tr) == 2:
                    tr = tr[1]
                if isinstance(tr, tuple) and tr and tr[0] == 'field' and tr[2] in PUNCTUATED_FIELDS:
                    return True
            if tok['t'] in ('g', 'rep') and scan(tok['ts']):
                return True
        return False
    return scan(t.tokens)


def census(cx, fns):
    out = []
    for f in fns:
        fw = cx.fw(f)
        for ev in fw.events:
            if ev.kind == 'mcall':
                if ev.method in UNWRAP_METHODS:
                    out.append(Site('unwrap', ev, fw, es(ev.node)[:120]))
                elif ev.method in PANICKY_METHODS:
                    out.append(Site('method', ev, fw, '.%s' % ev.method))
                elif ev.method == 'insert' and len(ev.args) == 2:
                    out.append(Site('insert', ev, fw, es(ev.node)[:120]))
            elif ev.kind == 'macro':
                if ev.name in PANIC_MACROS:
                    out.append(Site('macro', ev, fw, '%s!(%s)' % (ev.name, ev.mac.get('text', '')[:80])))
                elif ev.name == 'format_ident':
                    out.append(Site('format_ident', ev, fw, S.mac_s(ev.mac)[:100]))
            elif ev.kind == 'index':
                out.append(Site('index', ev, fw, es(ev.node)[:100]))
            elif ev.kind == 'binary' and ev.op in ARITH_OPS:
                out.append(Site('arith', ev, fw, es(ev.node)[:100]))
            elif ev.kind == 'unary' and ev.op == '-':
                out.append(Site('arith', ev, fw, es(ev.node)[:100]))
            elif ev.kind == 'call' and ev.path:
                p = ev.path
                if p in ABORT_PATHS or p.endswith('::exit') or p.endswith('::abort'):
                    out.append(Site('abort', ev, fw, p))
                elif p.endswith('Ident::new') or p.endswith('Ident::new_raw') or p.endswith('LitInt::new') or p.endswith('LitFloat::new'):
                    out.append(Site('ident_new', ev, fw, es(ev.node)[:100]))
                elif p.endswith('Literal::f32_suffixed') or p.endswith('Literal::f64_suffixed') or p.endswith('Literal::f32_unsuffixed') or p.endswith('Literal::f64_unsuffixed'):
                    out.append(Site('method', ev, fw, p))
            elif ev.kind in ('loop',):
                out.append(Site('loop', ev, fw, ev.node['k'].lower()))
    return out


# ------------------------------------------------------------------------------------------
# discharge rules
# ------------------------------------------------------------------------------------------

class Discharger:
    def __init__(self, cx, cg, mf):
        self.cx = cx
        self.cg = cg
        self.mf = mf

    def tm(self, fw):
        return self.cx.gm.terms_of(fw)

    def fresh_loop_counter(self, s, e):
        """is `e` a local counter (integer-literal initialiser, only ever `+= 1`) used inside a recognised fresh-name search loop?
        Such a loop runs at most (number of generic parameters + 1) times, so the counter stays far below any overflow."""
        e = strip_refs(e)
        if e['k'] != 'Path' or len(e['path']['segs']) != 1:
            return None
        d = s.ev.scope.lookup(e['path']['s'])
        if d is None or d.kind != 'let' or d.init is None or d.init['k'] != 'Lit' or d.init['lit'].get('k') != 'Int':
            return None
        for a in d.assigns:
            v = a.value
            if not (getattr(a, 'compound', False) and v['k'] == 'Binary' and v['op'] == '+=' and v['r_']['k'] == 'Lit' and v['r_']['lit'].get('digits') == '1'):
                return None
        loops = [c for c in s.ev.ctx if c['k'] in ('loop', 'while')]
        if not loops:
            return None
        lev = [x for x in s.fw.events if x.kind == 'loop' and getattr(x, 'entry', None) and x.entry['id'] == loops[-1]['id']]
        if not lev or not fresh_name_loop_ok(s.fw, lev[0], self.cx):
            return None
        try:
            return int(d.init['lit'].get('digits'))
        except Exception:
            return None

    def r_fresh_loop(self, s):
        import re
        if s.kind == 'arith':
            e = s.ev.node
            if e['k'] == 'Binary' and e['op'] == '+=' and e['r_']['k'] == 'Lit' and e['r_']['lit'].get('digits') == '1' and self.fresh_loop_counter(s, e['l_']) is not None:
                return ('R8-fresh-loop-counter', 'counter of a fresh-name search: the loop ends after at most (#generic parameters + 1) iterations')
        if s.kind == 'method' and s.ev.kind == 'mcall' and s.ev.method == 'repeat' and len(s.ev.args) == 1:
            r = strip_refs(s.ev.recv)
            if r['k'] == 'Lit' and r['lit'].get('k') == 'Str' and len(r['lit'].get('v') or '') <= 8 and self.fresh_loop_counter(s, s.ev.args[0]) is not None:
                return ('R8-fresh-loop-repeat', 'a short literal repeated (counter of a fresh-name search) times: bounded by the number of generic parameters')
        if s.kind == 'format_ident':
            args = s.ev.mac.get('args') or []
            if len(args) == 2 and args[0]['k'] == 'Lit' and args[0]['lit'].get('v') == '{}':
                a = strip_refs(args[1])
                if a['k'] == 'MethodCall' and a['method'] == 'repeat' and len(a['args']) == 1:
                    r = strip_refs(a['recv'])
                    n0 = self.fresh_loop_counter(s, a['args'][0])
                    if r['k'] == 'Lit' and r['lit'].get('k') == 'Str' and re.fullmatch(r'[A-Za-z_]+', r['lit'].get('v') or '') and r['lit']['v'] != '_' and n0 is not None and n0 >= 1:
                        return ('R8-fresh-loop-ident', 'identifier characters repeated at least once: a valid identifier')
        return None

    def r_dead(self, s):
        """an inherent, non-public function that nothing in the crate refers to (no call by path, no method call of that name, not
        even as a value) cannot run: a proc-macro crate exports nothing but its derive entry point"""
        f = s.fw.fn
        if f.trait is not None or (f.item.get('vis') or '') == 'pub' or f.name in ('main',):
            return None
        # a helper whose calls have all been replaced by its body (N8) is not referred to any more in the normalised crate, but it runs
        if id(f) in getattr(self.cx.crate, 'fully_inlined', ()) or getattr(self.cx.crate, 'inlined_into', {}).get(id(f), 0) > 0:
            return None
        if getattr(self, '_refs', None) is None:
            from ..syn import walk_json
            refs = set()
            for g in self.cx.crate.fns:
                for x in walk_json(g.item.get('block')):
                    if isinstance(x, dict):
                        if x.get('k') == 'MethodCall':
                            refs.add(x.get('method'))
                        elif x.get('k') == 'Path' and isinstance(x.get('path'), dict) and x['path'].get('segs'):
                            refs.add(x['path']['segs'][-1]['id'])
                        elif x.get('k') == 'Macro' and isinstance(x.get('mac'), dict):
                            for t_ in walk_json(x['mac'].get('tokens') or x['mac'].get('tmpl') or []):
                                if isinstance(t_, dict) and t_.get('t') == 'i':
                                    refs.add(t_.get('s'))
            self._refs = refs
        if f.name in self._refs:
            return None
        # attribute macros (derive entry points) are referenced by the compiler
        if any(a.get('name', '').startswith('proc_macro') for a in (f.item.get('attrs') or [])):
            return None
        return ('R0-dead-code', 'the function `%s` is referred to nowhere in the crate' % f.qname)

    def discharge(self, s):
        """returns (rule name, explanation) or None"""
        r0 = self.r_dead(s)
        if r0:
            return r0
        r8 = self.r_fresh_loop(s)
        if r8:
            return r8
        for rule in (self.r_get_ident, self.r_parse2, self.r_named_ident, self.r_len1, self.r_assert, self.r_unreachable_nothing,
                     self.r_insert_str, self.r_map_insert, self.r_arith, self.r_index, self.r_format_ident, self.r_roundtrip,
                     self.r_ident_new):
            r = rule(s)
            if r:
                return r
        return None

    # R1 ----------------------------------------------------------------------------------
    def r_get_ident(self, s):
        if s.kind != 'unwrap' or s.ev.method != 'unwrap':
            return None
        r = s.ev.recv
        if not (r['k'] == 'MethodCall' and r['method'] == 'get_ident' and not r['args']):
            return None
        pt = self.tm(s.fw).term(r['recv'], s.ev.scope)
        if self.mf.validated_path(pt, s.ev.ctx, s.fw):
            return ('R1-validated-path', 'path `%s` passed Trait::from_path / is_ident on every path to this site (incl. all callers)' % es(r['recv']))
        return None

    # R2 ----------------------------------------------------------------------------------
    def r_parse2(self, s):
        if s.kind != 'unwrap' or s.ev.method != 'unwrap':
            return None
        r = s.ev.recv
        if not (r['k'] == 'Call' and r['func']['k'] == 'Path' and r['func']['path']['s'] in ('syn::parse2', 'parse2') and len(r['args']) == 1):
            return None
        fw = s.fw
        hg = self.cx.hg(fw.fn)
        leaves = hg.leaves(r['args'][0], s.ev.scope, s.ev.ctx, fw)
        if not leaves or any(l.kind != 'tmpl' for l in leaves):
            return None
        cats = ['path', 'type', 'expr', 'wherepreds']
        for l in leaves:
            t = l.tmpl
            okc = None
            for c in cats:
                ok, ast, forms = self.cx.gm.parse(t, c)
                if ok:
                    okc = c
                    break
            if okc is None:
                return None
            # holes must be of syntactic classes that print into that category: check binding types
            for h in t.holes:
                d = t.hole_def(h)
                if d is None:
                    return None
                # a hole whose value is sometimes a lifetime and sometimes something else (`match param { Type(t) => t.ident.., Lifetime(l)
                # => l.lifetime.. }`) was parsed with one placeholder only: `'a: Trait` is no where-predicate, `T: Trait` is
                from .c19 import binder_leaves as _bl
                from ..tmpl import is_lifetime_term as _ilt

                def _lt(x_):
                    while isinstance(x_, tuple) and len(x_) == 3 and x_[0] == 'mcall' and x_[2] in ('to_token_stream', 'into_token_stream', 'clone', 'to_owned'):
                        x_ = x_[1]
                    return _ilt(x_)
                lv = [_lt(x_) for x_ in _bl(t.hole_term(h))]
                if any(lv) and not all(lv):
                    return None
            # a syn `Punctuated` prints its trailing punctuation when it has one (`T: A +`): followed by more tokens of the same list
            # (`#bounds + #trait`) the result is `A + + Trait`, which does not re-parse
            if punctuated_hole_followed(t):
                return None
        return ('R2-template-parses', 'every template reaching this parse2 parses as %s under hole substitution' % '/'.join(sorted(set(cats))))

    # R3 ----------------------------------------------------------------------------------
    def named_base(self, base_term, ctx, fw):
        """is the collection term a named-field list here? (`x.named`, or `x.fields` under a Fields::Named arm)"""
        if not isinstance(base_term, tuple):
            return False
        if base_term[0] == 'field' and base_term[2] == 'named':
            return True
        if base_term[0] == 'payload' and base_term[1] == 'Fields::Named':
            return True
        tm = self.tm(fw)
        for c in ctx:
            if c['k'] == 'arm' and 'Fields::Named' in pat_s(c['pat']):
                if tm.term(c['scrut'], c['scope']) == base_term:
                    return True
            if c['k'] == 'iflet' and c['pol'] and 'Fields::Named' in pat_s(c['pat']):
                if tm.term(c['expr'], c['scope']) == base_term:
                    return True
        return False

    def field_sources(self, t, fw, acc, depth=0, proj=()):
        """collect the leaf sources of a term (through conditionals, options, tuples/projections, vars);
        diverging branches (`never`) contribute nothing."""
        if depth > 14 or not isinstance(t, tuple):
            acc.append(('?', t))
            return
        h = t[0]
        if h in ('never', 'None'):
            return
        if h in ('ite', 'iflet'):
            for x in t[-2:]:
                if x is not None:
                    self.field_sources(x, fw, acc, depth + 1, proj)
        elif h == 'match':
            for pat, x in t[2:]:
                self.field_sources(x, fw, acc, depth + 1, proj)
        elif h in ('some_of', 'Some', 'unwrap'):
            self.field_sources(t[1], fw, acc, depth + 1, proj)
        elif h == 'proj':
            self.field_sources(t[2], fw, acc, depth + 1, (t[1],) + proj)
        elif h == 'tuple':
            if proj and proj[0] + 1 < len(t):
                self.field_sources(t[1 + proj[0]], fw, acc, depth + 1, proj[1:])
            else:
                acc.append(('?', t))
        elif proj:
            if h == 'var':
                d = self.tm(fw).def_by_id(t[1])
                if d is None or not d.assigns:
                    acc.append(('?', t))
                    return
                for a in d.assigns:
                    self.field_sources(self.tm(fw).term(a.value, a.scope), fw, acc, depth + 1, proj)
                if d.init is not None:
                    self.field_sources(self.tm(fw).term(d.init, d.scope), fw, acc, depth + 1, proj)
            else:
                acc.append(('?', t))
        elif h in ('elem', 'index', 'param', 'idx', 'lit'):
            acc.append((h, t))
        elif h == 'var':
            d = self.tm(fw).def_by_id(t[1])
            if d is None or not d.assigns:
                acc.append(('?', t))
                return
            for a in d.assigns:
                self.field_sources(self.tm(fw).term(a.value, a.scope), fw, acc, depth + 1, proj)
            if d.init is not None:
                self.field_sources(self.tm(fw).term(d.init, d.scope), fw, acc, depth + 1, proj)
        elif h == 'mcall' and t[2] in ('next', 'first', 'last'):
            b = t[1]
            while isinstance(b, tuple) and b[0] == 'mcall' and b[2] in ('iter', 'into_iter'):
                b = b[1]
            acc.append(('index', ('index', b, ('lit', 'Int', '0'))))
        else:
            acc.append(('?', t))

    def r_named_ident(self, s):
        if s.kind != 'unwrap' or s.ev.method != 'unwrap':
            return None
        tm = self.tm(s.fw)
        t = tm.term(s.ev.recv, s.ev.scope)
        if not (isinstance(t, tuple) and t[0] == 'field' and t[2] == 'ident'):
            return None
        srcs = []
        self.field_sources(t[1], s.fw, srcs)
        if not srcs:
            return None
        for kind, st in srcs:
            if kind == 'elem':
                ev = tm.for_event(st[1])
                if ev is None:
                    return None
                info = analyse_iter(ev.entry['iter'])
                bt = tm.term(info.base, ev.scope)
                if not (self.named_base(bt, s.ev.ctx, s.fw) or self.named_base(bt, ev.ctx, s.fw)):
                    return None
            elif kind == 'index':
                bt = st[1]
                while isinstance(bt, tuple) and bt[0] == 'mcall' and bt[2] in ('iter', 'into_iter'):
                    bt = bt[1]
                if not self.named_base(bt, s.ev.ctx, s.fw):
                    return None
            else:
                return None
        return ('R3-named-field', 'the field comes from a named-field list (Fields::Named arm / `.named`) on every path')

    # R4 ----------------------------------------------------------------------------------
    def r_len1(self, s):
        tm = self.tm(s.fw)
        if s.kind == 'unwrap' and s.ev.method == 'unwrap':
            r = s.ev.recv
            if r['k'] == 'MethodCall' and r['method'] in ('next', 'first', 'last') and not r['args']:
                base = r['recv']
                while base['k'] == 'MethodCall' and base['method'] in ('iter', 'into_iter') and not base['args']:
                    base = base['recv']
                bt = tm.term(base, s.ev.scope)
                if self.mf.nonempty(bt, s.ev.ctx, s.fw):
                    return ('R4-nonempty', '`%s` is non-empty here (dominating len()==1 / !is_empty())' % es(base))
        return None

    def r_index(self, s):
        if s.kind != 'index':
            return None
        tm = self.tm(s.fw)
        e = s.ev.node
        idx = e['index']
        bt = tm.term(e['base'], s.ev.scope)
        if idx['k'] == 'Lit' and idx['lit'].get('digits') == '0':
            if self.mf.nonempty(bt, s.ev.ctx, s.fw):
                return ('R4-nonempty-index', '`%s` is non-empty here' % es(e['base']))
            return None
        if idx['k'] == 'Range':
            # X[..X.len() - 1] on a const array
            to = idx.get('to')
            if idx.get('from') is None and to is not None and to['k'] == 'Binary' and to['op'] == '-' and es(to['l_']) == es(e['base']) + '.len()':
                if self.const_nonempty(e['base'], s):
                    return ('R4-slice-len-minus-1', 'slice bound is len()-1 of a collection with at least one element')
        return None

    def const_nonempty(self, base, s):
        """`Trait::VARIANTS`: generated by Ordinalize from the enum's variants; non-empty iff the enum has an
        un-cfg'd variant."""
        if es(base) == 'Trait::VARIANTS' or (es(base) == 'Self::VARIANTS' and s.fw.fn.self_ty == 'Trait'):
            item, _ = self.cx.crate.find_type(s.fw.fn.module, 'Trait')
            if item is not None and item['k'] == 'Enum':
                from ..model import cfgs_of_attrs
                return any(not cfgs_of_attrs(v.get('attrs')) for v in item['variants'])
        return False

    # R5 ----------------------------------------------------------------------------------
    def r_assert(self, s):
        if s.kind != 'macro' or s.ev.name not in ('debug_assert', 'assert'):
            return None
        args = s.ev.mac.get('args') or []
        if not args:
            return None
        cond = args[0]
        tm = self.tm(s.fw)
        ds = disjuncts(cond)
        # form A: meta.path().is_ident("X") || ...
        if all(d['k'] == 'MethodCall' and d['method'] == 'is_ident' and len(d['args']) == 1 and d['args'][0]['k'] == 'Lit' for d in ds):
            allowed = set(d['args'][0]['lit']['v'] for d in ds)
            recvs = set()
            for d in ds:
                rt = tm.term(d['recv'], s.ev.scope)
                recvs.add(rt)
            if len(recvs) != 1:
                return None
            pt = recvs.pop()
            if not (isinstance(pt, tuple) and pt[0] == 'mcall' and pt[2] == 'path'):
                return None
            ids = self.mf.ident_set(pt[1], s.ev.ctx, s.fw)
            if ids is not None and ids and ids <= allowed:
                return ('R5-ident-typestate', 'every caller passes a meta whose path is one of %s (possible: %s)' % (sorted(allowed), sorted(ids)))
            return None
        # form B: !meta.is_empty()
        if len(ds) == 1 and ds[0]['k'] == 'Unary' and ds[0]['op'] == '!' and ds[0]['expr']['k'] == 'MethodCall' and ds[0]['expr']['method'] == 'is_empty':
            ct = tm.term(ds[0]['expr']['recv'], s.ev.scope)
            if self.mf.nonempty(ct, s.ev.ctx, s.fw):
                return ('R5-nonempty', 'every caller passes a non-empty collection')
        return None

    def r_unreachable_nothing(self, s):
        if s.kind != 'macro' or s.ev.name != 'unreachable':
            return None
        # dominated by `if map.contains_key(&Trait::_Nothing)` where no insertion can use that key
        tm = self.tm(s.fw)
        for c in s.ev.ctx:
            if c['k'] == 'if' and c['pol'] and c['cond']['k'] == 'MethodCall' and c['cond']['method'] == 'contains_key':
                key = c['cond']['args'][0]
                kt = tm.term(key, c['scope'])
                mt = tm.term(c['cond']['recv'], c['scope'])
                if isinstance(kt, tuple) and kt[0] == 'path' and kt[1].startswith('Trait::') and self.mf.map_keys_are_from_path(mt, s.fw):
                    variant = kt[1].split('::')[-1]
                    if not self.from_path_can_return(variant):
                        return ('R5-key-never-inserted', 'map keys are results of Trait::from_path, which has no arm returning `%s`' % variant)
        return None

    def from_path_can_return(self, variant):
        """Trait::from_path must be an enumeration: every way it produces a result is `None` or `Some(Self::<V>)` for a literal variant
        V; it can return `variant` iff some result names it.  Any other way of producing the result (a table lookup, a conversion)
        may yield any variant."""
        from .traitenum import from_path_model
        fm = from_path_model(self.cx)
        if fm is None:
            return True
        form, table, any_ = fm
        if any_:
            return True
        return any(v == variant for v, _ in table.values())

    # R6 ----------------------------------------------------------------------------------
    def r_insert_str(self, s):
        if s.kind != 'method' or s.ev.method != 'insert_str':
            return None
        tm = self.tm(s.fw)
        a0 = s.ev.args[0]
        if not (a0['k'] == 'Lit' and a0['lit']['k'] == 'Int'):
            return None
        k = int(a0['lit']['digits'])
        # receiver string: built from `meta.into_token_stream().to_string()` (possibly with ASCII .replace)
        r = strip_refs(s.ev.recv)
        if r['k'] != 'Path':
            return None
        d = s.ev.scope.lookup(r['path']['s'])
        if d is None or d.init is None:
            return None
        it = tm.term(d.init, d.scope)
        metas = [x for x in subterms(it) if isinstance(x, tuple) and x[0] == 'mcall' and x[2] in ('into_token_stream', 'to_token_stream')]
        if not metas:
            return None
        m = metas[0][1]
        ids = self.mf.ident_set(m, s.ev.ctx, s.fw)
        if not ids or len(ids) != 1:
            return None
        ident = list(ids)[0]
        L = len(ident)
        if not ident.isascii():
            return None
        # must be inside `match s.len() { .. }`; for a literal arm n need k <= n; for the wildcard arm need k <= L+1 and an
        # explicit arm for n == L (the bare-path form) among the earlier arms
        for c in s.ev.ctx:
            if c['k'] == 'arm' and es(c['scrut']).replace(' ', '') == '%s.len()' % d.name:
                p = c['pat']
                if p['k'] == 'Lit' and p['lit']['k'] == 'Int':
                    n = int(p['lit']['digits'])
                    if k <= n and k <= L + 1 and n > L:
                        return ('R6-insert-str-bounded', 'insert index %d <= matched length %d and within the ASCII prefix `%s`+1' % (k, n, ident))
                    return None
                if p['k'] == 'Wild':
                    earlier = [x for x in c['earlier'] if x['k'] == 'Lit' and x['lit']['k'] == 'Int' and int(x['lit']['digits']) == L]
                    if earlier and k <= L + 1:
                        return ('R6-insert-str-bounded',
                                'wildcard arm: the printed meta starts with the ASCII identifier `%s` (%d bytes), length %d is handled by an earlier arm, any longer form has a 1-byte delimiter next, so index %d is in bounds and on a char boundary' % (ident, L, L, k))
        return None

    def r_map_insert(self, s):
        if s.kind != 'insert':
            return None
        r = strip_refs(s.ev.recv)
        if r['k'] == 'Path' and len(r['path']['segs']) == 1:
            d = s.ev.scope.lookup(r['path']['s'])
            if d is not None:
                txt = (ty_s(d.ty) if d.ty else '') + ' ' + (es(d.init) if d.init else '')
                if any(m in txt for m in ('BTreeMap', 'HashMap', 'BTreeSet', 'HashSet')):
                    return ('R-map-insert', 'insert on a map/set does not panic')
        if r['k'] == 'Field':
            return None
        return None

    # R7 ----------------------------------------------------------------------------------
    def r_arith(self, s):
        if s.kind != 'arith':
            return None
        e = s.ev.node
        tm = self.tm(s.fw)
        if e['k'] == 'Unary':
            x = e['expr']
            if x['k'] == 'Lit':
                return ('R7-const', 'negated literal')
            # -i with i: Ok(i) of base10_parse::<i128>() : i >= 0
            t = tm.term(x, s.ev.scope)
            # exactly the parsed value, with no cast in between: a cast (`n as isize`) can turn a large magnitude into T::MIN
            if isinstance(t, tuple) and ((t[0] == 'payload' and t[1] == 'Ok' and isinstance(t[3], tuple) and t[3][0] == 'mcall' and t[3][2] == 'base10_parse')
                                         or (t[0] == 'try' and isinstance(t[1], tuple) and t[1][0] == 'mcall' and t[1][2] == 'base10_parse')):
                return ('R7-neg-of-parsed-nonneg', 'operand is the Ok value of LitInt::base10_parse into the negated (signed) type: it is non-negative, so negation cannot overflow')
            return None
        op = e['op']
        l, r = e['l_'], e['r_']
        if op in ('+=',) and r['k'] == 'Lit' and r['lit'].get('digits') == '1' and l['k'] == 'Path' and len(l['path']['segs']) == 1:
            # a counter: `let mut n = 0;` and nothing but `n += 1` once per iteration of `for` loops over in-memory collections: n is at
            # most the number of elements visited, which an address space cannot make exceed usize::MAX / isize::MAX
            d = s.ev.scope.lookup(l['path']['s'])
            if d is not None and d.kind == 'let' and d.init is not None and d.init['k'] == 'Lit' and d.init['lit'].get('digits') == '0' \
                    and not any(c['k'] in ('for', 'loop') for c in d.ctx):
                steps = [a for a in d.assigns]
                okc = bool(steps)
                for a in steps:
                    txt = es(a.value).replace(' ', '') if getattr(a, 'value', None) is not None else ''
                    loops_ = [c for c in a.ctx if c['k'] in ('for', 'loop') and c not in d.ctx]
                    if getattr(a, 'op', '+=') not in ('+=',) and txt not in ('1',):
                        okc = False
                    if not loops_ or any(c['k'] == 'loop' for c in loops_):
                        okc = False
                    for c in loops_:
                        if c['k'] == 'for' and c['iter']['k'] == 'Range':
                            okc = False
                if okc:
                    return ('R7-element-counter', 'a counter started at 0 and incremented by one per element of in-memory collections')
        cv = [const_eval(e, w) for w in (16, 32, 64)]
        if all(c is not None for c in cv):
            return ('R7-const', 'constant expression, evaluated exactly for 16/32/64-bit pointer widths without leaving its type (%s)' % cv[-1][0])
        if op == '+':
            # isize::MIN + index as isize
            if es(l) in ('isize::MIN',) and r['k'] == 'Cast' and ty_s(r['ty']) == 'isize':
                t = tm.term(r['expr'], s.ev.scope)
                if isinstance(t, tuple) and t[0] == 'idx':
                    return ('R7-min-plus-index', '`isize::MIN + <enumerate index> as isize`: the index of an in-memory collection is < isize::MAX')
            if l['k'] == 'Lit' and r['k'] == 'Lit':
                return ('R7-const', 'constant arithmetic')
        if op == '-':
            if r['k'] == 'Lit' and r['lit'].get('digits') == '1' and l['k'] == 'MethodCall' and l['method'] == 'len':
                if self.const_nonempty(l['recv'], s):
                    return ('R7-len-minus-1', 'len() of a collection with at least one element')
        return None

    def r_format_ident(self, s):
        if s.kind != 'format_ident':
            return None
        args = s.ev.mac.get('args') or []
        if not args or args[0]['k'] != 'Lit' or args[0]['lit']['k'] != 'Str':
            return None
        fmt = args[0]['lit']['v']
        import re
        lit = re.sub(r'\{[^}]*\}', '', fmt)
        if not re.fullmatch(r'[A-Za-z_][A-Za-z0-9_]*', lit or '_') and lit:
            return None
        tm = self.tm(s.fw)
        if fmt.startswith('{'):
            # first piece is an argument: must be identifier text, not a number
            if fmt == '{}' and len(args) == 2 and self.is_ident_string_var(args[1], s):
                return ('R-format-ident', 'the only argument is a String initialised with an identifier literal and only extended with identifier characters')
            return None
        for a in args[1:]:
            t = tm.term(a, s.ev.scope)
            if isinstance(t, tuple) and (t[0] in ('idx', 'format_ident') or (t[0] == 'unwrap' and t[1][0] == 'field' and t[1][2] == 'ident')
                                         or (t[0] == 'field' and t[2] == 'ident')
                                         or (t[0] == 'some_of' and isinstance(t[1], tuple) and t[1][0] == 'field' and t[1][2] == 'ident')):
                continue
            srcs = []
            self.field_sources(t, s.fw, srcs)
            if srcs and all(k == 'idx' or (k == 'lit' and st[1] == 'Int') for k, st in srcs):
                continue
            return None
        return ('R-format-ident', 'literal prefix starts with a letter/underscore and every argument is an identifier or an index')

    def is_ident_string_var(self, a, s):
        import re
        a = strip_refs(a)
        if a['k'] != 'Path' or len(a['path']['segs']) != 1:
            return False
        d = s.ev.scope.lookup(a['path']['s'])
        if d is None or d.init is None or d.assigns:
            return False
        i = d.init
        if not (i['k'] == 'Call' and es(i['func']) in ('String::from',) and len(i['args']) == 1 and i['args'][0]['k'] == 'Lit'
                and isinstance(i['args'][0]['lit'].get('v'), str) and re.fullmatch(r'[A-Za-z_][A-Za-z0-9_]*', i['args'][0]['lit']['v'])):
            return False
        for ev in s.fw.events:
            if ev.kind == 'mcall' and ev.method not in ('push', 'push_str', 'as_str', 'len', 'clone', 'to_string'):
                r = strip_refs(ev.recv)
                if r['k'] == 'Path' and r['path']['s'] == d.name and ev.scope.lookup(d.name) is d:
                    return False
            if ev.kind == 'mcall' and ev.method in ('push', 'push_str'):
                r = strip_refs(ev.recv)
                if r['k'] == 'Path' and r['path']['s'] == d.name and ev.scope.lookup(d.name) is d:
                    x = ev.args[0]
                    v = x['lit'].get('v') if x['k'] == 'Lit' else None
                    if not (isinstance(v, str) and re.fullmatch(r'[A-Za-z0-9_]+', v)):
                        return False
        return True

    def r_roundtrip(self, s):
        """`parse_str(self.0.as_str()).unwrap()` / `TokenStream::from_str(self.0.as_str()).unwrap()` on a string that only
        ever comes from `ToTokens::to_string()`"""
        if s.kind != 'unwrap':
            return None
        r = s.ev.recv
        if not (r['k'] == 'Call' and r['func']['k'] == 'Path' and r['func']['path']['s'] in ('syn::parse_str', 'proc_macro2::TokenStream::from_str', 'TokenStream::from_str')):
            return None
        a = r['args'][0]
        fn = s.fw.fn
        from .helpers import string_field_of, ctor_string_args
        K = string_field_of(self.cx, fn)
        if K is None or self.tm(s.fw).term(a, s.ev.scope) != ('field', ('param', 'self'), K):
            return None
        # all constructors of the self type in the crate: the String component is `<x>.into_token_stream().to_string()`
        ctor_ok = True
        n = 0
        for f in self.cx.crate.fns:
            if f.self_ty == fn.self_ty and f.module.path == fn.module.path:
                for t in ctor_string_args(self.cx, f, K):
                    n += 1
                    if not (isinstance(t, tuple) and t[0] == 'mcall' and t[2] == 'to_string' and isinstance(t[1], tuple) and t[1][0] == 'mcall' and t[1][2] in ('into_token_stream', 'to_token_stream')):
                        ctor_ok = False
        if ctor_ok and n > 0:
            return ('R2-token-string-roundtrip', 'the string is only ever produced by ToTokens::to_string() (%d constructor sites), which re-lexes/re-parses' % n)
        return None

    def r_ident_new(self, s):
        if s.kind != 'ident_new':
            return None
        a = s.ev.args[0] if s.ev.args else None
        if a is None:
            return None
        t = self.tm(s.fw).term(a, s.ev.scope)
        # Ident::new(&format!("_{}", index), ..): a letter/underscore prefix followed by decimal digits is an identifier
        whole = self.tm(s.fw).term(s.ev.node, s.ev.scope)
        if isinstance(whole, tuple) and whole[0] == 'format_ident' and isinstance(whole[1], str):
            import re
            lit = re.sub(r'\{[^}]*\}', '', whole[1])
            if re.fullmatch(r'[A-Za-z_][A-Za-z0-9_]*', lit) and not whole[1].startswith('{') and lit not in ('_',) or (lit == '_' and whole[1] != '_'):
                return ('R-ident-numbered', 'literal prefix `%s` followed by numbers only' % lit)
        # Ident::new(self.as_str(), ..) where as_str() returns only literal keywords-free identifiers
        if a['k'] == 'Lit' and a['lit']['k'] == 'Str':
            return ('R-ident-const', 'constant identifier text')
        if a['k'] == 'MethodCall' and a['method'] == 'as_str' and es(a['recv']) == 'self':
            for f in self.cx.crate.fns:
                if f.name == 'as_str' and f.self_ty == s.fw.fn.self_ty and f.module.path == s.fw.fn.module.path:
                    import re
                    vals = [v for v in (n.get('lit', {}).get('v') for n in S.walk_json(f.block) if n.get('k') == 'Lit') if isinstance(v, str)]
                    if vals and all(re.fullmatch(r'[a-z][a-z0-9]*', v) for v in vals):
                        return ('R-ident-const', 'as_str() yields only the constant identifiers %s' % vals)
        return None


# ------------------------------------------------------------------------------------------
# termination
# ------------------------------------------------------------------------------------------

FINITE_ITER_OK = {'iter', 'into_iter', 'values', 'keys', 'enumerate', 'zip', 'rev', 'iter_mut', 'skip', 'take', 'chars', 'bytes',
                  'lines', 'split', 'filter', 'map', 'copied', 'cloned', 'values_mut', 'into_values', 'into_keys', 'drain'}
INFINITE_SOURCES = {'repeat', 'repeat_with', 'from_fn', 'successors', 'cycle', 'once_with'}


def check_termination(cx, cg, fns, rep):
    for f in fns:
        fw = cx.fw(f)
        for ev in fw.events:
            if ev.kind == 'for':
                it = ev.entry['iter']
                bad = None
                e = strip_refs(it)
                if e['k'] == 'Range':
                    if e.get('to') is None:
                        bad = 'unbounded range'
                else:
                    x = e
                    while x['k'] == 'MethodCall':
                        if x['method'] in INFINITE_SOURCES:
                            bad = 'infinite iterator adaptor .%s()' % x['method']
                        x = strip_refs(x['recv'])
                    if x['k'] == 'Call' and x['func']['k'] == 'Path' and x['func']['path']['segs'][-1]['id'] in INFINITE_SOURCES:
                        bad = 'infinite iterator source %s' % x['func']['path']['s']
                if bad:
                    rep.bad('TERM', f.qname, 'for=%s' % es(it)[:60], 'loop may not terminate: ' + bad, f.file, ev.line)
                else:
                    rep.ok('TERM', '%s|for %s' % (f.qname, es(it)[:60]))
            elif ev.kind == 'loop':
                if structural_descent_loop(ev.node, cx):
                    rep.ok('TERM', '%s|structural descent loop' % f.qname, {'file': f.file, 'line': ev.line, 'why': '`while let P(x) = v { v = <a field of x> }` walks down a finite syntax tree'})
                elif fresh_name_loop_ok(fw, ev, cx):
                    rep.ok('TERM', '%s|fresh-name search loop' % f.qname, {'file': f.file, 'line': ev.line, 'why': 'candidate grows every iteration; exits when absent from a finite set'})
                else:
                    rep.bad('TERM', f.qname, '%s-loop' % ev.node['k'].lower(),
                            '`%s` loop without a recognised termination argument' % ev.node['k'].lower(), f.file, ev.line)
    rec = cg.sccs()
    for f in rec:
        if f not in fns:
            continue
        ok = structurally_decreasing(cx, cg, f)
        if ok:
            rep.ok('TERM', '%s|recursion on a strict sub-term of the argument' % f.qname, {'file': f.file, 'line': f.line})
        else:
            rep.bad('TERM', f.qname, 'recursion', 'recursive function without a structurally decreasing argument', f.file, f.line)


def structural_descent_loop(node, cx=None):
    """`while let Variant(x) = v { v = x.field[.as_ref()/&..]; }`: every iteration replaces v by a strict sub-term of itself"""
    if descent_loop_arms(node) is not None:
        return True
    if node.get('k') != 'While' or not isinstance(node.get('cond'), dict) or node['cond'].get('k') != 'Let':
        return False
    c = node['cond']
    v = strip_refs(c['expr'])
    if v['k'] == 'Call' and v['func']['k'] == 'Path' and v['func']['path']['segs'][-1]['id'] == 'ungroup' and len(v['args']) == 1 and cx is not None:
        # `while let Variant(x) = ungroup(v)`: the helper (shape checked by the SUM-DEREF rule) returns its argument or a part of it
        from .c09 import check_ungroup_helper
        from ..report import Report
        if check_ungroup_helper(cx, Report('C17')):
            v = strip_refs(v['args'][0])
    if v['k'] != 'Path' or len(v['path']['segs']) != 1:
        return False
    p = c['pat']
    if p.get('k') != 'TupleStruct' or len(p.get('elems', [])) != 1 or p['elems'][0].get('k') != 'Ident':
        return False
    x = p['elems'][0]['name']
    st = node['body'].get('stmts', [])
    if len(st) != 1 or st[0].get('k') != 'Expr' or st[0]['expr'].get('k') != 'Assign':
        return False
    a = st[0]['expr']
    if a['l_'].get('k') != 'Path' or a['l_']['path']['s'] != v['path']['s']:
        return False
    r = a['r_']
    while r.get('k') in ('Ref', 'Paren') or (r.get('k') == 'MethodCall' and r.get('method') in ('as_ref', 'as_mut', 'deref') and not r['args']) \
            or (r.get('k') == 'Unary' and r.get('op') == '*'):
        r = r.get('expr') or r.get('recv')
    return r.get('k') == 'Field' and r['base'].get('k') == 'Path' and r['base']['path']['s'] == x


def descent_loop_arms(node):
    """`loop { v = match v { P(x) => <a field of x>, .., _ => return v | break v }; }` -> (v, [(pattern path | '_', ('descend', field) |
    ('exit', 'return' | 'break'))]) or None.  Every iteration replaces v by a strict part of itself or leaves the loop with v."""
    if node.get('k') != 'Loop':
        return None
    st = node['body'].get('stmts', [])
    if len(st) != 1 or st[0].get('k') != 'Expr' or st[0]['expr'].get('k') != 'Assign':
        return None
    a = st[0]['expr']
    if a['l_'].get('k') != 'Path' or len(a['l_']['path']['segs']) != 1:
        return None
    v = a['l_']['path']['s']
    m = a['r_']
    if m.get('k') != 'Match':
        return None
    sc = strip_refs(m['expr'])
    if sc.get('k') != 'Path' or sc['path']['s'] != v:
        return None
    out = []
    for arm in m['arms']:
        if arm.get('guard'):
            return None
        pt = arm['pat']
        b = arm['body']
        while b.get('k') == 'Block' and len((b.get('block') or b).get('stmts') or []) == 1 and (b.get('block') or b)['stmts'][0].get('k') == 'Expr':
            b = (b.get('block') or b)['stmts'][0]['expr']
        if b.get('k') in ('Return', 'Break') and isinstance(b.get('expr'), dict) and strip_refs(b['expr']).get('k') == 'Path' and strip_refs(b['expr'])['path']['s'] == v:
            out.append((pat_s(pt).split('(')[0], ('exit', b['k'].lower())))
            continue
        if pt.get('k') != 'TupleStruct' or len(pt.get('elems', [])) != 1 or pt['elems'][0].get('k') != 'Ident':
            return None
        x = pt['elems'][0]['name']
        r = b
        while r.get('k') in ('Ref', 'Paren') or (r.get('k') == 'MethodCall' and r.get('method') in ('as_ref', 'as_mut', 'deref') and not r['args']) \
                or (r.get('k') == 'Unary' and r.get('op') == '*'):
            r = r.get('expr') or r.get('recv')
        if not (r.get('k') == 'Field' and r['base'].get('k') == 'Path' and r['base']['path']['s'] == x):
            return None
        out.append((pt['path']['s'], ('descend', r['member'])))
    if not any(k[0] == 'exit' for _, k in out):
        return None
    return v, out


def _idents_in(node):
    from ..syn import walk_json
    out = set()
    for x in walk_json(node):
        if isinstance(x, dict) and x.get('k') == 'Path' and isinstance(x.get('path'), dict) and len(x['path'].get('segs', ())) == 1:
            out.add(x['path']['s'])
        if isinstance(x, dict) and x.get('k') == 'Macro' and isinstance(x.get('mac'), dict):
            for a in x['mac'].get('args') or []:
                out |= _idents_in(a)
    return out


def fresh_name_loop_ok(fw, ev, cx=None):
    """while/loop that searches an unused name: the body must extend the candidate (push/push_str/format!/+= 1)
    on every iteration, the loop must exit through a test of membership in a finite collection, and that test must look at the
    candidate *as extended*: it mentions the variable the body extends, or a value recomputed from it inside the loop (a test of
    something computed once before the loop never changes its answer)."""
    node = ev.node
    body = node.get('body') or node
    body_txt = es(body)
    grows = any(x in body_txt for x in ('.push(', '.push_str(', 'format!(', '+= 1', 'format_ident!('))
    cond = node.get('cond')
    tests = any(x in (es(cond) if cond else body_txt) for x in ('.any(', '.contains(', '.all(', '.iter().find('))
    if grows and not tests and cx is not None and cond is not None:
        # the membership test may live in a helper: "some generic parameter is called <candidate>" (finite parameter list)
        from .c19 import exists_param_named
        tests = exists_param_named(cx, fw, cond, 0, ev.scope) is not None
    if grows and not tests and cx is not None and cond is None:
        from .c19 import check_fresh_provider
        # `loop { let c = F(state); if !taken(c) { break c; } grow(state); }`: the provider rule of C19 checks exactly that shape
        return check_fresh_provider(cx, fw.fn)
    if not (grows and tests):
        return False
    # which variables does the body extend / re-assign?
    lid = ev.entry['id'] if getattr(ev, 'entry', None) else None
    inside = [e for e in fw.events if lid is not None and any(c.get('id') == lid for c in e.ctx)]
    grown = set()
    for e in inside:
        if e.kind == 'mcall' and e.method in ('push', 'push_str'):
            r = strip_refs(e.recv)
            if r['k'] == 'Path' and len(r['path']['segs']) == 1:
                grown.add(r['path']['s'])
        if e.kind == 'assign' and e.target['k'] == 'Path' and len(e.target['path']['segs']) == 1:
            grown.add(e.target['path']['s'])
    if not grown:
        return False
    # values recomputed inside the loop from a grown variable
    changed = True
    derived = set(grown)
    while changed:
        changed = False
        for e in inside:
            if e.kind == 'let' and e.init is not None and e.defs and (_idents_in(e.init) & derived):
                for d in e.defs:
                    if d.name not in derived:
                        derived.add(d.name)
                        changed = True
    test_nodes = [cond] if cond is not None else [e.node.get('cond') for e in inside if e.kind == 'branch' and e.node.get('cond') is not None]
    return any(_idents_in(t) & derived for t in test_nodes if t is not None)


def _from_param_iteration(t, params, depth=0):
    """is the term a (payload of a) loop element / match binder obtained by iterating one of the function's parameters?"""
    from ..terms import subterms
    if depth > 6 or not isinstance(t, tuple):
        return False
    has_param = any(isinstance(x, tuple) and x and x[0] == 'param' and x[1] in params for x in subterms(t))
    has_elem = any(isinstance(x, tuple) and x and x[0] in ('elem', 'payload') for x in subterms(t))
    return (has_param and has_elem) or (isinstance(t, tuple) and t and t[0] == 'payload' and has_elem)


def structurally_decreasing(cx, cg, f):
    fw = cx.fw(f)
    params = [p[0] for p in f.params()]
    for ev, callees in cg.edges.get(id(f), []):
        if f in callees:
            if not ev.args:
                return False
            a = ev.args[0]
            t = cx.gm.terms_of(fw).term(a, ev.scope)
            # argument must be a projection (field / payload) of a parameter
            def proj_of_param(t):
                if not isinstance(t, tuple):
                    return False
                if t[0] in ('field',):
                    return proj_of_param(t[1]) or (t[1][0] in ('payload', 'param'))
                if t[0] == 'payload':
                    return True
                return False
            # `f(group.stream(), ..)` with `group` taken out of the token stream that is the argument: the nested stream of a group
            # is a strict part of the stream that contains the group
            if isinstance(t, tuple) and t and t[0] == 'mcall' and len(t) == 3 and t[2] == 'stream' and _from_param_iteration(t[1], params):
                continue
            if not proj_of_param(t):
                return False
    return True


# ------------------------------------------------------------------------------------------

def entry_fns(cx):
    return [f for f in cx.crate.fns if f.name in ('educe_derive',)]


def run(cx, tier='quick'):
    rep = Report('C17')
    rep.explanation.append(
        'PANIC: syntax-level census of every panic-capable construct (unwrap/expect, panicking macros incl. debug_assert!, index '
        'expressions, insert_str & other panicking std methods, unchecked integer arithmetic, abort calls, Ident::new/format_ident!) in all '
        'functions of the crate; each site must match a discharge rule (R1 validated-path typestate over the call graph, R2 template '
        're-parse, R3 named-field provenance, R4 non-emptiness, R5 identifier typestate of debug_assert!s and never-inserted map keys, '
        'R6 bounded insert_str, R7 arithmetic idioms). TERM: every loop is a `for` over a finite collection/range or a recognised '
        'fresh-name search; recursion only on strict sub-terms.')
    cg = CallGraph(cx)
    mf = MetaFacts(cx, cg)
    fns = list(cx.crate.fns)
    roots = entry_fns(cx)
    if not roots:
        rep.broken.append('derive entry point `educe_derive` not found')
    sites = census(cx, fns)
    dis = Discharger(cx, cg, mf)
    by_rule = {}
    for s in sites:
        if s.kind == 'loop':
            continue
        r = dis.discharge(s)
        inst = '%s=%s' % (s.kind, s.what)
        if r:
            by_rule[r[0]] = by_rule.get(r[0], 0) + 1
            rep.ok('PANIC', '%s|%s|%s' % (s.where, inst, ctx_hash(s)), {'file': s.fw.fn.file, 'line': s.ev.line, 'site': s.what, 'discharged_by': r[0], 'why': r[1]})
        elif id(s.fw.fn) in getattr(cx.crate, 'fully_inlined', ()) and copy_elsewhere(sites, s):
            # a private helper every call of which has been inlined (N8): the copy of this site in each caller is censused there, with
            # the caller's knowledge about the arguments; the helper's own body is not reachable in any other way
            rep.ok('PANIC', '%s|%s|%s' % (s.where, inst, ctx_hash(s)), {'file': s.fw.fn.file, 'line': s.ev.line, 'site': s.what, 'discharged_by': 'inlined-into-all-callers'})
        else:
            rep.bad('PANIC', s.where, inst,
                    'panic-capable site with no discharge proof: `%s` (context: %s)' % (s.what, ctx_s(s.ev.ctx)[:300] or 'unconditional'),
                    s.fw.fn.file, s.ev.line, {'kind': s.kind})
    rep.extra['discharged_by_rule'] = by_rule
    rep.extra['census'] = {k: len([s for s in sites if s.kind == k]) for k in sorted(set(s.kind for s in sites))}
    check_termination(cx, cg, fns, rep)
    from .. import mir as _mir
    for cfg_ in _mir.configs(tier):
        check_mir(cx, sites, rep, cfg_)
    rep.floor('PANIC', 150, '(≈230 sites today)')
    rep.floor('TERM', 100)
    rep.assumptions += ['syn/quote/proc-macro2 do not panic on a valid derive input; ToTokens::to_string() output re-lexes and re-parses',
                        'stack depth: recursion only in common::type::dereference, bounded by syn\'s own parser recursion',
                        'a printed Meta starts with its path identifier followed by a one-byte delimiter (space, `(`, `=`)']
    rep.not_decided += ['panics inside syn/quote/proc-macro2', 'stack exhaustion']
    return rep


INT_BITS = {'i8': 8, 'i16': 16, 'i32': 32, 'i64': 64, 'i128': 128, 'u8': 8, 'u16': 16, 'u32': 32, 'u64': 64, 'u128': 128}


def _range(ty, w):
    if ty in ('isize', 'usize'):
        b = w
    elif ty in INT_BITS:
        b = INT_BITS[ty]
    else:
        return None
    return (-(1 << (b - 1)), (1 << (b - 1)) - 1) if ty[0] == 'i' else (0, (1 << b) - 1)


def const_eval(e, w):
    """(value, type) of a constant integer expression for pointer width w, or None if not constant or if it leaves its type"""
    k = e['k']
    if k == 'Paren' or k == 'Group':
        return const_eval(e['expr'], w)
    if k == 'Lit' and e['lit']['k'] == 'Int':
        try:
            v = int(e['lit']['digits'])
        except (KeyError, ValueError):
            return None
        return (v, e['lit'].get('suffix') or None)
    if k == 'Path':
        segs = es(e).split('::')
        if len(segs) == 2 and segs[1] in ('MAX', 'MIN') and _range(segs[0], w):
            lo, hi = _range(segs[0], w)
            return (hi if segs[1] == 'MAX' else lo, segs[0])
        return None
    if k == 'Cast':
        x = const_eval(e['expr'], w)
        ty = ty_s(e['ty'])
        rg = _range(ty, w)
        if x is None or rg is None:
            return None
        v = x[0]
        if x[1] is None and not (rg[0] <= v <= rg[1]):
            return None
        span = rg[1] - rg[0] + 1
        v = (v - rg[0]) % span + rg[0]   # `as` wraps, it never panics
        return (v, ty)
    if k == 'Unary' and e.get('op') == '-':
        x = const_eval(e['expr'], w)
        if x is None:
            return None
        ty = x[1] or 'i32'
        rg = _range(ty, w)
        return (-x[0], x[1]) if rg and rg[0] <= -x[0] <= rg[1] else None
    if k == 'Binary' and e['op'] in ('+', '-', '*'):
        a, b = const_eval(e['l_'], w), const_eval(e['r_'], w)
        if a is None or b is None:
            return None
        if a[1] and b[1] and a[1] != b[1]:
            return None
        ty = a[1] or b[1]
        v = a[0] + b[0] if e['op'] == '+' else (a[0] - b[0] if e['op'] == '-' else a[0] * b[0])
        rg = _range(ty or 'i32', w)
        if not (rg[0] <= v <= rg[1]) or not (rg[0] <= a[0] <= rg[1]) or not (rg[0] <= b[0] <= rg[1]):
            return None
        return (v, ty)
    return None


def check_mir(cx, sites, rep, features=None):
    """MIR-PANIC / MIR-LOOP: rustc's own, type-resolved view of the crate (MIR of every function and closure, all features) must not
    contain a panic-capable terminator or a loop that the syntax-level census did not see (and therefore did not discharge)"""
    import collections
    from .. import mir
    if features is None:
      rep.explanation.append(
        'MIR-PANIC: cross-check against rustc: tools/mirfacts (rustc_private driver under `cargo +nightly check --all-features`, nothing '
        'is run) lists every Call terminator whose type-resolved callee is Option/Result::unwrap/expect, Index::index, core::panicking::*, '
        'process::exit/abort or a panicking std method, and every Assert terminator (bounds, overflow, division); per function and kind '
        'the count must not exceed the number of census sites the PANIC rule discharged. MIR-LOOP: every MIR back edge lies in a function '
        'whose loops the TERM rule examined.')
    rows = mir.facts(cx.repo, features)
    tag = '' if features is None else '|features=' + (','.join(features) or 'none')
    idx = mir.FnIndex(cx)
    M = collections.defaultdict(list)
    for r in rows:
        k = mir.panic_kind(r)
        if k is None and r['k'] == 'call':
            last = r['callee'].rsplit('::', 1)[-1]
            root = r['callee'].lstrip('<').split('::', 1)[0]
            if last in PANICKY_METHODS and root in ('std', 'core', 'alloc'):
                k = 'method'
        if k is None:
            continue
        f = idx.find(r['file'], r['line'])
        if f is None:
            rep.bad('MIR-PANIC', r['caller'], '%s@unmapped' % k, 'a panic-capable MIR terminator (%s) at %s:%d lies in no function known to the syntax model' % (r.get('callee', r.get('what')), r['file'], r['line']), r['file'], r['line'])
            continue
        M[(id(f), k)].append((f, r))
    A = collections.Counter()
    unsafe_fns = set()
    for s_ in sites:
        A[(id(s_.fw.fn), s_.kind)] += 1
    for f in cx.crate.fns:
        if any(ev.kind == 'unsafe' for ev in cx.fw(f).events):
            unsafe_fns.add(id(f))
    n = 0
    for (fid, k), lst in sorted(M.items(), key=lambda kv: (kv[1][0][0].qname, kv[0][1])):
        f = lst[0][0]
        n += 1
        if k == 'ptrcheck':
            if fid in unsafe_fns or any(not r['exp'] for _, r in lst):
                rep.bad('MIR-PANIC', f.qname, 'ptrcheck', 'pointer-validity checks in a function with user-written raw-pointer code', f.file, lst[0][1]['line'])
            else:
                rep.ok('MIR-PANIC', '%s|ptrcheck in std macro expansion, no unsafe code%s' % (f.qname, tag))
            continue
        have = A[(fid, k)] + (A[(fid, 'insert')] if k == 'method' else 0)
        if len(lst) > have:
            rep.bad('MIR-PANIC', f.qname, '%s>%d' % (k, have),
                    'rustc resolves %d panic-capable `%s` site(s) in this function (lines %s: %s) but the syntax census saw %d: a site is hidden from the discharge rules (operator/trait dispatch, macro, alias)'
                    % (len(lst), k, sorted(set(r['line'] for _, r in lst)), sorted(set(r.get('callee', r.get('what')) for _, r in lst))[:4], have), f.file, lst[0][1]['line'])
        else:
            rep.ok('MIR-PANIC', '%s|%s x%d <= census %d%s' % (f.qname, k, len(lst), have, tag))
    if features is None:
        rep.floor('MIR-PANIC', 40, '(functions x kinds with panic-capable MIR today)')
    # loops
    loops_ast = collections.Counter()
    for s_ in sites:
        if s_.kind == 'loop':
            loops_ast[id(s_.fw.fn)] += 1
    for f in cx.crate.fns:
        for ev in cx.fw(f).events:
            if ev.kind == 'for':
                loops_ast[id(f)] += 1
    B = collections.defaultdict(list)
    for r in rows:
        if r['k'] == 'backedge':
            f = idx.find(r['file'], r['line'])
            if f is None:
                rep.bad('MIR-LOOP', r['caller'], 'unmapped', 'a MIR loop at %s:%d lies in no function known to the syntax model' % (r['file'], r['line']), r['file'], r['line'])
                continue
            B[id(f)].append((f, r))
    for fid, lst in sorted(B.items(), key=lambda kv: kv[1][0][0].qname):
        f = lst[0][0]
        own = [r for _, r in lst if not r['exp']]
        own = list({(r['caller'], r.get('hdr')): r for r in own}.values())   # several back edges (continue, match arms) share one loop header
        if len(own) > loops_ast[fid]:
            rep.bad('MIR-LOOP', f.qname, 'loops>%d' % loops_ast[fid], 'rustc finds %d loops written in this function (lines %s), the syntax census %d' % (len(own), sorted(set(r['line'] for r in own)), loops_ast[fid]), f.file, f.line)
        else:
            rep.ok('MIR-LOOP', '%s|%d back edges <= %d loops%s' % (f.qname, len(own), loops_ast[fid], tag))
    if features is None:
        rep.floor('MIR-LOOP', 40)
    rep.extra.setdefault('mir', {})[','.join(features) if features else ('all' if features is None else 'none')] = {'facts': len(rows), 'calls': len([r for r in rows if r['k'] == 'call']), 'asserts': len([r for r in rows if r['k'] == 'assert']),
                        'backedges': len([r for r in rows if r['k'] == 'backedge'])}


def ctx_hash(s):
    return S.sha(ctx_s(s.ev.ctx) + '@' + str(s.ev.seq % 100000))[:6]
