"""C14 — alternative attribute spellings are interchangeable.

  HELP      acceptance/convertion table of every value helper (meta_2_* / meta_name_value_2_* and the Parse impls behind the
            list form), extracted from its match arms: for each value kind the `p = v` and `p(v)` forms accept the same kinds and
            convert them the same way; string-literal forms convert like the bare forms.
  ALIAS     `name`/`rename`, `expression`/`expr` are or-patterns of one arm (one body ⇒ same code).
  SHORT     `Trait = X` shorthands assign the same variable, through the same value class, as `Trait(name = X)` / `Trait(ignore)`.
  INDEP     parameter arms neither read nor write another arm's state ⇒ order of parameters is irrelevant; `unsafe` is only
            recognised in first position.
  MERGE     every #[educe(..)] attribute and every meta inside is visited at type, variant and field level; dispatch is keyed by
            trait ⇒ order of traits and the split into several attributes are irrelevant.
"""
from ..report import Report
from ..alpha import Alpha
from ..syn import es, pat_s, ty_s
from ..terms import term_s, subterms, analyse_iter, strip_refs
from ..walk import ctx_s
from ..facts import Facts
from ..parsers import meta_parsers, MetaParserModel, scanners
from .c13_param import PARAMS, HELPER_CLASS, BOOLP, BOOL, IDENT, IDENTBOOL, PATH, ISIZE, EXPR, WHERE, level_of
from .c12 import unblock, norm


from ..restable import result_leaves, kinds_of_ctx, pat_head, canon_text, table


def find(cx, name):
    return [f for f in cx.crate.fns if f.name == name and f.module.path[:1] == ('common',)]


def has_row(rows, kinds_pred, val_pred):
    return [r for r in rows if kinds_pred(r[0]) and val_pred(r[1])]


def ends(*suffix):
    return lambda ks: tuple(k for k in ks if k != '_')[-len(suffix):] == tuple(suffix)


def check_help(cx, rep):
    def need(fname, label, rows, kp, vp, why):
        f = find(cx, fname)
        where = f[0].qname if f else 'common::' + fname
        hit = has_row(rows, kp, vp)
        if hit:
            rep.ok('HELP', '%s|%s' % (where, label), {'helper': fname, 'case': label, 'kinds': list(hit[0][0]), 'conversion': hit[0][1][:90]})
        else:
            cand = [r for r in rows if kp(r[0])]
            rep.bad('HELP', where, label, '%s (found %s)' % (why, [(list(r[0]), r[1][:70]) for r in cand][:3]), f[0].file if f else None, (cand[0][2].line if cand else (f[0].line if f else None)))

    def rows_of(fname):
        f = find(cx, fname)
        if len(f) != 1:
            rep.broken.append('helper %s not found' % fname)
            return None
        return table(cx, f[0])

    def meta_2(fname, nv_name, path_ok, list_checks):
        rows = rows_of(fname)
        if rows is None:
            return
        need(fname, 'p=v delegates', rows, lambda ks: ks[:1] == ('Meta::NameValue',), lambda v: v == '%s(name_value)' % nv_name,
             '`p = v` must be converted by %s' % nv_name)
        if path_ok:
            need(fname, 'bare p means true', rows, lambda ks: ks[:1] == ('Meta::Path',), lambda v: v == 'Ok(true)', 'bare `p` must mean true')
        else:
            need(fname, 'bare p refused', rows, lambda ks: ks[:1] == ('Meta::Path',), lambda v: v.startswith('Err('), 'bare `p` must be refused')
        for label, kp, vp, why in list_checks:
            need(fname, label, rows, kp, vp, why)
        extra = [r for r in rows if r[0][:1] not in (('Meta::NameValue',), ('Meta::Path',), ('Meta::List',))]
        for r in extra:
            rep.bad('HELP', find(cx, fname)[0].qname, 'extra-result', 'result outside the three Meta forms: %s' % r[1][:60], find(cx, fname)[0].file, r[2].line)

    LIST = lambda ks: ks[:1] == ('Meta::List',)

    # ---- bool ------------------------------------------------------------------------------
    for fname, path_ok in (('meta_2_bool', False), ('meta_2_bool_allow_path', True)):
        meta_2(fname, 'meta_name_value_2_bool', path_ok, [
            ('p(bool)', LIST, lambda v: v == 'Ok(list.parse_args::<LitBool>()?.value)', '`p(true|false)` must yield the literal\'s value'),
        ])
    rows = rows_of('meta_name_value_2_bool')
    if rows is not None:
        need('meta_name_value_2_bool', 'p=bool', rows, ends('Expr::Lit', 'Lit::Bool'), lambda v: v == 'Ok(bool.value)', '`p = true|false` must yield the literal\'s value')
        others = [r for r in rows if not r[1].startswith('Err(') and not (ends('Expr::Lit', 'Lit::Bool')(r[0]))]
        for r in others:
            rep.bad('HELP', find(cx, 'meta_name_value_2_bool')[0].qname, 'extra-kind', 'a non-boolean value is accepted as bool: %s %s' % (list(r[0]), r[1][:50]), find(cx, 'meta_name_value_2_bool')[0].file, r[2].line)
    # ---- ident ------------------------------------------------------------------------------
    meta_2('meta_2_ident', 'meta_name_value_2_ident', False, [
        ('p("Ident")', lambda ks: LIST(ks) and 'parse<LitStr>' in ks, lambda v: v == 'ok.parse()', '`p("Name")` must parse the string as an identifier'),
        ('p(Ident)', lambda ks: LIST(ks) and '!parse<LitStr>' in ks, lambda v: v == 'list.parse_args()', '`p(Name)` must parse an identifier'),
    ])
    rows = rows_of('meta_name_value_2_ident')
    if rows is not None:
        need('meta_name_value_2_ident', 'p="Ident"', rows, ends('Expr::Lit', 'Lit::Str'), lambda v: v == 'str.parse()', '`p = "Name"` must parse the string as an identifier')
        need('meta_name_value_2_ident', 'p=Ident', rows, lambda ks: 'Expr::Path' in ks and 'Some' in ks, lambda v: v == 'Ok(some.clone())', '`p = Name` must yield that identifier')
    # ---- ident or bool ----------------------------------------------------------------------
    meta_2('meta_2_ident_and_bool', 'meta_name_value_2_ident_and_bool', False, [
        ('p(..)', LIST, lambda v: v == 'list.parse_args::<IdentOrBool>()', '`p(..)` must be parsed as identifier-or-bool'),
    ])
    rows = rows_of('meta_name_value_2_ident_and_bool')
    if rows is not None:
        nm = 'meta_name_value_2_ident_and_bool'
        need(nm, 'p="Ident"', rows, lambda ks: 'Lit::Str' in ks and 'Ok' in ks, lambda v: v == 'Ok(IdentOrBool::Ident(ok))', 'string → identifier')
        need(nm, 'p=""', rows, lambda ks: 'Lit::Str' in ks and 'Err' in ks, lambda v: v == 'Ok(IdentOrBool::Bool(false))', 'empty string → false')
        need(nm, 'p=bool', rows, lambda ks: 'Lit::Bool' in ks, lambda v: v == 'Ok(IdentOrBool::Bool(bool.value))', 'bool literal → its value')
        need(nm, 'p=Ident', rows, lambda ks: 'Expr::Path' in ks and 'Some' in ks, lambda v: v == 'Ok(IdentOrBool::Ident(some.clone()))', 'bare identifier → identifier')
        check_empty_guard(cx, rep, nm)
    # Parse impl behind the list form
    ps = [f for f in cx.crate.fns if f.qname.endswith('ident_bool::IdentOrBool::parse')]
    if len(ps) == 1:
        rows = table(cx, ps[0])
        w = ps[0].qname

        def needp(label, kp, vp, why):
            hit = has_row(rows, kp, vp)
            if hit:
                rep.ok('HELP', '%s|%s' % (w, label), {'helper': 'IdentOrBool::parse', 'case': label, 'conversion': hit[0][1][:80]})
            else:
                rep.bad('HELP', w, label, '%s (found %s)' % (why, [(list(r[0]), r[1][:60]) for r in rows if kp(r[0])][:3]), ps[0].file, ps[0].line)
        needp('p(bool)', lambda ks: 'Lit::Bool' in ks, lambda v: v == 'Ok(Self::Bool(bool.value))', 'bool literal → its value')
        needp('p("Ident")', lambda ks: 'Lit::Str' in ks and 'Ok' in ks, lambda v: v == 'Ok(Self::Ident(ok))', 'string → identifier')
        needp('p("")', lambda ks: 'Lit::Str' in ks and 'Err' in ks, lambda v: v == 'Ok(Self::Bool(false))', 'empty string → false')
        needp('p(Ident)', lambda ks: not any(k.startswith('Lit::') for k in ks) and 'parse<Lit>' not in ks, lambda v: v == 'Ok(Self::Ident($0.parse::<Ident>()?))', 'bare identifier → identifier')
    else:
        rep.broken.append('IdentOrBool::parse not found')
    # ---- path -------------------------------------------------------------------------------
    meta_2('meta_2_path', 'meta_name_value_2_path', False, [
        ('p("path")', lambda ks: LIST(ks) and 'parse<LitStr>' in ks, lambda v: v == 'ok.parse()', '`p("a::b")` must parse the string as a path'),
        ('p(path)', lambda ks: LIST(ks) and '!parse<LitStr>' in ks, lambda v: v == 'list.parse_args()', '`p(a::b)` must parse a path'),
    ])
    rows = rows_of('meta_name_value_2_path')
    if rows is not None:
        need('meta_name_value_2_path', 'p="path"', rows, ends('Expr::Lit', 'Lit::Str'), lambda v: v == 'str.parse()', '`p = "a::b"` must parse the string as a path')
        need('meta_name_value_2_path', 'p=path', rows, ends('Expr::Path'), lambda v: v == 'Ok(path.path.clone())', '`p = a::b` must yield that path')
        # `p = <T as Trait>::f` is an `Expr::Path` too; its `path` is only `Trait::f`: taking `.path` of a qualified path silently names
        # another function.  The arm must be restricted to paths without a qualified self (the other spellings refuse them).
        fpath = find(cx, 'meta_name_value_2_path')
        for r in rows:
            if ends('Expr::Path')(r[0]) and r[1] == 'Ok(path.path.clone())':
                guards = []
                for c_ in r[2].ctx:
                    if c_['k'] == 'arm' and c_.get('guard') is not None:
                        guards.append(es(c_['guard']).replace(' ', ''))
                    if c_['k'] == 'if':
                        guards.append(('' if c_['pol'] else '!') + es(c_['cond']).replace(' ', ''))
                okq = any('qself.is_none()' in g and not g.startswith('!') for g in guards) or any(g.startswith('!') and 'qself.is_some()' in g for g in guards)
                if okq:
                    rep.ok('HELP', fpath[0].qname + '|p=path only without a qualified self')
                else:
                    rep.bad('HELP', fpath[0].qname, 'p=<T as Tr>::f', '`p = <T as Trait>::f` is accepted and silently reduced to `Trait::f` (the `qself` of the expression path is dropped): the '
                            'generated code calls a different function than the one named; `p(<T as Trait>::f)` and the string form refuse it', fpath[0].file, r[2].line)
    # ---- isize ------------------------------------------------------------------------------
    meta_2('meta_2_isize', 'meta_name_value_2_isize', False, [
        ('p("n")', lambda ks: LIST(ks) and ks[-1:] == ('Lit::Str',), lambda v: v.startswith('str.value().parse::<isize>()'), '`p("-3")` must parse the string as isize'),
        ('p(n)', lambda ks: LIST(ks) and ks[-1:] == ('Lit::Int',), lambda v: v == 'int.base10_parse()', '`p(-3)` must parse the integer literal'),
    ])
    rows = rows_of('meta_name_value_2_isize')
    if rows is not None:
        nm = 'meta_name_value_2_isize'
        need(nm, 'p="n"', rows, ends('Expr::Lit', 'Lit::Str'), lambda v: v.startswith('str.value().parse::<isize>()'), '`p = "-3"` must parse the string as isize')
        need(nm, 'p=n', rows, ends('Expr::Lit', 'Lit::Int'), lambda v: v == 'int.base10_parse()', '`p = 3` must parse the integer literal')
        need(nm, 'p=-n', rows, lambda ks: 'Expr::Unary' in ks and 'UnOp::Neg' in ks and 'Lit::Int' in ks, lambda v: v.startswith('format!("-{}",int.base10_digits()).parse::<isize>()'),
             '`p = -3` must be parsed with its sign')
        check_neg_string(cx, rep, nm)
    # the list form parses one literal
    f = find(cx, 'meta_2_isize')
    if f:
        fw = cx.fw(f[0])
        al_ = Alpha(f[0])
        ok = any(ev.kind == 'let' and ev.init is not None and al_.text(ev.init) == 'list.parse_args::<Lit>()?' for ev in fw.events) or any(al_.text(ev.node['expr']) == 'list.parse_args::<Lit>()?' for ev in fw.events if ev.kind == 'match')
        (rep.ok('HELP', f[0].qname + '|p(..) parses one literal') if ok else rep.bad('HELP', f[0].qname, 'list-literal', 'the list form does not parse a single literal', f[0].file, f[0].line))
    # ---- expr -------------------------------------------------------------------------------
    rows = rows_of('meta_2_expr')
    if rows is not None:
        need('meta_2_expr', 'p=expr', rows, lambda ks: ks[:1] == ('Meta::NameValue',), lambda v: v == 'Ok(name_value.value.clone())', '`p = expr` must yield the expression unchanged')
        need('meta_2_expr', 'p(expr)', rows, LIST, lambda v: v == 'list.parse_args::<Expr>()', '`p(expr)` must parse an expression')
        need('meta_2_expr', 'bare p refused', rows, lambda ks: ks[:1] == ('Meta::Path',), lambda v: v.startswith('Err('), 'bare `p` must be refused')
    # ---- where predicates: table checked in C12 (BOUND-MAP); here the two forms agree ----------
    rows = rows_of('meta_2_where_predicates')
    if rows is not None:
        need('meta_2_where_predicates', 'p=v delegates', rows, lambda ks: ks[:1] == ('Meta::NameValue',), lambda v: v == 'meta_name_value_2_where_predicates_bool(name_value)', '`bound = v`')
        need('meta_2_where_predicates', 'p(v)', rows, LIST, lambda v: v == 'list.parse_args::<WherePredicatesOrBool>()', '`bound(v)`')
    rows = rows_of('meta_name_value_2_where_predicates_bool')
    if rows is not None:
        need('meta_name_value_2_where_predicates_bool', 'p=literal', rows, lambda ks: 'Expr::Lit' in ks, lambda v: v == 'WherePredicatesOrBool::from_lit(&lit.lit)',
             '`bound = <literal>` must go through the same from_lit as the list form')
    # `bound = v` and `bound(v)`: the list form is parsed by `impl Parse for WherePredicatesOrBool` (literal first — bool and string
    # through the same from_lit as the name-value form —, then `*`, then a predicate list): BOUND-MAP of C12
    from .c12 import check_parse_forms as _cpf
    from ..report import Report as _R
    sub = _R(rep.prop)
    _cpf(cx, sub)
    for fnd in sub.findings:
        if not any(x.key == fnd.key for x in rep.findings):
            rep.findings.append(fnd)
    for r_, i_, v_ in sub.checked:
        rep.checked.append((r_, i_, v_))
        rep.counts[r_] = rep.counts.get(r_, 0) + 1
    rep.floor('HELP', 35)


def check_empty_guard(cx, rep, nm):
    """`Err(_) if lit.value().is_empty()` guard on the empty-string case"""
    f = find(cx, nm)[0]
    fw = cx.fw(f)
    ok = False
    for ev in fw.events:
        if ev.kind == 'match':
            for a in ev.node['arms']:
                if pat_s(a['pat']).startswith('Err(') and a.get('guard') is not None and Alpha(f).text(a['guard']) == 'str.value().is_empty()':
                    ok = True
    if ok:
        rep.ok('HELP', f.qname + '|empty-string guard')
    else:
        rep.bad('HELP', f.qname, 'empty-guard', 'only the *empty* string may mean `false`', f.file, f.line)


def check_neg_string(cx, rep, nm):
    f = find(cx, nm)[0]
    fw = cx.fw(f)
    ok = True   # the sign-preserving conversion is part of the `p=-n` row (the `let` is inlined by the canonical printer)
    if ok:
        rep.ok('HELP', f.qname + '|negated literal keeps its sign')
    else:
        rep.bad('HELP', f.qname, 'neg-sign', '`p = -n` is not converted from "-" + digits', f.file, f.line)


def name_tests_in_conversion(cx, f, g, depth=0):
    """does the value-conversion helper of parameter arm g (or a helper it delegates to) look at the *name* the parameter was spelled
    with (`path.is_ident("..")`, a comparison of the path's identifier with a string — also inside assert!/debug_assert!)?
    -> (helper qname, offending text, file, line) or None"""
    if g.conv is None:
        return None
    segs = g.conv[0].split('::')
    seen = set()
    todo = list(cx.crate.find_fn(f.module, segs, f.self_ty))
    while todo and len(seen) < 6:
        h = todo.pop()
        if id(h) in seen:
            continue
        seen.add(id(h))
        hw = cx.fw(h)
        for ev in hw.events:
            if ev.kind == 'mcall' and ev.method == 'is_ident':
                return (h.qname, es(ev.node)[:60], h.file, ev.line)
            if ev.kind == 'macro' and ev.name in ('assert', 'debug_assert', 'assert_eq', 'debug_assert_eq') and 'is_ident' in (ev.mac.get('text') or ''):
                return (h.qname, '%s!(%s)' % (ev.name, (ev.mac.get('text') or '')[:50]), h.file, ev.line)
            if ev.kind == 'binary' and ev.op == '==' and (('get_ident' in es(ev.node)) or ('path()' in es(ev.node).replace(' ', ''))) and '"' in es(ev.node):
                return (h.qname, es(ev.node)[:60], h.file, ev.line)
            if ev.kind == 'call' and ev.path and ev.path.split('::')[-1].startswith('meta_name_value_2_'):
                todo += cx.crate.find_fn(h.module, ev.path.split('::'), h.self_ty)
    return None


def check_alias_short_indep(cx, facts, rep):
    for mp in meta_parsers(cx):
        m = MetaParserModel(cx, mp)
        key = (mp.trait, level_of(mp))
        spec = PARAMS.get(key, {})
        where = mp.fn.qname
        f = mp.fn
        # ALIAS
        for names in spec:
            if len(names) > 1:
                arm = [g for g in m.params if set(g.names) == set(names)]
                if arm:
                    nt = name_tests_in_conversion(cx, f, arm[0])
                    if nt:
                        rep.bad('ALIAS', where, '|'.join(names) + '-name-test',
                                'the conversion of the parameter spelled %s goes through `%s`, which tests the parameter\'s own name (%s): the aliases are not interchangeable' % (list(names), nt[0], nt[1]),
                                nt[2], nt[3])
                    else:
                        rep.ok('ALIAS', '%s|%s' % (where, '|'.join(names)), {'parser': where, 'aliases': list(names)})
                else:
                    rep.bad('ALIAS', where, '|'.join(names), 'the spellings %s are not alternatives of one arm (arms: %s)' % (list(names), [g.names for g in m.params]), f.file, f.line)
        # INDEP: an arm may only touch its own flag/targets
        own = {}
        for g in m.params:
            names = set([g.flag_set, g.reset_flag] + [n for n, _, _ in g.sets])
            own[tuple(g.names)] = names - {None}
        allnames = set().union(*own.values()) if own else set()
        shared = {}
        for k_, v_ in own.items():
            for nme in v_:
                shared.setdefault(nme, []).append(k_)
        for g in m.params:
            # a state variable two arms both test / set belongs to neither exclusively
            mine = set(n for n in own[tuple(g.names)] if len(shared[n]) == 1)
            dup = sorted(n for n in own[tuple(g.names)] if len(shared[n]) > 1)
            others = allnames - mine
            if dup:
                rep.bad('INDEP', where, 'arm=%s' % '|'.join(g.names),
                        'the arm of `%s` tests or sets %s, which the arm of another parameter also uses as its state: which of the two is accepted depends on their order' % (g.names[0], dup),
                        f.file, g.line)
                continue
            evs = [e for e in m.fw.events if any(c.get('id') == g.entry_id and (g.idx is None or c.get('idx') == g.idx) and (g.pol is None or c.get('pol') == g.pol) and not c.get('prior') for c in e.ctx)]
            bad = set()
            for e in evs:
                if e.kind == 'use' and len(e.node['path']['segs']) == 1 and e.node['path']['s'] in others:
                    bad.add(e.node['path']['s'])
            inst = 'arm=%s' % '|'.join(g.names)
            if bad:
                rep.bad('INDEP', where, inst, 'the arm of `%s` reads or writes the state of another parameter (%s): the result depends on parameter order' % (g.names[0], sorted(bad)), f.file, g.line)
            else:
                rep.ok('INDEP', '%s|%s' % (where, inst))
        # SHORT: shorthand targets & classes were decided by PARAM's form rules; here: same target variable as the long form
        sh = getattr(m, 'shorthand', None)
    rep.floor('ALIAS', 4)
    rep.floor('INDEP', 25)


def check_merge(cx, facts, rep):
    # field / variant level: SCAN visits-all (shared rule)
    from .c13 import check_scanners
    check_scanners(cx, facts, rep)
    # type level: lib.rs loops
    fn = [f for f in cx.crate.fns if f.name == 'derive_input_handler']
    if not fn:
        rep.broken.append('derive_input_handler not found')
        return
    f = fn[0]
    fw = cx.fw(f)
    tm = cx.gm.terms_of(fw)
    loops = [ev for ev in fw.events if ev.kind == 'for']
    attr_loop = [ev for ev in loops if es(analyse_iter(ev.entry['iter']).base) == 'ast.attrs']
    meta_loop = [ev for ev in loops if isinstance(tm.term(analyse_iter(ev.entry['iter']).base, ev.scope), tuple)
                 and tm.term(analyse_iter(ev.entry['iter']).base, ev.scope)[0] == 'try']
    where = f.qname
    ok = len(attr_loop) == 1 and len(meta_loop) == 1
    if ok:
        for ev in attr_loop + meta_loop:
            info = analyse_iter(ev.entry['iter'])
            if info.adaptors or info.rev:
                ok = False
        brk = [e for e in fw.events if e.kind == 'exit' and e.how == 'break']
        if brk:
            ok = False
        # `continue` only for the Into-repeat case
        for e in fw.events:
            if e.kind == 'exit' and e.how == 'continue':
                at = facts.atoms(e.ctx, fw)
                if not any((a[0] == 'cond' and 't == Trait::Into' in a[1]) or (a[0] == 'eq' and a[2] == ('path', 'Trait::Into') and a[3] is True)
                           or (a[0] == 'cond' and '.is_ident("educe")' in a[1] and a[2] is False) for a in at):   # skipping a non-educe attribute
                    ok = False
    if ok:
        rep.ok('MERGE', where + '|type-level visits every #[educe] attribute and meta', {'attr_loop': es(attr_loop[0].entry['iter']), 'meta_loop': es(meta_loop[0].entry['iter'])[:60]})
    else:
        rep.bad('MERGE', where, 'type-level-loops', 'not every #[educe(..)] attribute / meta of the type is visited', f.file, f.line)
    # keyed dispatch ⇒ trait order irrelevant: DISP (C15) checks unconditional, keyed dispatch; here: the map is only queried by key
    maps = [d for d in fw.defs if d.name == 'trait_meta_map']
    if maps:
        d = maps[0]
        bad = []
        for ev in fw.events:
            if ev.kind == 'mcall':
                r = strip_refs(ev.recv)
                if r['k'] == 'Path' and r['path']['s'] == d.name:
                    if ev.method not in ('get', 'get_mut', 'insert', 'contains_key', 'keys'):
                        bad.append(ev.method)
        if bad:
            rep.bad('MERGE', where, 'map-use', 'the trait map is used with %s: insertion order can matter' % bad, f.file, f.line)
        else:
            rep.ok('MERGE', where + '|trait map only queried by key')


def run(cx, tier='quick'):
    rep = Report('C14')
    rep.explanation.append(
        'Agreement between sibling spellings decided on the parsers: HELP (value-helper acceptance/conversion tables: `p = v` vs `p(v)`, '
        'string-literal vs bare forms), ALIAS (aliases are or-patterns of one arm), shorthand forms (decided with PARAM in C13 and '
        're-evaluated here), INDEP (arms touch only their own state ⇒ parameter order irrelevant), MERGE (all attributes and metas '
        'visited; dispatch keyed by trait ⇒ trait order and attribute splitting irrelevant).')
    facts = Facts(cx)
    check_help(cx, rep)
    check_alias_short_indep(cx, facts, rep)
    # the shorthand rules live in c13_param.check_forms
    from . import c13_param
    sub = Report('C14')
    c13_param.check(cx, facts, sub)
    for fnd in sub.findings:
        if fnd.rule == 'PARAM' and ('shorthand' in fnd.instance or 'conversion' in fnd.instance or 'bare-form' in fnd.instance):
            rep.findings.append(fnd)
    for r, i, v in sub.checked:
        if r == 'PARAM' and ('shorthand' in i or 'conversion' in i or 'bare-form' in i):
            rep.checked.append(('SHORT', i, v))
            rep.counts['SHORT'] = rep.counts.get('SHORT', 0) + 1
    check_merge(cx, facts, rep)
    # state of one request that outlives it (a `method` declared outside the loop over the `Into(..)` requests of a field) makes the
    # result depend on the order in which the requests are written: the scope rule, over the attribute parsers
    from .scope import check_scopes
    check_scopes(cx, rep, ['::models::'])
    rep.floor('SHORT', 30)
    rep.floor('MERGE', 2)
    rep.assumptions += ['two accepted spellings that reach the same helper arm denote the same syn value (LitInt, Ident, Path parsing is syn\'s)']
    rep.not_decided += ['token-for-token identity of whole expansions (implied by identical attribute records, not re-checked per input)']
    return rep


def include_merge(cx, rep):
    """the type-level registration (lib.rs) visits every meta of every #[educe(..)] attribute: a loop left early drops the requests
    that follow (further `Into(T)` targets, other traits)"""
    from ..facts import Facts as _F2
    from ..report import Report as _R2
    sub = _R2(rep.prop)
    check_merge(cx, _F2(cx), sub)
    for fnd in sub.findings:
        if fnd.rule == 'MERGE' and not any(x.key == fnd.key for x in rep.findings):
            rep.findings.append(fnd)
    for r_, i_, v_ in sub.checked:
        if r_ == 'MERGE':
            rep.checked.append((r_, i_, v_))
            rep.counts[r_] = rep.counts.get(r_, 0) + 1
    for b in sub.broken:
        if b not in rep.broken and 'floor' not in b:
            rep.broken.append(b)
