"""PARAM + FLAGS rules of C13 (shared with C14 / C15 / C20).

The documented acceptance table is transcribed here by *documented names only* (trait, position, parameter names and
their aliases, value class); everything internal (enable_* field names, helper function names, variable names) is read
from the source: the parser model tells which enable-switch guards which documented parameter, the builder sites tell
which value each switch has at each (trait, position, shape, context)."""
from ..syn import es, pat_s
from ..terms import term_s, subterms
from ..walk import ctx_s
from ..facts import atom_s
from ..terms import strip_refs
from ..parsers import bool_fields_of_self, switch_of_cond, meta_parsers, MetaParserModel, ret_value_kind, _under
from ..metafacts import conjuncts

# value classes of the conversion helpers (decided by their acceptance tables in C14; named here)
BOOLP, BOOL, IDENT, IDENTBOOL, PATH, ISIZE, EXPR, WHERE = 'bool-or-bare', 'bool', 'ident', 'ident-or-bool', 'path', 'isize', 'expr', 'where'

# (trait, level) -> {frozenset(aliases): value class}
PARAMS = {
    ('Debug', 'type'): {('name', 'rename'): IDENTBOOL, ('named_field',): BOOL, ('bound',): WHERE},
    ('Debug', 'field'): {('name', 'rename'): IDENT, ('ignore',): BOOLP, ('method',): PATH},
    ('PartialEq', 'type'): {('bound',): WHERE},
    ('PartialEq', 'field'): {('ignore',): BOOLP, ('method',): PATH},
    ('Hash', 'type'): {('bound',): WHERE},
    ('Hash', 'field'): {('ignore',): BOOLP, ('method',): PATH},
    ('Ord', 'type'): {('bound',): WHERE},
    ('Ord', 'field'): {('ignore',): BOOLP, ('method',): PATH, ('rank',): ISIZE},
    ('PartialOrd', 'type'): {('bound',): WHERE},
    ('PartialOrd', 'field'): {('ignore',): BOOLP, ('method',): PATH, ('rank',): ISIZE},
    ('Clone', 'type'): {('bound',): WHERE},
    ('Clone', 'field'): {('method',): PATH},
    ('Copy', 'type'): {('bound',): WHERE},
    ('Copy', 'field'): {},
    ('Eq', 'type'): {('bound',): WHERE},
    ('Eq', 'field'): {},
    ('Default', 'type'): {('new',): BOOLP, ('expression', 'expr'): EXPR, ('bound',): WHERE},
    ('Default', 'field'): {('expression', 'expr'): EXPR},
    ('Deref', 'type'): {}, ('Deref', 'field'): {}, ('DerefMut', 'type'): {}, ('DerefMut', 'field'): {},
    ('Into', 'type'): {('bound',): WHERE},
    ('Into', 'field'): {('method',): PATH},
}

HELPER_CLASS = {
    'meta_2_bool_allow_path': BOOLP, 'meta_2_bool': BOOL, 'meta_2_ident': IDENT, 'meta_2_ident_and_bool': IDENTBOOL,
    'meta_2_path': PATH, 'meta_2_isize': ISIZE, 'meta_2_expr': EXPR, 'Bound::from_meta': WHERE,
}


def level_of(mp):
    return 'field' if (mp.fn.self_ty or '').startswith('Field') else 'type'


def check(cx, facts, rep):
    mps = meta_parsers(cx)
    if len(mps) < 20:
        rep.broken.append('only %d build_from_*_meta parsers found (24 on the pinned tree)' % len(mps))
    models = {}
    for mp in mps:
        m = MetaParserModel(cx, mp)
        models[(mp.trait, level_of(mp))] = m
        check_parser(cx, facts, rep, mp, m)
    cx._param_models = models
    from . import c13_flags
    c13_flags.check(cx, facts, rep, models)
    from .helpers import check_type_with_meta
    check_type_with_meta(cx, rep)
    rep.floor('PARAM', 100, '(30 parameter arms × 5 clauses + form arms)')


def check_parser(cx, facts, rep, mp, m):
    f = mp.fn
    where = f.qname
    key = (mp.trait, level_of(mp))
    spec = PARAMS.get(key)
    if spec is None:
        rep.bad('PARAM', where, 'unknown-parser', 'parameter parser for an unknown (trait, level) %s' % (key,), f.file, f.line)
        return
    if m.problems and (spec or 'List' in m.arms or m.top is None):
        if not (m.top is None and not spec and always_err(cx, f)):
            for p in m.problems:
                rep.bad('PARAM', where, 'model', 'parameter parser not understood: %s' % p, f.file, f.line)
            return
        rep.ok('PARAM', where + '|refuses-every-form')
        return
    # parameter arms vs documented parameters
    got = {tuple(g.names): g for g in m.params}
    for names, cls in spec.items():
        g = None
        for k in got:
            if set(k) == set(names):
                g = got[k]
        inst = 'param=%s' % '|'.join(names)
        if g is None:
            rep.bad('PARAM', where, inst, 'documented parameter `%s` (aliases %s) has no arm accepting exactly these spellings (arms: %s)' % (names[0], list(names), [list(k) for k in got]),
                    f.file, f.line)
            continue
        check_arm(cx, rep, f, where, g, cls, inst, mp.trait)
    for k in got:
        if not any(set(k) == set(n) for n in spec):
            rep.bad('PARAM', where, 'param=%s' % '|'.join(k), 'parameter arm `%s` is not a documented parameter of %s at %s level' % ('|'.join(k), mp.trait, level_of(mp)),
                    f.file, got[k].line)
    if m.params or 'List' in m.arms and spec:
        if m.params:
            if m.default_false:
                rep.ok('PARAM', where + '|unknown-parameter-refused')
            else:
                rep.bad('PARAM', where, 'unknown-parameter', 'an unknown parameter is not refused: the handler closure does not end in `Ok(false)`', f.file, f.line)
            if m.tail_loop_ok:
                rep.ok('PARAM', where + '|every-parameter-checked')
            else:
                rep.bad('PARAM', where, 'all-parameters', 'not every parameter of the list is passed through the handler with `!handler(p)? ⇒ Err(attribute_incorrect_format)`', f.file, f.line)
    # arms may not write each other's targets
    targets = {}
    for g in m.params:
        for nm, v, ev in g.sets:
            targets.setdefault(nm, set()).add(tuple(g.names))
    for nm, owners in targets.items():
        if len(owners) > 1:
            rep.bad('PARAM', where, 'shared-target=%s' % nm, 'variable `%s` is assigned by the arms of several parameters %s' % (nm, sorted(owners)), f.file, f.line)
    check_forms(cx, facts, rep, mp, m)


def always_err(cx, f):
    fw = cx.fw(f)
    rets = [ev for ev in fw.events if ev.kind == 'exit' and ev.how == 'return']
    return bool(rets) and all(isinstance(ret_value_kind(e), tuple) for e in rets) and not [e for e in fw.events if e.kind == 'tail' and getattr(e, 'is_fn_body', False) and es(e.node).startswith('Ok')]


def level_of_fn(f):
    return 'field' if (f.self_ty or '').startswith('Field') else 'type'


def result_field_of(cx, f, var, depth=0):
    """name of the field of the returned attribute record that receives local variable `var` (None if it does not flow there)"""
    fw = cx.fw(f)
    for ev in fw.events:
        if ev.kind == 'struct':
            p = ev.node.get('path')
            ps = p.get('s') if isinstance(p, dict) and 's' in p else ''
            if ps.endswith('Attribute'):
                for fld in ev.node['fields']:
                    x = fld['expr']
                    if x['k'] == 'Path' and x['path']['s'] == var:
                        return str(fld['member'])
    if depth < 2:
        # stored as the value of a map entry of the record (Into: `types.insert(target, bound / method)`)
        for ev in fw.events:
            if ev.kind == 'mcall' and ev.method == 'insert' and ev.args:
                a = ev.args[-1]
                if a['k'] == 'Path' and a['path']['s'] == var:
                    r = strip_refs(ev.recv)
                    if r['k'] == 'Path':
                        rf = result_field_of(cx, f, r['path']['s'], depth + 1)
                        if rf:
                            return 'via:' + rf
    return None


def check_arm(cx, rep, f, where, g, cls, inst, trait):
    # P1 enable check (Into's parameters have no switch: always enabled once the list form is enabled)
    if g.enable is None and trait != 'Into':
        rep.bad('PARAM', where, inst + '-switch', 'the arm does not start with its `if !self.enable_* { return Ok(false) }` switch: the parameter cannot be disabled per position', f.file, g.line)
    else:
        rep.ok('PARAM', '%s|%s|switch=%s' % (where, inst, g.enable))
    # P2 conversion
    if g.conv is None:
        rep.bad('PARAM', where, inst + '-conversion', 'the value is not converted by a meta_2_* helper', f.file, g.line)
    else:
        helper = g.conv[0].split('::')[-1] if not g.conv[0].startswith('Bound::') else g.conv[0]
        hc = HELPER_CLASS.get(helper)
        subj = [p_[0] for p_ in f.params() if p_[0] != 'self'][:1]
        on_subject = len(g.conv_terms) == 1 and isinstance(g.conv_terms[0], tuple) and (g.conv_terms[0][0] == 'cparam' or g.conv_terms[0] == ('param', subj[0] if subj else None))
        if hc != cls or not on_subject:
            rep.bad('PARAM', where, inst + '-conversion', 'parameter `%s` takes a %s value but is converted with `%s(%s)`' % (g.names[0], cls, g.conv[0], ', '.join(g.conv[1])), f.file, g.line)
        else:
            rep.ok('PARAM', '%s|%s|conversion=%s' % (where, inst, cls))
    # P3 reset
    # ... or, for a value kept in an `Option` that starts as `None` and is only ever set to `Some(..)`: `value.is_some()`
    opt_form = False
    if g.reset_flag is not None and g.flag_set is None and g.reset_flag.endswith('.is_some()'):
        v_ = g.reset_flag[:-len('.is_some()')]
        sets_v = [x for x in g.sets if x[0] == v_]
        d_ = sets_v[0][2].scope.lookup(v_) if sets_v else None
        opt_form = bool(sets_v) and d_ is not None and d_.kind == 'let' and d_.init is not None and es(d_.init) == 'None' \
            and all(x[1]['k'] == 'Call' and x[1]['func']['k'] == 'Path' and x[1]['func']['path']['s'] == 'Some' for x in sets_v) \
            and all(es(a.value).startswith('Some(') for a in d_.assigns)
    if opt_form:
        rep.ok('PARAM', '%s|%s|reset-flag=%s' % (where, inst, g.reset_flag))
    elif g.reset_flag is None or g.flag_set is None or g.reset_flag != g.flag_set:
        rep.bad('PARAM', where, inst + '-reset', 'giving `%s` twice is not rejected with parameter_reset through its own *_is_set flag (tested `%s`, set `%s`)' % (g.names[0], g.reset_flag, g.flag_set),
                f.file, g.line)
    else:
        rep.ok('PARAM', '%s|%s|reset-flag=%s' % (where, inst, g.flag_set))
    # P4 effects
    if not g.sets:
        rep.bad('PARAM', where, inst + '-effect', 'the arm stores nothing', f.file, g.line)
    else:
        bad = False
        v = g.conv_def.name if getattr(g, 'conv_def', None) is not None else 'v'
        for nm, val, ev in g.sets:
            txt = es(val)
            if nm.endswith('_span'):
                continue
            if v not in txt.replace('(', ' ').replace(')', ' ').replace(',', ' ').split() and not (val['k'] == 'Match' and es(val['expr']) == v):
                rep.bad('PARAM', where, inst + '-effect', 'the arm assigns `%s = %s`, which does not use the converted value `%s`' % (nm, txt[:60], v), f.file, ev.line)
                bad = True
        # the converted value must be stored, in the shape of its class, in the variable that becomes the attribute record's field of
        # that documented name
        main = [(nm, val, ev) for nm, val, ev in g.sets if not nm.endswith('_span')]
        shape_ok = False
        import re as _re
        for nm, val, ev in main:
            txt = es(val).replace(' ', '')
            if cls in (BOOL, BOOLP, ISIZE, WHERE):
                okv = txt == v
            elif cls == PATH:
                okv = txt == 'Some(%s)' % v
            elif cls == IDENT:
                okv = _re.fullmatch(r'[A-Za-z_:]+::Custom\(%s\)' % _re.escape(v), txt) is not None
            elif cls == EXPR:
                okv = _re.fullmatch(r'Some\(auto_adjust_expr\(%s,(None|Some\([a-z_]+\))\)\)' % _re.escape(v), txt) is not None \
                    and (('None' in txt) == (level_of_fn(f) == 'type'))
            else:
                okv = True      # IDENTBOOL: a match over the value (checked by `uses the converted value`)
            rf_ = result_field_of(cx, f, nm)
            if okv and (rf_ in set(g.names) or (rf_ or '').startswith('via:')):
                shape_ok = True
        if not main or not shape_ok:
            rep.bad('PARAM', where, inst + '-store', 'the converted value `%s` of parameter `%s` is not stored (as %s) in the field `%s` of the attribute record: found %s' % (
                v, g.names[0], cls, g.names[0], [(nm, es(val)[:40]) for nm, val, _ in main]), f.file, g.line)
            bad = True
        if not bad:
            rep.ok('PARAM', '%s|%s|stores=%s' % (where, inst, ','.join(sorted(n for n, _, _ in g.sets))))
    # P5 order + result
    if not g.returns_true:
        rep.bad('PARAM', where, inst + '-result', 'the arm does not end in `return Ok(true)`', f.file, g.line)
    elif not g.order_ok:
        rep.bad('PARAM', where, inst + '-order', 'switch / conversion / reset check / store are not in this order (%s): e.g. the value is stored before the duplicate check' % g.order, f.file, g.line)
    else:
        rep.ok('PARAM', '%s|%s|order' % (where, inst))
    for rk, conds, ev in g.other_exits:
        rep.bad('PARAM', where, inst + '-extra-exit', 'unexpected exit `%s` under %s in the arm of `%s`' % (rk, conds, g.names[0]), f.file, ev.line)


# ------------------------------------------------------------------------------------------
# the three meta forms
# ------------------------------------------------------------------------------------------

def arm_decisions(cx, m, kind):
    """[(frozenset of (switch, bool)), effect] for the events of a form arm, outside the handler closure"""
    if kind not in m.arms:
        return None
    idx, evs, arm = m.arms[kind]
    cid = m.closure.entry['id'] if m.closure is not None else None
    out = []
    from ..alpha import Alpha
    al = Alpha(m.fw.fn)
    for e in evs:
        if cid is not None and any(c.get('id') == cid for c in e.ctx):
            continue
        conds = []
        other = []
        seen_arm = False
        for c in e.ctx:
            if c.get('id') == m.top.id:
                seen_arm = True
                continue
            if not seen_arm:
                continue
            if c['k'] == 'if':
                t = es(c['cond']).replace(' ', '')
                pol = c['pol']
                sc_ = switch_of_cond(t, bool_fields_of_self(cx, m.fw.fn))
                if sc_ is not None:
                    conds.append((sc_[0], pol != sc_[1]))
                else:
                    other.append(ctx_s((c,)))
            elif c['k'] == 'arm':
                other.append('arm %s of match %s' % (__import__('sa.syn', fromlist=['pat_shape']).pat_shape(c['pat']), al.text(c['scrut'])))
            elif c['k'] in ('iflet', 'for', 'survive'):
                other.append(ctx_s((c,)))
        if e.kind == 'exit' and e.how == 'return':
            out.append((frozenset(conds), ('exit', ret_value_kind(e)), tuple(other), e))
        elif e.kind == 'assign':
            out.append((frozenset(conds), ('assign', es(e.target), al.text(e.value)), tuple(other), e))
        elif e.kind == 'let' and e.init is not None and e.init['k'] != 'Closure' and kind != 'List':
            out.append((frozenset(conds), ('let', e.defs[0].name if e.defs else '?', es(e.init)), tuple(other), e))
    return out


def default_ty_param_ok(f, text):
    """the `$i` handed to auto_adjust_expr is the parameter that carries the field's type"""
    import re
    mm = re.search(r'Some\(\$(\d+)\)\)\)$', text)
    typed = [a for a in f.sig['inputs'] if a['k'] == 'Typed']
    if not mm or int(mm.group(1)) >= len(typed):
        return False
    a = typed[int(mm.group(1))]
    from ..syn import ty_s
    return 'Type' in ty_s(a['ty'])


def check_forms(cx, facts, rep, mp, m):
    f = mp.fn
    where = f.qname
    trait, level = mp.trait, level_of(mp)
    if m.top is None:
        return
    # --- bare `Trait` form -----------------------------------------------------------------
    d = arm_decisions(cx, m, 'Path')
    exp_flag = (level == 'type' and trait != 'Into') or (level == 'field' and trait in ('Default', 'Deref', 'DerefMut'))
    errs = [x for x in d if x[1][0] == 'exit' and isinstance(x[1][1], tuple)]
    if exp_flag:
        ok = len(errs) == 1 and len(errs[0][0]) == 1 and list(errs[0][0])[0][1] is False and not errs[0][2]
        if ok:
            m.flag_switch = list(errs[0][0])[0][0]
            rep.ok('PARAM', '%s|bare-form-iff-%s' % (where, m.flag_switch))
        else:
            rep.bad('PARAM', where, 'bare-form', 'the bare `%s` form must be accepted exactly when its switch is on (found exits %s)' % (trait, [(sorted(x[0]), x[1][1]) for x in errs]), f.file, f.line)
    else:
        ok = len(errs) >= 1 and any(not x[0] and not x[2] for x in errs)
        if ok:
            rep.ok('PARAM', '%s|bare-form-refused' % where)
        else:
            rep.bad('PARAM', where, 'bare-form', 'the bare `%s` form must always be refused at %s level' % (trait, level), f.file, f.line)
    # --- `Trait = value` shorthand ------------------------------------------------------------
    d = arm_decisions(cx, m, 'NameValue')
    errs = [x for x in d if x[1][0] == 'exit' and isinstance(x[1][1], tuple)]
    assigns = [x for x in d if x[1][0] == 'assign']
    kind = None
    if level == 'field' and trait in ('PartialEq', 'Hash', 'Ord', 'PartialOrd'):
        kind = 'ignore'
    elif level == 'field' and trait == 'Debug':
        kind = 'debug-field'
    elif level == 'type' and trait == 'Debug':
        kind = 'debug-type'
    elif level == 'field' and trait == 'Default':
        kind = 'default-field'
    if kind is None:
        ok = any(not x[0] and not x[2] for x in errs) and not assigns
        if ok:
            rep.ok('PARAM', '%s|shorthand-refused' % where)
        else:
            rep.bad('PARAM', where, 'shorthand', '`%s = value` must always be refused at %s level (assignments: %s)' % (trait, level, [a[1][1:] for a in assigns]), f.file, f.line)
        m.shorthand = {}
        return
    sw_of = {tuple(g.names)[0]: g.enable for g in m.params}
    sh = {}
    if kind == 'ignore':
        sw = sw_of.get('ignore')
        a = [x for x in assigns if x[1][1] == 'ignore']
        ok = (len(a) == 1 and a[0][0] == frozenset([(sw, True)]) and a[0][1][2].replace(' ', '') == '!meta_name_value_2_bool(name_value)?'
              and len(errs) == 1 and errs[0][0] == frozenset([(sw, False)]) and len(assigns) == 1)
        sh = {'ignore': sw}
        msg = '`%s = false` must set ignore to the negated boolean exactly when `ignore` is enabled, and be refused otherwise' % trait
    elif kind == 'debug-type':
        sw = sw_of.get('name')
        a = [x for x in assigns if x[1][1] == 'name']
        ok = (len(a) == 1 and a[0][1][2].replace(' ', '') == 'TypeName::Custom(meta_name_value_2_ident(name_value)?)'
              and len(errs) == 1 and errs[0][0] == frozenset([(sw, False)]) and len(assigns) == 1 and a[0][0] <= frozenset([(sw, True)]))
        sh = {'name': sw}
        msg = '`Debug = Name` must set the custom name exactly when `name` is enabled'
    elif kind == 'default-field':
        sw = sw_of.get('expression')
        a = [x for x in assigns if x[1][1] == 'expression']
        ok = (len(a) == 1 and a[0][1][2] in ('Some(auto_adjust_expr(name_value.value.clone(),Some($1)))', 'Some(auto_adjust_expr(name_value.value.clone(),Some($2)))') and default_ty_param_ok(m.fw.fn, a[0][1][2])
              and len(errs) == 1 and errs[0][0] == frozenset([(sw, False)]) and len(assigns) == 1 and a[0][0] <= frozenset([(sw, True)]))
        sh = {'expression': sw}
        msg = '`Default = expr` must set the (auto-adjusted) expression exactly when `expression` is enabled'
    else:  # debug-field
        swn, swi = sw_of.get('name'), sw_of.get('ignore')
        an = [x for x in assigns if x[1][1] == 'name']
        ai = [x for x in assigns if x[1][1] == 'ignore']
        conds_n = set(x[0] for x in an)
        conds_i = set(x[0] for x in ai)
        ok = (conds_n == {frozenset([(swn, True), (swi, True)]), frozenset([(swn, True), (swi, False)])}
              and conds_i == {frozenset([(swn, True), (swi, True)]), frozenset([(swn, False), (swi, True)])}
              and len(errs) == 1 and errs[0][0] == frozenset([(swn, False), (swi, False)])
              and all((x[1][2] == 'FieldName::Custom(ident)' and x[2] == ('arm IdentOrBool::Ident(_) of match meta_name_value_2_ident_and_bool(name_value)?',))
                      or (x[1][2] == 'FieldName::Custom(meta_name_value_2_ident(name_value)?)' and not x[2]) for x in an)
              and all((x[1][2] == '!bool' and x[2] == ('arm IdentOrBool::Bool(_) of match meta_name_value_2_ident_and_bool(name_value)?',))
                      or (x[1][2] == '!meta_name_value_2_bool(name_value)?' and not x[2]) for x in ai))
        sh = {'name': swn, 'ignore': swi}
        msg = '`Debug = Name` / `Debug = false` on a field must follow the name/ignore switches'
    m.shorthand = sh
    if ok:
        rep.ok('PARAM', '%s|shorthand=%s' % (where, kind), {'parser': where, 'shorthand': kind, 'switches': sh})
    else:
        rep.bad('PARAM', where, 'shorthand', msg + ' (found assignments %s, refusals %s)' % ([(sorted(x[0]), x[1][1], x[1][2][:50]) for x in assigns], [sorted(x[0]) for x in errs]), f.file, f.line)
