def check(cx, facts, rep):
    pass
