"""C16 — expansion is deterministic.

DET-HASH   no iteration over a HashMap/HashSet (for-loops, iter/keys/values/into_iter/drain/retain…, formatting) may
           influence the output or the choice of the reported error, unless the result is consumed order-insensitively
           (only `.contains(..)`/`len`/`is_empty`, transitively through the functions it is passed to).
DET-ENV    no use of time, environment, file system, process, thread, network or random-state APIs.
DET-STATE  no mutable or interior-mutable global state (static mut, Cell/RefCell/Mutex/Atomic/OnceCell statics,
           thread_local!) that could carry information from one expansion to the next.
"""
from ..report import Report
from ..syn import es, ty_s, pat_s, walk_json
from ..terms import strip_refs, analyse_iter
from ..callgraph import CallGraph
from ..walk import ctx_s

HASH_TYPES = ('HashMap', 'HashSet')
ITER_METHODS = {'iter', 'iter_mut', 'keys', 'values', 'values_mut', 'into_iter', 'into_keys', 'into_values', 'drain', 'retain',
                'extract_if', 'drain_filter'}
ORDER_FREE_METHODS = {'contains', 'is_empty', 'len', 'contains_key'}
ENV_PREFIXES = ('std::time', 'std::env', 'std::fs', 'std::process', 'std::thread', 'std::net', 'std::io::stdin', 'rand', 'getrandom',
                'std::collections::hash_map::RandomState', 'core::time', 'std::os', 'std::path', 'std::sync')
ENV_LAST = {'SystemTime', 'Instant', 'RandomState', 'DefaultHasher', 'thread_rng', 'var', 'vars', 'var_os', 'args', 'current_dir',
            'temp_dir', 'spawn', 'current', 'id'}
INTERIOR = ('Cell<', 'RefCell<', 'Mutex<', 'RwLock<', 'Atomic', 'OnceCell<', 'OnceLock<', 'Lazy<', 'LazyLock<', 'UnsafeCell<')


def type_class(text):
    t = text.replace(' ', '')
    while t.startswith('&'):
        t = t[1:]
        if t.startswith('mut'):
            t = t[3:]
        if t.startswith("'"):
            # lifetime
            i = 1
            while i < len(t) and (t[i].isalnum() or t[i] == '_'):
                i += 1
            t = t[i:]
    for h in HASH_TYPES:
        if t.startswith(h) or t.startswith('std::collections::' + h) or t.startswith('::std::collections::' + h) or t.startswith('collections::' + h):
            return 'map'
    if any(h in t for h in HASH_TYPES):
        return 'contains'
    return None


class HashTypes:
    def __init__(self, cx):
        self.cx = cx
        self.fields = {}   # field name -> class
        for (mp, name), it in cx.crate.types.items():
            if it['k'] in ('Struct', 'Union'):
                for f in it['fields']['fields']:
                    c = type_class(ty_s(f['ty']))
                    if c and f['name']:
                        self.fields[f['name']] = c
            elif it['k'] == 'TypeAlias':
                pass

    def expr_class(self, e, scope, fw, depth=0):
        if e is None or depth > 10:
            return None
        e = strip_refs(e)
        k = e['k']
        if k == 'MethodCall' and e['method'] in ('clone', 'as_ref', 'as_mut', 'borrow', 'to_owned') and not e['args']:
            return self.expr_class(e['recv'], scope, fw, depth + 1)
        if k == 'Path' and len(e['path']['segs']) == 1:
            d = scope.lookup(e['path']['s'])
            if d is None:
                return None
            return self.def_class(d, fw, depth + 1)
        if k == 'Field':
            m = e['member']
            if isinstance(m, str) and m in self.fields:
                return self.fields[m]
            return None
        if k == 'Call' and e['func']['k'] == 'Path':
            p = e['func']['path']['s']
            segs = p.split('::')
            if len(segs) >= 2 and segs[-2] in HASH_TYPES:
                return 'map'
            return None
        if k == 'MethodCall' and e['method'] == 'collect':
            tf = e.get('turbofish')
            if tf and any(h in str(tf) for h in HASH_TYPES):
                return 'map'
            return None
        if k == 'Block':
            st = e['stmts']
            if st and st[-1]['k'] == 'Expr' and not st[-1]['semi']:
                sc = self.cx.gm.terms_of(fw).scope_of_node(st[-1]['expr'])
                if sc is not None:
                    return self.expr_class(st[-1]['expr'], sc, fw, depth + 1)
            return None
        return None

    def def_class(self, d, fw, depth=0):
        if d.ty is not None:
            c = type_class(ty_s(d.ty))
            if c:
                return c
            return None
        if d.kind == 'let' and d.init is not None and not d.ppath:
            return self.expr_class(d.init, d.scope, fw, depth + 1)
        if d.kind == 'bind' and d.src and d.src.get('expr') is not None:
            via = d.src['via']
            if via == 'for':
                info = analyse_iter(d.src['expr'])
                bc = self.expr_class(info.base, d.src['scope'], fw, depth + 1)
                zc = self.expr_class(analyse_iter(info.zipped).base, d.src['scope'], fw, depth + 1) if info.zipped is not None else None
                for c in (bc, zc):
                    if c == 'contains':
                        # element of a Vec<HashMap<..>>
                        return 'map'
                return None
        return None


def run(cx, tier='quick'):
    rep = Report('C16')
    rep.explanation.append(
        'DET-HASH: census of every HashMap/HashSet-typed binding, field and parameter (declared types, constructors, struct fields) and '
        'of every iteration form over them (for, iter/keys/values/into_iter/drain/retain, collect); each iteration must be consumed '
        'order-insensitively (only contains/len/is_empty, followed through callee parameters over the call graph). DET-ENV: no '
        'time/env/fs/process/thread/net/random API. DET-STATE: no mutable or interior-mutable statics, no thread_local!.')
    cg = CallGraph(cx)
    ht = HashTypes(cx)
    n_hash_defs = 0
    import collections
    seen_iter = collections.Counter()
    for f in cx.crate.fns:
        fw = cx.fw(f)
        for d in fw.defs:
            c = ht.def_class(d, fw)
            if c:
                n_hash_defs += 1
        for ev in fw.events:
            if ev.kind == 'for':
                info = analyse_iter(ev.entry['iter'])
                c = ht.expr_class(info.base, ev.scope, fw)
                if c == 'map':
                    seen_iter[id(f)] += 1
                    decide_iteration(cx, cg, ht, rep, f, fw, ev, 'for %s in %s' % (pat_s(ev.entry['pat']), es(ev.entry['iter'])), None)
                else:
                    rep.ok('DET-HASH', '%s|for over non-hash `%s`' % (f.qname, es(info.base)[:60]))
            elif ev.kind == 'mcall' and ev.method in ITER_METHODS:
                c = ht.expr_class(ev.recv, ev.scope, fw)
                if c == 'map':
                    seen_iter[id(f)] += 1
                    # `for x in m.keys()` is already reported through the for-loop
                    decide_iteration(cx, cg, ht, rep, f, fw, ev, '%s.%s()' % (es(ev.recv), ev.method), ev)
            elif ev.kind == 'macro' and ev.name in ('format', 'write', 'writeln', 'println', 'eprintln', 'print', 'panic', 'format_args'):
                for a in ev.mac.get('args') or []:
                    if ht.expr_class(a, ev.scope, fw) == 'map':
                        rep.bad('DET-HASH', f.qname, 'format-of-map=%s' % es(a)[:40], 'a HashMap/HashSet is formatted; its rendering order is unspecified', f.file, ev.line)
            elif ev.kind == 'call' and ev.path:
                check_env_path(rep, f, ev.path, ev.line, cx)
            elif ev.kind == 'use':
                p = ev.node['path']
                if len(p['segs']) > 1:
                    check_env_path(rep, f, p['s'], ev.line, cx)
    rep.extra['hash_typed_bindings'] = n_hash_defs
    rep.extra['hash_typed_struct_fields'] = sorted(ht.fields)
    # statics / thread_local
    n_items = 0
    for m in cx.crate.modules.values():
        for it in m.items:
            n_items += 1
            if it['k'] == 'Static':
                t = ty_s(it['ty'])
                if it.get('mut') or any(x in t for x in INTERIOR):
                    rep.bad('DET-STATE', '::'.join(m.path), 'static=%s' % it['name'], 'mutable / interior-mutable static `%s: %s` can carry state between expansions' % (it['name'], t), m.file, it['l'])
                else:
                    rep.ok('DET-STATE', '%s|static %s' % ('::'.join(m.path), it['name']))
            if it['k'] == 'Macro' and it['mac']['name'].split('::')[-1] in ('thread_local', 'lazy_static'):
                rep.bad('DET-STATE', '::'.join(m.path), 'macro=%s' % it['mac']['name'], 'global state declared with `%s!`' % it['mac']['name'], m.file, it['l'])
            if it['k'] == 'Use':
                for u in it['uses']:
                    p = '::'.join(x for x in u['path'] if x)
                    if any(p == e or p.startswith(e + '::') for e in ENV_PREFIXES if e not in ('std::sync', 'std::path')):
                        rep.bad('DET-ENV', '::'.join(m.path), 'use=%s' % p, 'imports an environment-dependent API `%s`' % p, m.file, it['l'])
        rep.ok('DET-STATE', 'module %s: %d items scanned' % ('::'.join(m.path) or 'crate', len(m.items)))
    check_mir(cx, rep, seen_iter)
    # DET-PROFILE: the expansion may not depend on the profile the macro was built with: no state change inside debug_assert!(..)
    # (compiled out without debug assertions) and no branch on cfg!(debug_assertions)
    MUTATORS = {'insert', 'push', 'push_str', 'extend', 'append', 'remove', 'pop', 'clear', 'retain', 'truncate', 'drain', 'take', 'replace', 'swap',
                'entry', 'get_mut', 'iter_mut', 'sort', 'sort_by', 'dedup', 'next', 'parse', 'parse_args', 'push_punct', 'push_value', 'make_where_clause'}
    nprof = 0
    for f in cx.crate.fns:
        fw = cx.fw(f)
        for ev in fw.events:
            if ev.kind == 'macro' and ev.name in ('debug_assert', 'debug_assert_eq', 'debug_assert_ne'):
                nprof += 1
                bad_ = None
                for x in walk_json(ev.mac.get('args') or []):
                    if isinstance(x, dict) and x.get('k') == 'MethodCall' and x.get('method') in MUTATORS:
                        bad_ = '.%s(..)' % x['method']
                    if isinstance(x, dict) and x.get('k') in ('Assign', 'Try', 'Return', 'Break', 'Continue'):
                        bad_ = bad_ or x['k'].lower()
                if ev.mac.get('args') is None:
                    bad_ = 'unparsed arguments'
                if bad_:
                    rep.bad('DET-PROFILE', f.qname, 'debug_assert@%s' % (ev.mac.get('text') or '')[:40].replace(' ', ''),
                            'a state change (%s) inside `%s!`: it disappears when the macro crate is built without debug assertions, so the expansion depends on the build profile' % (bad_, ev.name),
                            f.file, ev.line)
                else:
                    rep.ok('DET-PROFILE', '%s|%s!(%s)' % (f.qname, ev.name, (ev.mac.get('text') or '')[:40].replace(' ', '')))
            if ev.kind == 'macro' and ev.name == 'cfg' and 'debug_assertions' in (ev.mac.get('text') or ''):
                rep.bad('DET-PROFILE', f.qname, 'cfg!(debug_assertions)', 'a branch on cfg!(debug_assertions): the expansion depends on the build profile', f.file, ev.line)
    # ... and no integer arithmetic that can overflow: with overflow checks (dev profile) it panics, without (release) it wraps and
    # the expansion goes on.  The proof obligations are those of C17's census (R7 idioms); re-used, not re-implemented.
    from . import c17 as _c17
    from ..callgraph import CallGraph as _CG
    from ..metafacts import MetaFacts as _MF
    _cg = _CG(cx)
    _dis = _c17.Discharger(cx, _cg, _MF(cx, _cg))
    _sites = _c17.census(cx, list(cx.crate.fns))
    for s_ in _sites:
        if s_.kind != 'arith':
            continue
        r_ = _dis.discharge(s_)
        inst_ = 'arith=%s' % s_.what
        if r_ or (id(s_.fw.fn) in getattr(cx.crate, 'fully_inlined', ()) and _c17.copy_elsewhere(_sites, s_)):
            rep.ok('DET-PROFILE', '%s|%s' % (s_.where, inst_), {'file': s_.fw.fn.file, 'line': s_.ev.line, 'discharged_by': r_[0] if r_ else 'inlined-into-all-callers'})
        else:
            rep.bad('DET-PROFILE', s_.where, inst_,
                    'integer arithmetic `%s` with no proof that it cannot overflow: a macro built with overflow checks panics here, one built without wraps and produces output' % s_.what,
                    s_.fw.fn.file, s_.ev.line)
    rep.floor('DET-PROFILE', 20, '(30 debug_assert! sites today)')
    # statics declared inside function bodies
    for f in cx.crate.fns:
        for node in walk_json(f.block):
            if isinstance(node, dict) and node.get('k') == 'Item' and isinstance(node.get('item'), dict):
                it = node['item']
                if it.get('k') == 'Static':
                    t = ty_s(it['ty'])
                    if it.get('mut') or any(x in t for x in INTERIOR):
                        rep.bad('DET-STATE', f.qname, 'static=%s' % it.get('name'), 'mutable / interior-mutable function-local static `%s: %s` carries state from one expansion to the next' % (it.get('name'), t), f.file, it.get('l'))
                    else:
                        rep.ok('DET-STATE', '%s|local static %s' % (f.qname, it.get('name')))
                if it.get('k') == 'Macro' and it.get('mac', {}).get('name', '').split('::')[-1] in ('thread_local', 'lazy_static'):
                    rep.bad('DET-STATE', f.qname, 'macro=%s' % it['mac']['name'], 'global state declared with `%s!` inside a function' % it['mac']['name'], f.file, it.get('l'))
            if isinstance(node, dict) and node.get('k') == 'Macro' and isinstance(node.get('mac'), dict) and node['mac'].get('name', '').split('::')[-1] in ('thread_local', 'lazy_static'):
                rep.bad('DET-STATE', f.qname, 'macro=%s' % node['mac']['name'], 'global state declared with `%s!` inside a function' % node['mac']['name'], f.file, node.get('l'))
    rep.floor('DET-HASH', 100, '(≈180 loops today)')
    rep.floor('DET-STATE', 50)
    selftest(rep)
    rep.assumptions += ['syn/quote/proc-macro2/rustc are deterministic', 'BTreeMap/Vec/Punctuated iterate in key/insertion order']
    rep.not_decided += ['nondeterminism inside dependencies']
    return rep


def check_mir(cx, rep, seen_iter):
    """MIR-HASH / MIR-ENV: the same two questions asked of rustc's type-resolved MIR (tools/mirfacts; nothing is run): every call whose
    resolved callee iterates a std HashMap/HashSet must be one the syntax-level census classified (so it was decided above), and
    no call resolves into a time/env/fs/process/thread/net/random/lock API."""
    import collections
    from .. import mir
    rep.explanation.append(
        'MIR-HASH/MIR-ENV: cross-check against rustc: in the MIR of every function and closure of the crate (all features) each Call whose '
        'type-resolved callee is HashMap/HashSet::{iter,keys,values,into_iter,drain,retain,..} or their IntoIterator impls must lie in '
        'a function where the syntax census found at least as many hash iterations (type inference and aliases cannot hide one); no '
        'callee resolves into std::time/env/fs/process/thread/net, RandomState, atomics, locks or RefCell.')
    rows = mir.facts(cx.repo)
    idx = mir.FnIndex(cx)
    H = collections.defaultdict(list)
    ncalls = 0
    for r in rows:
        if r['k'] != 'call':
            continue
        ncalls += 1
        h = mir.hash_iter(r)
        if h and not r['exp']:
            f = idx.find(r['file'], r['line'])
            if f is None:
                rep.bad('MIR-HASH', r['caller'], 'unmapped', 'hash iteration `%s` at %s:%d lies in no function known to the syntax model' % (h, r['file'], r['line']), r['file'], r['line'])
            else:
                H[id(f)].append((f, r, h))
        e = mir.env_call(r)
        if e:
            rep.bad('MIR-ENV', r['caller'], 'callee=%s' % r['callee'][:80], 'a call resolves into the environment-dependent / stateful API `%s`' % r['callee'], r['file'], r['line'])
    for fid, lst in H.items():
        f = lst[0][0]
        if len(lst) > seen_iter[fid]:
            rep.bad('MIR-HASH', f.qname, 'iterations>%d' % seen_iter[fid],
                    'rustc resolves %d iteration(s) over a HashMap/HashSet in this function (lines %s: %s), the syntax census classified %d: an order-dependent iteration is hidden behind inference or an alias'
                    % (len(lst), sorted(set(r['line'] for _, r, _ in lst)), sorted(set(h for _, _, h in lst)), seen_iter[fid]), f.file, lst[0][1]['line'])
        else:
            rep.ok('MIR-HASH', '%s|%d resolved hash iteration(s) <= %d classified' % (f.qname, len(lst), seen_iter[fid]))
    rep.ok('MIR-HASH', 'crate|%d resolved calls scanned, %d iterate a hash container' % (ncalls, sum(len(v) for v in H.values())))
    rep.ok('MIR-ENV', 'crate|%d resolved calls scanned, none into time/env/fs/process/thread/net/random/lock APIs' % ncalls)
    if ncalls < 5000:
        rep.broken.append('MIR fact file implausibly small (%d calls)' % ncalls)
    hm = [r for r in rows if r['k'] == 'call' and 'HashMap' in r['callee']]
    if not hm:
        rep.broken.append('MIR positive control failed: no HashMap call at all resolved (the crate uses HashMap::get/insert)')
    rep.extra['mir'] = {'calls': ncalls, 'hashmap_calls': collections.Counter(r['callee'].rsplit('::', 1)[-1] for r in hm)}


def check_env_path(rep, f, p, line, cx):
    q = p.lstrip(':')
    if any(q == e or q.startswith(e + '::') for e in ENV_PREFIXES if e not in ('std::sync', 'std::path')):
        rep.bad('DET-ENV', f.qname, 'path=%s' % q, 'environment-dependent API `%s`' % q, f.file, line)
    segs = q.split('::')
    if len(segs) >= 2 and segs[-2] in ('SystemTime', 'Instant', 'RandomState') or segs[-1] in ('thread_rng',):
        rep.bad('DET-ENV', f.qname, 'path=%s' % q, 'environment-dependent API `%s`' % q, f.file, line)


def decide_iteration(cx, cg, ht, rep, f, fw, ev, what, mev):
    """an iteration over a hash container: discharge only if its result is consumed order-insensitively."""
    inst = 'iterate=%s' % what.replace(' ', '')[:80]
    if mev is not None:
        # is this method call the iterator expression of a for loop? (then the for-loop report covers it)
        for e2 in fw.events:
            if e2.kind == 'for':
                x = strip_refs(e2.entry['iter'])
                while x['k'] == 'MethodCall':
                    if x is mev.node:
                        return
                    x = strip_refs(x['recv'])
        # `let v: Vec<_> = m.keys().copied().collect();` -> follow the binding
        d = binding_initialised_by(fw, mev.node)
        if d is not None:
            why = order_free_def(cx, cg, d, fw, set())
            if why is True:
                rep.ok('DET-HASH', '%s|%s|order-insensitive' % (f.qname, inst),
                       {'file': f.file, 'line': ev.line, 'iteration': what, 'discharge': 'collected into `%s`, which is only tested with contains()/len()/is_empty() here and in every function it is passed to' % d.name})
                return
            rep.bad('DET-HASH', f.qname, inst,
                    'iteration order of a HashMap/HashSet reaches an order-sensitive use: %s' % why, f.file, ev.line, {'iteration': what})
            return
    rep.bad('DET-HASH', f.qname, inst,
            'iteration over a HashMap/HashSet in unspecified order drives emission or error selection (`%s`; context: %s)' % (what, ctx_s(ev.ctx)[:200]),
            f.file, ev.line, {'iteration': what})


def binding_initialised_by(fw, node):
    """the `let` whose initialiser is a method chain rooted at `node` ending in collect()"""
    for ev in fw.events:
        if ev.kind == 'let' and ev.init is not None and len(ev.defs) == 1:
            x = ev.init
            chain = []
            while x['k'] == 'MethodCall':
                if x is node:
                    if all(m in ('copied', 'cloned', 'collect', 'map', 'filter') for m in chain) and chain and chain[0] == 'collect':
                        return ev.defs[0]
                    return None
                chain.append(x['method'])
                x = x['recv']
    return None


def order_free_def(cx, cg, d, fw, seen):
    """True if every use of binding d is order-insensitive; else a string describing the offending use."""
    key = (id(fw), d.id)
    if key in seen:
        return True
    seen.add(key)
    total = 0
    for ev in fw.events:
        if ev.kind == 'use' and len(ev.node['path']['segs']) == 1 and ev.node['path']['s'] == d.name and ev.scope.lookup(d.name) is d:
            total += 1
    accounted = 0
    for ev in fw.events:
        if ev.kind == 'mcall':
            r = strip_refs(ev.recv)
            if r['k'] == 'Path' and r['path']['s'] == d.name and ev.scope.lookup(d.name) is d:
                if ev.method in ORDER_FREE_METHODS:
                    accounted += 1
                    continue
                return '`%s.%s(..)` at %s:%d' % (d.name, ev.method, fw.fn.file, ev.line)
        if ev.kind in ('mcall', 'call'):
            for i, a in enumerate(ev.args):
                x = strip_refs(a)
                if x['k'] == 'Path' and len(x['path']['segs']) == 1 and x['path']['s'] == d.name and ev.scope.lookup(d.name) is d:
                    callees = cg.resolve_mcall(fw, ev) if ev.kind == 'mcall' else cg.resolve_call(fw, ev)
                    if not callees:
                        return 'passed to `%s`, which is not a crate function, at %s:%d' % (es(ev.node)[:60], fw.fn.file, ev.line)
                    for c in callees:
                        names = [p[0] for p in c.params()]
                        j = i + (1 if (ev.kind == 'mcall' and names and names[0] == 'self') else 0)
                        if j >= len(names):
                            return 'passed to `%s` (arity mismatch)' % c.qname
                        cfw = cx.fw(c)
                        pd = [x for x in cfw.param_defs if x.name == names[j]]
                        if not pd:
                            return 'passed to `%s` (parameter not found)' % c.qname
                        r = order_free_def(cx, cg, pd[0], cfw, seen)
                        if r is not True:
                            return r
                    accounted += 1
        if ev.kind == 'let' and ev.init is not None:
            x = strip_refs(ev.init)
            if x['k'] == 'Path' and len(x['path']['segs']) == 1 and x['path']['s'] == d.name and ev.scope.parent is not None and ev.node['pat']['k'] == 'Wild':
                if ev.scope.parent.lookup(d.name) is d or ev.scope.lookup(d.name) is d:
                    accounted += 1
    if accounted != total:
        return '`%s` has %d use(s) in %s of which only %d are contains()/len()/is_empty() tests or order-insensitive callees' % (d.name, total, fw.fn.qname, accounted)
    return True


def selftest(rep):
    if type_class('HashMap<usize, FieldAttribute>') != 'map' or type_class('Vec<HashMap<usize, X>>') != 'contains' or type_class('& BTreeMap<A,B>') is not None:
        rep.broken.append('DET-HASH type classifier self-test failed')
