"""C11 — automatic bounds are exactly those the generated code needs.

BND (every handler that computes bounds):
  * the collected types are pushed exactly on the path where the generated code delegates to the trait for that field
    (SUM-* rules establish that the built-in call is emitted on exactly that path): not ignored ∧ no custom method
    (Debug, PartialEq, Hash, Ord, PartialOrd), no custom method (Clone), no expression (Default, constructed fields only),
    no method ∧ declared type ≠ target (Into, designated field only), every field (Copy, stand-alone Eq, Clone of a union);
    the pushed type is that very field's type; one push per such path;
  * `bound_trait` passed to Bound::into_where_predicates… is the trait whose method the built-in call names (Clone ⇒ Copy exactly in
    the bitwise-copy case); `supertraits` = Copy:[Clone], Eq:[PartialEq], PartialOrd:[PartialEq], Ord:[Eq]+[PartialOrd iff PartialOrd is
    not educed], others none; the first argument is the type's own generic parameters;
  * companion impls (Eq with PartialEq, Copy with Clone, PartialOrd with Ord) reuse the primary impl's header variables (HDR) and are
    satisfiable under the primary's bounds (COMPANION).
The shape of the predicates themselves (`FieldTy: Trait`, `Self: Supertrait`) is BOUND-USE (C12).
"""
from ..report import Report
from ..syn import es, pat_s, ty_s
from ..terms import term_s, subterms, analyse_iter, strip_refs
from ..summ import Summ, atoms_after_loop
from ..facts import Facts, atom_s
from .c12 import BOUND_FN

BOUND_TRAIT = {
    'Debug': ['::core::fmt::Debug'], 'PartialEq': ['::core::cmp::PartialEq'], 'Eq': ['::core::cmp::PartialEq'],
    'PartialOrd': ['::core::cmp::PartialOrd'], 'Ord': ['::core::cmp::Ord'], 'Hash': ['::core::hash::Hash'],
    'Default': ['::core::default::Default'], 'Copy': ['::core::marker::Copy'], 'Into': ['::core::convert::Into<#target_ty>'],
}
SUPERS = {'Copy': ['::core::clone::Clone'], 'Eq': ['::core::cmp::PartialEq'], 'PartialOrd': ['::core::cmp::PartialEq']}
PUSH_COND = {
    'Debug': ('ignore', 'method'), 'PartialEq': ('ignore', 'method'), 'Hash': ('ignore', 'method'), 'Ord': ('ignore', 'method'),
    'PartialOrd': ('ignore', 'method'), 'Clone': ('method',), 'Default': ('expression',),
}


def template_text(cx, t):
    if isinstance(t, tuple) and t[0] == 'tmpl':
        for t2 in cx.gm.templates:
            if id(t2.mac) == t[1]:
                return t2.text().replace(' ', ''), t2
    return None, None


def check_handler(cx, fn, T, shape, rep, facts):
    S = Summ(cx, fn, rep, facts)
    fw = S.fw
    tm = S.tm
    calls = [ev for ev in fw.events if ev.kind == 'mcall' and ev.method == BOUND_FN]
    where = fn.qname
    if not calls:
        return 0
    n = 0
    for ev in calls:
        n += 1
        label = 'bound@%s' % shape
        args = ev.args
        if len(args) != 4:
            S.bad('BND', label + '-arity', 'unexpected number of arguments to %s' % BOUND_FN, line=ev.line)
            continue
        # receiver: the `bound` of this trait's own type attributes (or the per-target bound for Into)
        a0 = tm.term(args[0], ev.scope)
        if a0 != ('field', ('field', ('param', 'ast'), 'generics'), 'params'):
            S.bad('BND', label + '-params', 'the generic parameters handed to the bound computation are not the type\'s own (`%s`)' % es(args[0]), line=ev.line)
        # bound trait
        leaves = S.hg.leaves(strip_parse2(args[1]), ev.scope, ev.ctx, fw)
        got = []
        for lf in leaves:
            if lf.kind != 'tmpl':
                S.bad('BND', label + '-trait-form', 'the bound trait is not a constant template', line=ev.line)
                continue
            extra = [c for c in lf.ctx if c not in ev.ctx]
            got.append((lf.tmpl.text().replace(' ', ''), facts.atoms(tuple(extra), fw), lf))
        if T == 'Clone':
            check_clone_trait(S, got, shape, label, ev)
        else:
            exp = BOUND_TRAIT.get(T)
            if [g[0] for g in got] != exp or any(g[1] for g in got):
                S.bad('BND', label + '-trait', 'fields are bounded by %s (expected %s: the trait the generated code calls)' % ([g[0] for g in got], exp), line=ev.line)
            else:
                S.ok('BND', label + '-trait=%s' % exp[0])
            if T == 'Into' and got:
                tt = got[0][2].tmpl.hole_term('target_ty')
                ok = isinstance(tt, tuple) and tt[0] == 'proj' and tt[1] == 0 and tt[2][0] == 'elem'
                if not ok:
                    S.bad('BND', label + '-into-target', 'the Into bound does not name the target being visited', line=ev.line)
        # the where-clause of the impl comes from this computation on every path on which the impl is emitted: a bound computed only
        # under a condition (e.g. "no type-level expression") leaves the impl without the explicit / automatic predicates otherwise
        own = [a for a in S.facts.atoms(ev.ctx, fw) if a[0] not in ('cfg', 'data', 'loop', 'via', 'rawloop', 'call')]
        if own:
            for isite, iimpl in S.impls():
                ia = S.atoms(isite) + S.facts.atoms(isite.tmpl.ctx, fw)
                missing = [a for a in own if a not in ia]
                if missing and iimpl.get('trait') is not None:
                    S.bad('BND', label + '-conditional', 'the bound is computed only under %s, but `impl %s` is emitted also when that does not hold (its where-clause then lacks the predicates)' % (
                        [atom_s(a)[:70] for a in missing], iimpl['trait']['path']['s']), isite)
                    break
        # supertraits
        check_supers(S, T, args[3], ev, label)
        # types
        check_types(S, T, shape, args[2], ev, label)
    return n


def strip_parse2(e):
    x = strip_refs(e)
    if x['k'] == 'MethodCall' and x['method'] == 'unwrap':
        x = x['recv']
    if x['k'] == 'Call' and x['func']['k'] == 'Path' and x['func']['path']['s'].endswith('parse2') and len(x['args']) == 1:
        return x['args'][0]
    return x


def check_clone_trait(S, got, shape, label, ev):
    """Clone handlers: Copy exactly in the bitwise-copy case, else Clone; union: Copy"""
    if shape == 'union':
        if [g[0] for g in got] == ['::core::marker::Copy'] and not got[0][1]:
            S.ok('BND', label + '-trait=Copy')
        else:
            S.bad('BND', label + '-trait', 'a union\'s Clone (`*self`) needs every field type to be Copy; fields are bounded by %s' % [g[0] for g in got], line=ev.line)
        return
    by = {g[0]: g[1] for g in got}
    if set(by) != {'::core::marker::Copy', '::core::clone::Clone'}:
        S.bad('BND', label + '-trait', 'expected Copy when Copy is educed (the Copy impl shares this where-clause) and Clone otherwise, found %s' % sorted(by), line=ev.line)
        return
    copy_atoms = [a for a in by['::core::marker::Copy'] if a[0] != 'cfg']
    if copy_atoms != [('educed', 'Copy', True)]:
        S.bad('BND', label + '-trait-cond', 'fields are bounded by Copy under %s (expected: exactly when Copy is educed, because the Copy companion shares the where-clause)' % (
            [atom_s(a)[:60] for a in copy_atoms]), line=ev.line)
        return
    # the bitwise-copy body `*self` may only be used when the fields are bounded by Copy
    for s in S.sites:
        if s.ast is not None and s.cat == 'stmts' and s.tmpl.text().replace(' ', '') == '*self':
            if ('educed', 'Copy', True) not in S.atoms(s):
                S.bad('BND', label + '-star-self', 'the body `*self` is used without the fields being bounded by Copy', s)
                return
    S.ok('BND', label + '-trait=Copy-iff-Copy-educed')


def check_supers(S, T, arg, ev, label):
    fw, tm = S.fw, S.tm
    x = strip_refs(arg)
    exp = SUPERS.get(T, [])
    if T == 'Ord':
        t = tm.term(x, ev.scope)
        ok = isinstance(t, tuple) and t[0] == 'call' and str(t[1]).endswith('trait_handlers::ord::supertraits') and t[2:] == (('param', 'traits'),)
        if ok:
            ok = check_ord_supertraits(S)
        if ok:
            S.ok('BND', label + '-supertraits=Eq(+PartialOrd unless educed)')
        else:
            S.bad('BND', label + '-supertraits', 'Ord must require `Self: Eq` and, unless PartialOrd is educed too, `Self: PartialOrd`', line=ev.line)
        return
    if x['k'] == 'Array':
        got = []
        for el in x['elems']:
            leaves = S.hg.leaves(el, ev.scope, ev.ctx, fw)
            got += [lf.tmpl.text().replace(' ', '') if lf.kind == 'tmpl' else '?' for lf in leaves]
        if got == exp:
            S.ok('BND', label + '-supertraits=%s' % (exp or 'none'))
        else:
            S.bad('BND', label + '-supertraits', 'supertrait bounds on Self are %s (expected %s)' % (got, exp), line=ev.line)
        return
    S.bad('BND', label + '-supertraits', 'unrecognised supertraits argument `%s`' % es(arg)[:60], line=ev.line)


def check_ord_supertraits(S):
    cx = S.cx
    fs = [f for f in cx.crate.fns if f.qname.endswith('trait_handlers::ord::supertraits')]
    if len(fs) != 1:
        return False
    f = fs[0]
    fw = cx.fw(f)
    facts = S.facts
    # the returned collection: its initial elements (`vec![a, ..]` / empty) and every push into it, each with its condition
    if fw.tail is None or fw.tail['k'] != 'Path' or len(fw.tail['path']['segs']) != 1:
        return False
    tm = cx.gm.terms_of(fw)
    tsc = tm.scope_of_node(fw.tail) or fw.root
    d = tsc.lookup(fw.tail['path']['s'])
    if d is None or d.kind != 'let' or d.init is None or d.assigns:
        return False
    hg = cx.hg(f)
    got = []
    init = d.init
    items = None
    if init['k'] == 'Macro' and init['mac']['name'].split('::')[-1] == 'vec':
        items = init['mac'].get('args')
        if items is None and not init['mac'].get('text', '').strip():
            items = []
    elif init['k'] == 'Call' and es(init['func']).split('::')[-1] in ('new', 'default') and not init['args']:
        items = []
    if items is None:
        return False
    for it in items:
        for lf in hg.leaves(it, d.scope, d.ctx, fw):
            if lf.kind != 'tmpl':
                return False
            got.append((lf.tmpl.text().replace(' ', ''), [a for a in facts.atoms(tuple(c for c in lf.ctx), fw) if a[0] != 'cfg']))
    for ev in fw.events:
        if ev.kind == 'mcall' and ev.method in ('push', 'insert', 'extend', 'append', 'remove', 'pop', 'clear', 'truncate', 'retain'):
            r = strip_refs(ev.recv)
            if r['k'] == 'Path' and r['path']['s'] == d.name and ev.scope.lookup(d.name) is d:
                if ev.method != 'push':
                    return False
                for lf in hg.leaves(ev.args[0], ev.scope, ev.ctx, fw):
                    if lf.kind != 'tmpl':
                        return False
                    got.append((lf.tmpl.text().replace(' ', ''), [a for a in facts.atoms(lf.ctx, fw) if a[0] != 'cfg']))
    exp = [('::core::cmp::Eq', []), ('::core::cmp::PartialOrd', [('educed', 'PartialOrd', False)])]
    return sorted(map(str, got)) == sorted(map(str, exp))


def check_types(S, T, shape, arg, ev, label):
    fw, tm = S.fw, S.tm
    x = strip_refs(arg)
    if x['k'] == 'Array' and not x['elems']:
        S.bad('BND', label + '-types', 'no field types are handed to the bound computation', line=ev.line)
        return
    if x['k'] != 'Path':
        S.bad('BND', label + '-types', 'unrecognised types argument `%s`' % es(arg)[:40], line=ev.line)
        return
    d = ev.scope.lookup(x['path']['s'])
    if d is None:
        S.bad('BND', label + '-types', 'types collection not found', line=ev.line)
        return
    ps = tm.pushes().get(d.id, [])
    if not ps:
        S.bad('BND', label + '-types-empty', 'the collection of delegated field types `%s` is never filled' % d.name, line=ev.line)
        return
    good = True
    by_loop = {}
    for pev, kind, key, val in ps:
        eff = S.facts.effective_ctx(pev.ctx, fw)
        atoms = S.facts.atoms(eff, fw)
        vt = tm.term(val, pev.scope)
        loops = [a for a in atoms if a[0] == 'loop']
        inst = label + '-push'
        if T == 'Into':
            good = check_into_push(S, pev, vt, atoms, inst) and good
            continue
        if T == 'Default' and shape == 'union':
            good = check_default_union_push(S, pev, vt, atoms, inst) and good
            continue
        la, lk = S.field_loop(atoms)
        if la is None:
            S.bad('BND', inst + '-loop', 'a type is pushed outside a loop over fields', line=pev.line)
            good = False
            continue
        L = la[1]
        if vt != ('field', ('elem', L), 'ty'):
            S.bad('BND', inst + '-value', 'the bounded type is not the visited field\'s type (%s)' % term_s(vt, 80), line=pev.line)
            good = False
        after = atoms_after_loop(atoms, L)
        members = PUSH_COND.get(T)
        if T in ('Copy', 'Eq') or (T == 'Clone' and shape == 'union'):
            members = ()
        if members is None:
            S.bad('BND', inst + '-trait', 'no bound rule for trait %s' % T, line=pev.line)
            good = False
            continue
        got = {}
        extra = []
        for a in after:
            hit = False
            for mname in members:
                p = S.attr_atom(a, L, mname)
                if p is not None:
                    got[mname] = p
                    hit = True
            if not hit and a[0] not in ('empty', 'haskey') and not (T == 'Clone' and a[0] == 'nand' and 'Copy' in str(a)) and not (T == 'Clone' and a == ('educed', 'Copy', False)):
                extra.append(a)
        want = {m: False for m in members}
        if T == 'Clone' and shape in ('struct', 'enum') and got == {'method': True} and [a for a in after if a == ('educed', 'Copy', True)] and not [
                a for a in extra if a != ('educed', 'Copy', True)]:
            # with Copy educed the Copy companion needs every field type bounded (by Copy), including fields cloned by a method
            by_loop.setdefault(L, []).append(atoms)
            continue
        if got != want or extra:
            what = ' ∧ '.join('no ' + m if m != 'ignore' else 'not ignored' for m in members) or 'every field'
            S.bad('BND', inst + '-guard',
                  'a field type is bounded under %s (expected exactly: %s) — the where-clause would constrain a type parameter the generated code does not need, or miss one it needs' % (
                      [atom_s(a)[:70] for a in after], what), line=pev.line)
            good = False
        by_loop.setdefault(L, []).append(atoms)
    for L, entries in by_loop.items():
        counts, keys = S.count_per_path(entries, L)
        if counts is None:
            continue
        for asg, (n, dct) in counts.items():
            if n > 1:
                S.bad('BND', label + '-push-once', 'a field type can be pushed %d times on one path' % n, line=ev.line)
                good = False
                break
    # coverage of branches: wherever the handler decides "this field has a method / has none" and emits code on the no-method side,
    # that side delegates to the field type's own impl and must collect the type
    if T not in ('Into', 'Default'):
        def _method_test(c):
            if c['k'] != 'iflet' or c['pol'] or not pat_s(c['pat']).startswith('Some('):
                return False
            t_ = es(c['expr']).replace(' ', '')
            for suf in ('.as_ref()', '.clone()', '.take()'):
                if t_.endswith(suf):
                    t_ = t_[:-len(suf)]
            return t_.endswith('.method')
        emitting = {}
        for e_ in fw.events:
            if e_.kind == 'macro' and isinstance(e_.mac, dict) and 'tmpl' in e_.mac and e_.name in ('quote', 'quote_spanned'):
                for c in e_.ctx:
                    if _method_test(c):
                        emitting.setdefault(c['id'], e_)
        pushing = set(c['id'] for pev, _k, _key, _v in ps for c in pev.ctx if _method_test(c))
        # pushes made in a pass of their own (`types.extend(fields.iter().filter(no method).map(type))`) are not inside an emitting
        # branch: each of them can stand for one emitting branch without a push (their own guard is judged by `push-guard`)
        spare = len([1 for pev, _k, _key, _v in ps if not any(_method_test(c) and c['id'] in emitting for c in pev.ctx)])
        for cid_, e_ in emitting.items():
            if cid_ not in pushing and spare > 0:
                spare -= 1
                continue
            if cid_ not in pushing:
                S.bad('BND', label + '-coverage', 'code for a field without a `method` is emitted here, but the field\'s type is not added to the delegated types: the impl lacks the bound on that type', line=e_.line)
                good = False
    # coverage of shapes: the collection must be filled for every kind of type / variant the handler serves
    if T not in ('Into',) and not (T == 'Default' and shape == 'union'):
        datas, shapes_ = set(), set()
        for pev, kind, key, val in ps:
            at = S.facts.atoms(S.facts.effective_ctx(pev.ctx, fw), fw)
            for a in at:
                if a[0] == 'data' and a[2] is True:
                    datas.add(a[1])
                if a[0] == 'shape' and a[3] is True and a[2] in ('Named', 'Unnamed'):
                    shapes_.add(a[2])
        if shape == 'top' and datas != {'Struct', 'Enum', 'Union'}:
            S.bad('BND', label + '-coverage', 'field types are collected for %s only: the fields of %s are left unbounded' % (
                sorted(datas) or 'no kind of type', sorted({'Struct', 'Enum', 'Union'} - datas)), line=ev.line)
            good = False
        if shapes_ and shapes_ != {'Named', 'Unnamed'}:
            S.bad('BND', label + '-coverage', 'field types are collected for %s fields only' % sorted(shapes_), line=ev.line)
            good = False
    if good:
        S.ok('BND', '%s-types|%d push sites' % (label, len(ps)), {'handler': S.where, 'collection': d.name, 'pushes': len(ps)})


def check_into_push(S, pev, vt, atoms, inst):
    # pushed: the designated field's type, under no-method ∧ type != target
    eqs = [a for a in atoms if a[0] == 'eq']
    ms = [a for a in atoms if a[0] == 'some' and isinstance(a[1], tuple) and a[1][0] == 'proj' and a[1][1] == 2]
    ok = len(eqs) == 1 and eqs[0][3] is False and len(ms) == 1 and ms[0][2] is False
    if ok:
        sel = ms[0][1][2]
        want = ('field', ('proj', 1, sel), 'ty')
        # enum: through the variants vector the type component is that same field's type
        ok = vt == want or (isinstance(vt, tuple) and vt == want)
    if not ok:
        S.bad('BND', inst + '-into', 'the Into bound is not placed exactly on the designated field\'s type when it has no method and differs from the target (guards %s, value %s)' % (
            [atom_s(a)[:50] for a in atoms[-3:]], term_s(vt, 60)), line=pev.line)
    return ok


def check_default_union_push(S, pev, vt, atoms, inst):
    ex = [a for a in atoms if a[0] == 'some' and isinstance(a[1], tuple) and a[1][0] == 'field' and a[1][2] == 'expression' and a[1][1][0] == 'proj']
    ok = len(ex) == 1 and ex[0][2] is False
    if ok:
        sel = ex[0][1][1][2]
        ok = vt == ('field', ('proj', 0, sel), 'ty')
    if not ok:
        S.bad('BND', inst + '-default-union', 'the Default bound of a union is not placed on the designated field\'s type when it has no expression', line=pev.line)
    return ok


def check_companions(cx, rep, facts):
    """COMPANION: a companion impl emitted with the primary's where-clause must be satisfiable under it"""
    for t, sh, fn in cx.shape_handlers():
        if t != 'Clone' or sh not in ('struct', 'enum'):
            continue
        S = Summ(cx, fn, rep, facts)
        comps = S.impl_of('::core::marker::Copy')
        if len(comps) != 1:
            continue
        site, impl = comps[0]
        # Copy needs every field type: Copy. The shared where-clause bounds fields by Copy only in the bitwise-copy case.
        calls = [ev for ev in S.fw.events if ev.kind == 'mcall' and ev.method == BOUND_FN]
        if not calls:
            continue
        ev = calls[0]
        leaves = S.hg.leaves(strip_parse2(ev.args[1]), ev.scope, ev.ctx, S.fw)
        copy_cond = None
        for lf in leaves:
            if lf.kind == 'tmpl' and lf.tmpl.text().replace(' ', '') == '::core::marker::Copy':
                copy_cond = [a for a in facts.atoms(tuple(c for c in lf.ctx if c not in ev.ctx), S.fw)]
        comp_cond = [a for a in S.atoms(site) if a[0] != 'cfg']
        # companion emitted iff educed(Copy); bounds are Copy iff copy_cond
        implied = copy_cond is not None and all(a in comp_cond or a == ('educed', 'Copy', True) for a in copy_cond) and all(a in copy_cond for a in comp_cond)
        if implied:
            S.ok('COMPANION', 'Copy-with-Clone@%s' % sh, {'handler': fn.qname, 'copy_bound_when': [atom_s(a) for a in copy_cond]})
        else:
            S.bad('COMPANION', 'Copy-with-Clone@%s' % sh,
                  'the Copy companion is emitted whenever Copy is educed, but its (shared) where-clause bounds the field types by Copy only when %s; '
                  'otherwise they are bounded by Clone (and fields with a custom clone method not at all), so `impl Copy` does not hold for generic fields (E0204)' % (
                      [atom_s(a)[:60] for a in (copy_cond or [])]), site)


def run(cx, tier='quick'):
    rep = Report('C11')
    rep.explanation.append(
        'BND: for every call of Bound::into_where_predicates… (one per handler and per Into target): the generic parameters passed, the '
        'bound trait (template constants; Clone ⇒ Copy exactly in the bitwise-copy case), the supertraits table, and the collection of '
        'delegated field types — every push site must be guarded by exactly the delegation condition of its trait and push that very '
        'field\'s type. COMPANION: companions that share the primary\'s where-clause must be satisfiable under it. Predicate shapes: '
        'BOUND-USE (C12); header variable sharing: HDR (C12).')
    facts = Facts(cx)
    n = 0
    for t, sh, fn in cx.shape_handlers():
        n += check_handler(cx, fn, t, sh, rep, facts)
    if n < 18:
        rep.broken.append('only %d bound computations found (20 on the pinned tree)' % n)
    check_companions(cx, rep, facts)
    from .c12 import check_headers, check_bound_tables
    check_headers(cx, rep)
    sub = Report('C11')
    check_bound_tables(cx, sub)
    for fnd in sub.findings:
        if fnd.rule == 'BOUND-USE':
            rep.findings.append(fnd)
    for r, i, v in sub.checked:
        if r == 'BOUND-USE':
            rep.checked.append((r, i, v))
            rep.counts['BOUND-USE'] = rep.counts.get('BOUND-USE', 0) + 1
    from .scope import check_scopes
    check_scopes(cx, rep, None)
    rep.floor('BND', 60)
    rep.floor('COMPANION', 2)
    rep.assumptions += ['"required trait" per handler is the pinned table (stand-alone Eq bounds field types by PartialEq)',
                        'trait resolution of concrete instantiations is rustc\'s']
    rep.not_decided += ['whether a concrete instantiation satisfies the bounds']
    return rep
