"""C06 — Debug renders the effective shape exactly like core::fmt's builders.

SUM-DEBUG (generated-code model of the Debug struct and enum handlers + debug/common.rs), decided path-wise: for every
combination of (fields shown named?, name shown?, field ignored?, custom method?) the sequence of statements emitted is
  builder      : f.debug_struct(NAME) | map builder with raw-string keys | f.debug_tuple(NAME or "")
  per field    : (ignored: nothing) | [wrapper `arg` delegating to the method] + builder.field(KEY, VAL) | .entry(RawString(KEY), VAL) | .field(VAL)
  tail         : builder.finish()
with KEY = custom name | field ident | `_<index>`; VAL = the access to that same field (or `&arg`); NAME = the effective name
(type name / variant name / Enum::Variant / none) from the TypeName resolution with the documented defaults; unit variant =
f.write_str(NAME). With no parameters this is the call sequence #[derive(Debug)] is specified to produce.
"""
import itertools
from ..report import Report
from ..syn import es, pat_s, ty_s
from ..terms import term_s, subterms
from ..summ import (Summ, access, call_parts, block_stmts, marker_stmts, marker_of_pat, marker_of_expr, marker_of_stmt, member_of_loop,
                    pattern_model, pattern_once, variant_arms, atoms_after_loop)
from ..facts import Facts, atom_s
from ..genast import is_marker, marker_name, visit
from ..tmpl import MARK

STRINGIFY = '::core::stringify'


def stringify_hole(e):
    """`::core::stringify!(#x)` -> x"""
    if e['k'] == 'Macro' and e['mac']['name'] == STRINGIFY:
        toks = e['mac'].get('tokens', [])
        if len(toks) == 1 and toks[0]['t'] == 'i' and toks[0]['s'].startswith(MARK):
            return toks[0]['s'][len(MARK):]
        if not toks:
            return ''
    return None


def classify_stmt(S, site):
    """('builder', kind, name expr) | ('call', kind, key hole or None, value expr) | ('arg',) | ('map-builder',) | None"""
    st = site.ast if site.cat == 'stmts' else None
    if st is None:
        return None
    if len(st) == 1 and st[0]['k'] == 'Local' and st[0]['pat']['k'] == 'Ident' and st[0].get('init') is not None:
        name = st[0]['pat']['name']
        init = st[0]['init']
        if name == 'builder' and init['k'] == 'MethodCall' and es(init['recv']) == 'f' and st[0]['pat']['mut']:
            if init['method'] in ('debug_struct', 'debug_tuple') and len(init['args']) == 1:
                return ('builder', init['method'], init['args'][0])
        if name == 'arg':
            return ('arg', init)
    if len(st) == 3 and st[0]['k'] == 'Item' and st[1]['k'] == 'Item' and st[2]['k'] == 'Local':
        # map builder: RawString helper + `let mut builder = f.debug_map();`
        it0, it1, l = st[0]['item'], st[1]['item'], st[2]
        ok = (it0['k'] == 'Struct' and it0['name'] == 'Educe__RawString' and it1['k'] == 'Impl' and it1.get('trait') and it1['trait']['path']['s'] == '::core::fmt::Debug'
              and ty_s(it1['self_ty']) == 'Educe__RawString' and l['pat'].get('name') == 'builder' and l['pat']['mut']
              and l.get('init') is not None and es(l['init']) == 'f.debug_map()')
        if ok:
            fns = [ii for ii in it1['items'] if ii['k'] == 'Fn']
            if len(fns) == 1 and fns[0]['sig']['name'] == 'fmt':
                b = fns[0]['block']['stmts']
                fp = [a for a in fns[0]['sig']['inputs'] if a['k'] == 'Typed']
                if len(b) == 1 and b[0]['k'] == 'Expr' and fp and es(b[0]['expr']) == '%s.write_str(self.0)' % fp[0]['pat'].get('name'):
                    return ('map-builder',)
        return None
    if len(st) == 1 and st[0]['k'] == 'Expr' and st[0]['semi'] and st[0]['expr']['k'] == 'MethodCall' and es(st[0]['expr']['recv']) == 'builder':
        e = st[0]['expr']
        if e['method'] == 'field' and len(e['args']) == 2:
            k = stringify_hole(e['args'][0])
            if k:
                return ('call', 'field2', k, e['args'][1])
        if e['method'] == 'field' and len(e['args']) == 1:
            return ('call', 'field1', None, e['args'][0])
        if e['method'] == 'entry' and len(e['args']) == 2:
            a0 = e['args'][0]
            if a0['k'] == 'Ref' and a0['expr']['k'] == 'Call' and es(a0['expr']['func']) == 'Educe__RawString' and len(a0['expr']['args']) == 1:
                k = stringify_hole(a0['expr']['args'][0])
                if k:
                    return ('call', 'entry', k, e['args'][1])
    return None


def check_wrapper(S, site, L, val_ok, label):
    """`let arg = { struct Educe__DebugField<V, M>(V, PhantomData<M>); impl<G> Debug for Educe__DebugField<&FieldTy, Type<G>> where..
       { fn fmt(&self, X: &mut Formatter) -> Result { METHOD(self.0, X) } }  Educe__DebugField(VAL, PhantomData::<Self>) };`"""
    c = classify_stmt(S, site)
    if not c or c[0] != 'arg':
        return 'not the wrapper statement'
    init = c[1]
    if init['k'] != 'Block':
        return 'wrapper is not a block'
    st = init['stmts']
    if len(st) != 3 or st[0]['k'] != 'Item' or st[1]['k'] != 'Item' or st[2]['k'] != 'Expr' or st[2]['semi']:
        return 'unexpected wrapper shape'
    sdecl, impl, tail = st[0]['item'], st[1]['item'], st[2]['expr']
    if sdecl['k'] != 'Struct' or sdecl['name'] != 'Educe__DebugField':
        return 'wrapper struct missing'
    if impl['k'] != 'Impl' or not impl.get('trait') or impl['trait']['path']['s'] != '::core::fmt::Debug':
        return 'wrapper does not implement ::core::fmt::Debug'
    # self type Educe__DebugField<&#field_ty, #ty_ident #ty_generics>
    stp = impl['self_ty']
    okst = stp['k'] == 'Path' and stp['path']['s'] == 'Educe__DebugField' and len(stp['path']['segs'][0].get('args', [])) == 2
    if not okst:
        return 'wrapper impl is not for Educe__DebugField<&FieldTy, Type>'
    a0 = stp['path']['segs'][0]['args'][0]
    okty = a0['k'] == 'Type' and a0['ty']['k'] == 'Ref' and not a0['ty']['mut'] and a0['ty']['elem']['k'] == 'Path' and is_marker(a0['ty']['elem']['path']['s'])
    if not okty or S.hole_term(site, marker_name(a0['ty']['elem']['path']['s'])) != ('field', ('elem', L), 'ty'):
        return 'the wrapped value type is not a reference to this field\'s type'
    fns = [ii for ii in impl['items'] if ii['k'] == 'Fn']
    if len(fns) != 1 or fns[0]['sig']['name'] != 'fmt':
        return 'wrapper impl has no single fn fmt'
    fp = [a for a in fns[0]['sig']['inputs'] if a['k'] == 'Typed']
    b = fns[0]['block']['stmts']
    if len(fp) != 1 or len(b) != 1 or b[0]['k'] != 'Expr' or b[0]['semi']:
        return 'unexpected wrapper fmt'
    cp = call_parts(b[0]['expr'])
    if cp is None or cp[0] != 'hole' or [es(x) for x in cp[2]] != ['self.0', fp[0]['pat'].get('name')]:
        return 'wrapper fmt is not `METHOD(self.0, <its formatter>)`'
    mt = S.hole_term(site, cp[1])
    if not (isinstance(mt, tuple) and mt[0] == 'some_of' and S.attr_rec_ok(mt[1], L, 'method')):
        return 'the wrapper does not call this field\'s own `method` (term %s)' % term_s(mt, 80)
    # tail: Educe__DebugField(VAL, ::core::marker::PhantomData::<Self>)
    if not (tail['k'] == 'Call' and es(tail['func']) == 'Educe__DebugField' and len(tail['args']) == 2 and marker_of_expr(tail['args'][0])):
        return 'the wrapper is not constructed as Educe__DebugField(<value>, PhantomData)'
    vh = marker_of_expr(tail['args'][0])
    kids = S.kids(site, vh)
    if len(kids) != 1 or kids[0].cat != 'args' or len(kids[0].ast) != 1:
        return 'the wrapped value is not a single expression'
    r = val_ok(kids[0], kids[0].ast[0])
    if r is not True:
        return 'the wrapped value: %s' % r
    return True


def key_term_ok(S, kt, L, named_variant):
    """KEY = match field_attribute.name { Custom(n) => n, Default => <ident | _index> }"""
    if not (isinstance(kt, tuple)):
        return False
    # tuple projection from `let (key, field_name) = match ..` (struct) or direct match (enum)
    m = kt
    comp = None
    if kt[0] == 'proj' and isinstance(kt[2], tuple) and kt[2][0] == 'match':
        m = kt[2]
        comp = kt[1]
    if m[0] != 'match':
        return False
    scrut = m[1]
    if not S.attr_rec_ok(scrut, L, 'name'):
        return False
    arms = {p: v for p, v in m[2:]}
    cust = [v for p, v in arms.items() if p.startswith('FieldName::Custom(')]
    dflt = [v for p, v in arms.items() if p == 'FieldName::Default']
    if len(cust) != 1 or len(dflt) != 1 or len(arms) != 2:
        return False
    c, d = cust[0], dflt[0]
    if comp is not None:
        if not (isinstance(c, tuple) and c[0] == 'tuple' and isinstance(d, tuple)):
            return False
        c = c[1 + comp]
        # default arm: iflet over field.ident -> tuple
        if d[0] == 'iflet':
            a, b = d[3], d[4]
            if not (a[0] == 'tuple' and b[0] == 'tuple'):
                return False
            ident = ('field', ('elem', L), 'ident')
            return (c == ('payload', 'FieldName::Custom', 0, scrut) and d[2] == ident and a[1 + comp] == ('some_of', ident)
                    and b[1 + comp] == ('format_ident', '_{}', ('idx', L)))
        return False
    if c != ('payload', 'FieldName::Custom', 0, scrut):
        return False
    if named_variant:
        return d == ('unwrap', ('field', ('elem', L), 'ident'))
    return d == ('format_ident', '_{}', ('idx', L))


class DebugCase:
    """evaluates the emissions of one accumulator for one assignment of the case atoms"""

    def __init__(self, S, sites):
        self.S = S
        self.sites = sites

    def select(self, asg):
        out = []
        for s in self.sites:
            atoms = self.S.atoms(s)
            ok = True
            for a in atoms:
                k = a[:-1]
                if k in asg and asg[k] != a[-1]:
                    ok = False
            if ok:
                out.append(s)
        return out


def name_term_ok(S, nt, ident_term):
    """NAME = type_attribute.name.to_ident_by_ident(<ident>)"""
    return isinstance(nt, tuple) and nt[0] == 'mcall' and nt[2] == 'to_ident_by_ident' and nt[3] == ident_term and isinstance(nt[1], tuple) and nt[1][0] == 'field' and nt[1][2] == 'name'


def check_type_name_fn(cx, rep):
    fs = [f for f in cx.crate.fns if f.qname.endswith('debug::models::type_attribute::TypeName::to_ident_by_ident')]
    if len(fs) != 1:
        rep.broken.append('TypeName::to_ident_by_ident not found')
        return
    f = fs[0]
    fw = cx.fw(f)
    tab = {}
    for ev in fw.events:
        if ev.kind == 'match':
            for a in ev.node['arms']:
                tab[pat_s(a['pat'])] = es(a['body']).replace(' ', '')
    ok = tab.get('Self::Disable') == 'None' and tab.get('Self::Default') == 'Some(ident)' and any(p.startswith('Self::Custom(') and v == 'Some(%s)' % p[len('Self::Custom('):-1] for p, v in tab.items())
    if ok and len(tab) == 3:
        rep.ok('SUM-DEBUG', f.qname + '|Disable→none, Default→own name, Custom(n)→n', {'helper': f.qname, 'table': tab})
    else:
        rep.bad('SUM-DEBUG', f.qname, 'name-resolution', 'the effective-name table is %s (expected Disable→None, Default→Some(own name), Custom(n)→Some(n))' % tab, f.file, f.line)


def builder_defaults(S, rec, want_name, named_field_pred, label, site):
    """defaults carried by the TypeAttributeBuilder literal"""
    b = S.facts.builder_call(rec)
    if not b:
        S.bad('SUM-DEBUG', label + '-builder', 'attribute record is not built by a TypeAttributeBuilder', site)
        return False
    fields = {x[0]: x[1] for x in b[0][2:] if isinstance(x, tuple) and len(x) == 2}
    ok = True
    nm = fields.get('name')
    if nm != ('path', 'TypeName::' + want_name):
        S.bad('SUM-DEBUG', label + '-default-name', 'the default name mode is %s (documented default: %s)' % (term_s(nm, 60), want_name), site)
        ok = False
    nf = fields.get('named_field')
    if not named_field_pred(nf):
        S.bad('SUM-DEBUG', label + '-default-named_field', 'the default of `named_field` is %s (documented default: named iff the fields are named)' % term_s(nf, 100), site)
        ok = False
    return ok


def check_field_sequences(S, sites, L_kind, label, NFkey, NSkey, val_ok, named_variant):
    """path-wise: for every (named_field?, name shown?, ignored?, method?) the emitted statement sequence for one field"""
    ok = True
    fsites = []
    L = None
    for s in sites:
        la, lk = S.field_loop(S.atoms(s))
        if la is not None:
            fsites.append(s)
            if L is None:
                L = la[1]
    if not fsites:
        S.bad('SUM-DEBUG', label + '-no-field-statements', 'no per-field statements are emitted')
        return False
    # group by loop (each named_field branch has its own loop)
    loops = {}
    for s in fsites:
        la, lk = S.field_loop(S.atoms(s))
        if not S.loop_in_decl_order(la):
            S.bad('SUM-DEBUG', label + '-order', 'fields are not visited in declaration order', s)
            ok = False
        loops.setdefault(la[1], []).append(s)
    seen_cases = set()
    for L, ss in loops.items():
        # which named_field value does this loop belong to
        nfv = set()
        for s in ss:
            for a in S.atoms(s):
                if a[:-1] == NFkey:
                    nfv.add(a[-1])
        if len(nfv) != 1:
            S.bad('SUM-DEBUG', label + '-named_field-guard', 'field statements are not under exactly one value of `named_field`', ss[0])
            ok = False
            continue
        NF = nfv.pop()
        ign_key = None
        meth_key = None
        extras = set()
        for s in ss:
            for a in atoms_after_loop(S.atoms(s), L):
                if S.attr_atom(a, L, 'ignore') is not None:
                    ign_key = a[:-1]
                elif S.attr_atom(a, L, 'method') is not None:
                    meth_key = a[:-1]
                elif a[:-1] == NSkey or a[:-1] == NFkey:
                    pass
                elif a[0] == 'call':
                    pass
                else:
                    extras.add(a)
        if extras:
            S.bad('SUM-DEBUG', label + '-extra-guard', 'field statements are additionally conditioned on %s' % [atom_s(a)[:80] for a in extras], ss[0])
            ok = False
        if ign_key is None or meth_key is None:
            S.bad('SUM-DEBUG', label + '-guards', 'field statements are not guarded by this field\'s ignore / method attributes', ss[0])
            ok = False
            continue
        dc = DebugCase(S, ss)
        for NS in ((True, False) if NF else (None,)):
            for ign, meth in itertools.product((True, False), repeat=2):
                asg = {ign_key: ign, meth_key: meth}
                if NS is not None:
                    asg[NSkey] = NS
                sel = dc.select(asg)
                seq = [classify_stmt(S, s) for s in sel]
                case = 'named_field=%s,name=%s,ignore=%s,method=%s' % (NF, NS, ign, meth)
                if ign:
                    if sel:
                        S.bad('SUM-DEBUG', label + '-ignored-field', 'an ignored field still produces %d statement(s) (%s)' % (len(sel), case), sel[0])
                        ok = False
                    continue
                want_call = ('field2' if NS else 'entry') if NF else 'field1'
                if meth:
                    good = len(seq) == 2 and seq[0] and seq[0][0] == 'arg' and seq[1] and seq[1][0] == 'call' and seq[1][1] == want_call and es(seq[1][3]) == '&arg'
                    if good:
                        r = check_wrapper(S, sel[0], L, val_ok, label)
                        if r is not True:
                            S.bad('SUM-DEBUG', label + '-wrapper', r, sel[0])
                            ok = False
                else:
                    good = len(seq) == 1 and seq[0] and seq[0][0] == 'call' and seq[0][1] == want_call
                    if good:
                        r = val_ok(sel[0], seq[0][3])
                        if r is not True:
                            S.bad('SUM-DEBUG', label + '-value', 'the shown value is not this field: %s (%s)' % (r, case), sel[0])
                            ok = False
                if not good:
                    S.bad('SUM-DEBUG', label + '-sequence',
                          'for %s the field produces %s (expected %s)' % (case, [x[:2] if x else None for x in seq], (['arg', want_call] if meth else [want_call])), sel[0] if sel else ss[0])
                    ok = False
                    continue
                cs = sel[-1]
                c = seq[-1]
                if NF:
                    kt = S.hole_term(cs, c[2])
                    if not key_term_ok(S, kt, L, named_variant):
                        S.bad('SUM-DEBUG', label + '-key', 'the key shown for the field is not "custom name, else the field identifier / _<index>" (term %s)' % term_s(kt, 140), cs)
                        ok = False
                seen_cases.add((NF, NS, meth))
                S.ok('SUM-DEBUG', '%s|%s' % (label, case), {'case': case, 'statements': [s.tmpl.text()[:70] for s in sel]})
    need = {(True, True, True), (True, True, False), (True, False, True), (True, False, False), (False, None, True), (False, None, False)}
    if not need <= seen_cases:
        S.bad('SUM-DEBUG', label + '-cases', 'not all rendering cases are handled: missing %s' % sorted(map(str, need - seen_cases)))
        ok = False
    return ok


def check_preludes(S, sites, label, NFkey, NSkey, name_arg_ok):
    """builder creation per case"""
    ok = True
    pre = [s for s in sites if S.field_loop(S.atoms(s))[0] is None]
    dc = DebugCase(S, pre)
    for NF, NS in ((True, True), (True, False), (False, True), (False, False)):
        asg = {NFkey: NF, NSkey: NS}
        sel = dc.select(asg)
        seq = [classify_stmt(S, s) for s in sel]
        case = 'named_field=%s,name=%s' % (NF, NS)
        if NF and NS:
            good = len(seq) == 1 and seq[0] and seq[0][0] == 'builder' and seq[0][1] == 'debug_struct' and name_arg_ok(sel[0], seq[0][2], True) is True
            want = 'f.debug_struct(NAME)'
        elif NF and not NS:
            good = len(seq) == 1 and seq[0] == ('map-builder',)
            want = 'map builder with raw-string keys'
        else:
            good = len(seq) == 1 and seq[0] and seq[0][0] == 'builder' and seq[0][1] == 'debug_tuple' and name_arg_ok(sel[0], seq[0][2], NS) is True
            want = 'f.debug_tuple(NAME or "")'
        if good:
            S.ok('SUM-DEBUG', '%s|builder|%s' % (label, case), {'case': case, 'builder': sel[0].tmpl.text()[:90]})
        else:
            S.bad('SUM-DEBUG', label + '-builder-' + case, 'for %s the builder is %s (expected %s)' % (case, [x[:2] if x else None for x in seq], want), sel[0] if sel else None)
            ok = False
    return ok


def check_struct(cx, fn, rep, facts):
    S = Summ(cx, fn, rep, facts)
    impls = S.impl_of('::core::fmt::Debug')
    tops = [(s, it) for s, it in impls]
    if len(tops) != 1:
        S.bad('SUM-DEBUG', 'impl', 'expected exactly one `impl ::core::fmt::Debug` emission, found %d' % len(tops))
        return
    site, impl = tops[0]
    fns = S.fns_of(impl)
    if len(fns) != 1 or fns[0]['sig']['name'] != 'fmt' or len(impl['items']) != 1:
        S.bad('SUM-DEBUG', 'impl-fns', 'the impl must define exactly `fn fmt`', site)
        return
    f = fns[0]
    st = f['block']['stmts']
    ms = marker_stmts(st)
    # `<builder statements> builder.finish()`: the statements come from one stream, or from several interpolated one after the other
    # (builder creation first, then the per-field statements)
    if not (len(st) >= 2 and len(ms) == len(st) - 1 and [m_[0] for m_ in ms] == list(range(len(st) - 1)) and st[-1]['k'] == 'Expr' and not st[-1]['semi']
            and es(st[-1]['expr']) == 'builder.finish()'):
        S.bad('SUM-DEBUG', 'struct-body', 'the body of fmt is not `<builder statements> builder.finish()`', site)
        return
    sites = []
    per_marker = []
    for m_ in ms:
        ks_ = S.kids(site, m_[1])
        per_marker.append(ks_)
        sites += ks_
    if len(ms) > 1:
        fld_idx = set(i_ for i_, ks_ in enumerate(per_marker) for s_ in ks_ if S.field_loop(S.atoms(s_))[0] is not None)
        pre_idx = set(i_ for i_, ks_ in enumerate(per_marker) for s_ in ks_ if S.field_loop(S.atoms(s_))[0] is None)
        if len(fld_idx) > 1 or (fld_idx and pre_idx and max(pre_idx) > min(fld_idx)):
            S.bad('SUM-DEBUG', 'struct-body', 'the per-field statements are spread over several interpolated streams, or a builder statement follows them', site)
            return
    # case atoms
    NF = None
    NS = None
    for s in sites:
        for a in S.atoms(s):
            if a[0] == 'truth' and isinstance(a[1], tuple) and a[1][0] == 'field' and a[1][2] == 'named_field':
                NF = a[:-1]
            if a[0] == 'some' and name_term_ok(S, a[1], ('field', ('param', 'ast'), 'ident')):
                NS = a[:-1]
    if NF is None or NS is None:
        S.bad('SUM-DEBUG', 'struct-case-atoms', 'the rendering is not selected by the type-level `named_field` and the effective name', site)
        return
    rec = NF[1][1]
    ok = builder_defaults(S, rec, 'Default', lambda nf: is_not_tuple_default(S, nf), 'struct', site)

    def name_arg_ok(s, e, shown):
        h = stringify_hole(e)
        if h is None or h == '':
            return 'the name argument is not ::core::stringify!(#name)'
        t = S.hole_term(s, h)
        if shown:
            return True if t == ('some_of', NS[1]) or t == NS[1] else 'the printed name is not the effective name'
        return True if t == NS[1] else 'the printed name is not the effective (absent) name'

    def val_ok(s, e):
        a = access(e)
        if a is None or a[0] != 'member' or a[1] != 'self' or a[3] != 1 or a[4]:
            return '`%s` is not `&self.<field>`' % es(e)[:40]
        la, lk = S.field_loop(S.atoms(s))
        if la is None or member_of_loop(S.hole_term(s, a[2]), la[1]) is None:
            mt = S.hole_term(s, a[2])
            if not (isinstance(mt, tuple) and mt[0] == 'proj' and key_member_ok(S, mt, la[1] if la else None)):
                return 'the member is not the visited field\'s'
        return True
    ok = check_preludes(S, sites, 'struct', NF, NS, name_arg_ok) and ok
    ok = check_field_sequences(S, sites, 'struct', 'struct', NF, NS, val_ok, False) and ok
    # emission order: builder first
    pre = [s for s in sites if S.field_loop(S.atoms(s))[0] is None]
    fld = [s for s in sites if s not in pre]
    if pre and fld and max(p.leaf.event.seq for p in pre if p.leaf and p.leaf.event) > min(x.leaf.event.seq for x in fld if x.leaf and x.leaf.event) and False:
        S.bad('SUM-DEBUG', 'struct-order', 'field statements are emitted before the builder is created', site)
        ok = False
    if ok:
        S.ok('SUM-DEBUG', 'struct', {'handler': fn.qname})


def key_member_ok(S, mt, L):
    """field_name component of `let (key, field_name) = match field_attribute.name {..}`"""
    if L is None or mt[0] != 'proj' or mt[1] != 1 or not (isinstance(mt[2], tuple) and mt[2][0] == 'match'):
        return False
    m = mt[2]
    if not S.attr_rec_ok(m[1], L, 'name'):
        return False
    okc = okd = False
    for p, v in m[2:]:
        if p.startswith('FieldName::Custom(') and isinstance(v, tuple) and v[0] == 'tuple' and member_of_loop(v[2], L) is not None:
            okc = True
        if p == 'FieldName::Default' and isinstance(v, tuple) and v[0] == 'iflet' and v[2] == ('field', ('elem', L), 'ident'):
            a, b = v[3], v[4]
            if a[0] == 'tuple' and b[0] == 'tuple' and a[2] == ('call', 'crate::common::ident_index::IdentOrIndex::from', ('some_of', v[2])) \
                    and b[2] == ('call', 'crate::common::ident_index::IdentOrIndex::from', ('idx', L)):
                okd = True
    return okc and okd


def is_not_tuple_default(S, nf):
    """`named_field: !is_tuple` with is_tuple = matches!(data.fields, Fields::Unnamed(_)) for structs"""
    if not (isinstance(nf, tuple) and nf[0] == 'unary' and nf[1] == '!'):
        return False
    t = nf[2]
    want = ('matches', ('field', ('payload', 'Data::Struct', 0, ('field', ('param', 'ast'), 'data')), 'fields'), 'Fields::Unnamed(_)')
    if isinstance(t, tuple) and t[0] == 'iflet' and t[3] == want and t[4] == ('lit', 'Bool', True):
        return True
    # the exhaustive spelling `match &ast.data { Data::Struct(d) => matches!(..), Data::Enum(_) | Data::Union(_) => true }`
    from ..terms import match_arms
    ma = match_arms(t)
    if ma is not None and ma[0] == ('field', ('param', 'ast'), 'data'):
        arms = dict(ma[1])
        st_ = [v for p_, v in arms.items() if p_.startswith('Data::Struct')]
        rest = [v for p_, v in arms.items() if not p_.startswith('Data::Struct')]
        return len(st_) == 1 and st_[0] == want and bool(rest) and all(v == ('lit', 'Bool', True) for v in rest)
    return False


def check_name_string(S, nst, V):
    """name_string = if let Some(name) = NAME { if let Some(vn) = VNAME { Some("NAME::VNAME") } else { Some("NAME") } } else { VNAME.map(to_string) }"""
    if not (isinstance(nst, tuple) and nst[0] == 'iflet' and nst[1].startswith('Some(')):
        return 'name_string is not selected by the enum-level name'
    NAME = nst[2]
    if not name_term_ok(S, NAME, ('field', ('param', 'ast'), 'ident')):
        return 'the enum-level name is not the effective name of the type'
    a, b = nst[3], nst[4]
    if not (isinstance(a, tuple) and a[0] == 'iflet' and a[1].startswith('Some(')):
        return 'with an enum name shown, the variant name is not consulted'
    VNAME = a[2]
    if not name_term_ok(S, VNAME, ('field', ('elem', V), 'ident')):
        return 'the variant-level name is not the effective name of this variant'
    both, only_enum = a[3], a[4]
    okboth = False
    if isinstance(both, tuple) and both[0] == 'Some' and isinstance(both[1], tuple) and both[1][0] == 'call' and str(both[1][1]).endswith('path_to_string'):
        inner = both[1][2]
        if isinstance(inner, tuple) and inner[0] == 'unwrap' and inner[1][0] == 'call' and str(inner[1][1]).endswith('parse2') and inner[1][2][0] == 'tmpl':
            for t2 in S.cx.gm.templates:
                if id(t2.mac) == inner[1][2][1]:
                    if t2.text().replace(' ', '') == '#name::#variant_name' and t2.hole_term('name') == ('some_of', NAME) and t2.hole_term('variant_name') == ('some_of', VNAME):
                        okboth = True
    if not okboth:
        return 'with both names shown the printed name is not `Enum::Variant`'
    if not (isinstance(only_enum, tuple) and only_enum[0] == 'Some' and only_enum[1] == ('mcall', ('mcall', ('some_of', NAME), 'into_token_stream'), 'to_string')):
        return 'with only the enum name shown the printed name is not the enum name'
    to_string_of = lambda X: ('mcall', ('mcall', ('some_of', X), 'into_token_stream'), 'to_string')
    map_form = isinstance(b, tuple) and b[0] == 'mcall' and b[2] == 'map' and b[1] == VNAME
    iflet_form = (isinstance(b, tuple) and b[0] == 'iflet' and b[1].startswith('Some(') and b[2] == VNAME and b[4] in (('None',), VNAME)
                  and b[3] == ('Some', to_string_of(VNAME)))
    if not (map_form or iflet_form):
        return 'without an enum name the printed name is not the variant name (if any)'
    return True


def check_enum(cx, fn, rep, facts):
    S = Summ(cx, fn, rep, facts)
    impls = S.impl_of('::core::fmt::Debug')
    if len(impls) != 1:
        S.bad('SUM-DEBUG', 'impl', 'expected exactly one `impl ::core::fmt::Debug` emission, found %d' % len(impls))
        return
    site, impl = impls[0]
    fns = S.fns_of(impl)
    if len(fns) != 1 or fns[0]['sig']['name'] != 'fmt' or len(impl['items']) != 1:
        S.bad('SUM-DEBUG', 'impl-fns', 'the impl must define exactly `fn fmt`', site)
        return
    f = fns[0]
    st = f['block']['stmts']
    ms = marker_stmts(st)
    if len(ms) != 1 or len(st) != 1:
        S.bad('SUM-DEBUG', 'enum-body', 'the body of fmt is not one composed expression', site)
        return
    ok = True
    bodies = S.kids(site, ms[0][1])
    msite = None
    for b in bodies:
        e = b.ast[0]['expr'] if b.cat == 'stmts' and len(b.ast) == 1 and b.ast[0]['k'] == 'Expr' else None
        atoms = [a for a in S.atoms(b) if a[0] not in ('nand',)]
        if e is not None and e['k'] == 'Match' and es(e['expr']) == 'self':
            from ..emptiness import nonempty_evidence, empty_evidence, is_emptiness_atom
            rest_ = [a for a in atoms if not is_emptiness_atom(a) and a[0] != 'data']
            if not (not rest_ and nonempty_evidence(atoms, S.cx, S.fw)):
                S.bad('SUM-DEBUG', 'enum-match-guard', '`match self` emitted under %s' % [atom_s(a)[:60] for a in atoms], b)
                ok = False
            msite = (b, e)
        elif e is not None and e['k'] == 'MethodCall' and e['method'] == 'write_str' and es(e['recv']) == 'f' and len(e['args']) == 1:
            h = stringify_hole(e['args'][0])
            okn = h and isinstance(S.hole_term(b, h), tuple) and S.hole_term(b, h)[0] == 'some_of' and name_term_ok(S, S.hole_term(b, h)[1], ('field', ('param', 'ast'), 'ident'))
            from ..emptiness import empty_evidence
            okg = empty_evidence(atoms, S.cx, S.fw) and (any(a[0] == 'some' and a[2] is True for a in atoms)
                                                           or any(a[0] == 'survive' and len(a[2]) == 1 and a[2][0].startswith('Some(') for a in atoms))
            if okg and not okn and h and isinstance(S.hole_term(b, h), tuple) and len(S.hole_term(b, h)) == 5 and S.hole_term(b, h)[0] == 'iflet' \
                    and S.hole_term(b, h)[3] == ('some_of', S.hole_term(b, h)[2]) and S.hole_term(b, h)[4] == ('never',):
                # `let name = name.ok_or_else(|| unit_enum_need_name(..))?;`: the hole is the payload
                okn = name_term_ok(S, S.hole_term(b, h)[2], ('field', ('param', 'ast'), 'ident'))
            if not (okn and okg):
                S.bad('SUM-DEBUG', 'enum-empty', 'an empty enum must print its shown name (and be refused without one)', b)
                ok = False
        else:
            S.bad('SUM-DEBUG', 'enum-body-form', 'unexpected body form', b)
            ok = False
    if msite is None:
        S.bad('SUM-DEBUG', 'enum-match', 'no `match self { #arms }` body', site)
        return
    b, e = msite
    if len(e['arms']) != 1 or marker_of_pat(e['arms'][0]['pat']) is None:
        S.bad('SUM-DEBUG', 'enum-arms', '`match self` does not consist of the per-variant arms', b)
        return
    # residuals of the "nothing to print and no name" refusals are rejected inputs, not extra conditions
    by_shape = variant_arms(S, 'SUM-DEBUG', b, marker_of_pat(e['arms'][0]['pat']),
                            allow=lambda x: x[0] == 'nand' or (x[0] == 'some' and x[2] is True and isinstance(x[1], tuple) and x[1][0] == 'iflet')
                            # the same residual spelled `let name = match name { Some(n) => n, None => return Err(..) };`
                            or (x[0] == 'survive' and isinstance(x[1], tuple) and x[1][0] == 'iflet' and len(x[2]) == 1 and x[2][0].startswith('Some('))
                            # .. or as the De Morgan form in a helper: `if has_fields || name.is_some() { Ok(()) } else { Err(..) }`
                            or (x[0] == 'or' and x[2] is True and len(x[1]) == 2 and sorted(y[0] for y in x[1]) == ['some', 'truth']))
    if by_shape is None:
        return
    for sh, lst in by_shape.items():
        a, V = lst[0]
        ok = check_arm(S, a, V, sh) and ok
    if ok:
        S.ok('SUM-DEBUG', 'enum', {'handler': S.where})


def check_arm(S, a, V, sh):
    arms = a.ast if a.cat == 'arms' else None
    if not arms or len(arms) != 1 or arms[0].get('guard') is not None:
        S.bad('SUM-DEBUG', 'arm-%s' % sh, 'arm template is not a single unguarded arm', a)
        return False
    arm = arms[0]
    pm = pattern_model(S, a, arm['pat'], 'self')
    if pm is None or pm.variant_term != ('field', ('elem', V), 'ident') or pm.problems:
        S.bad('SUM-DEBUG', 'arm-%s-pattern' % sh, 'the arm pattern is not `Self::<this variant> ..`', a)
        return False
    atoms = S.atoms(a)
    if sh == 'Unit':
        e = arm['body']
        okf = e['k'] == 'MethodCall' and e['method'] == 'write_str' and es(e['recv']) == 'f' and len(e['args']) == 1 and marker_of_expr(e['args'][0])
        if not okf:
            S.bad('SUM-DEBUG', 'arm-Unit-body', 'a unit variant is not rendered with `f.write_str(NAME)`', a)
            return False
        nt = S.hole_term(a, marker_of_expr(e['args'][0]))
        unwrapped = False
        if isinstance(nt, tuple) and nt and nt[0] == 'some_of' and len(nt) == 2:
            # `let name = match name { Some(n) => n, None => return Err(..) };`: the hole is the payload, present by construction
            nt = nt[1]
            unwrapped = True
        elif isinstance(nt, tuple) and len(nt) == 5 and nt[0] == 'iflet' and str(nt[1]).startswith('Some(') and nt[3] == ('some_of', nt[2]) and nt[4] == ('never',):
            nt = nt[2]
            unwrapped = True
        r = check_name_string(S, nt, V)
        proven = any(x[0] == 'some' and x[2] is True and x[1] == nt for x in atoms) \
            or (unwrapped and any(x[0] == 'survive' and x[1] == nt and len(x[2]) == 1 and x[2][0].startswith('Some(') for x in atoms))
        if r is not True or not proven:
            S.bad('SUM-DEBUG', 'arm-Unit-name', (r if r is not True else 'the name may be absent here (refusal does not dominate)'), a)
            return False
        return True
    body = block_stmts(arm['body'])
    ms = marker_stmts(body)
    if not (len(body) == 2 and len(ms) == 1 and ms[0][0] == 0 and body[1]['k'] == 'Expr' and not body[1]['semi'] and es(body[1]['expr']) == 'builder.finish()'):
        S.bad('SUM-DEBUG', 'arm-%s-body' % sh, 'the arm body is not `<builder statements> builder.finish()`', a)
        return False
    sites = S.kids(a, ms[0][1])
    NF = None
    NS = None
    nst = None
    for s in sites:
        for x in S.atoms(s):
            if x[0] == 'truth' and isinstance(x[1], tuple) and x[1][0] == 'field' and x[1][2] == 'named_field' and S.facts.builder_call(x[1][1]) and \
                    S.facts.builder_call(x[1][1])[2][0] == ('field', ('elem', V), 'attrs'):
                NF = x[:-1]
            if x[0] == 'some' and isinstance(x[1], tuple) and x[1][0] == 'iflet' and check_name_string(S, x[1], V) is True:
                NS = x[:-1]
                nst = x[1]
    if NF is None:
        S.bad('SUM-DEBUG', 'arm-%s-named_field' % sh, 'the rendering style is not selected by this variant\'s own `named_field`', a)
        return False
    if NS is None:
        # name_string may be wrapped: positional branch shadows it with unwrap_or("")
        for s in sites:
            for x in S.atoms(s):
                if x[0] == 'some' and isinstance(x[1], tuple) and x[1][0] == 'iflet':
                    r = check_name_string(S, x[1], V)
                    if r is not True:
                        S.bad('SUM-DEBUG', 'arm-%s-name' % sh, r, a)
                        return False
        S.bad('SUM-DEBUG', 'arm-%s-name' % sh, 'the shown name is not the effective Enum::Variant / Enum / Variant name', a)
        return False
    ok = builder_defaults(S, NF[1][1], 'Default', lambda nf: nf == ('matches', ('field', ('elem', V), 'fields'), 'Fields::Named(_)'), 'arm-%s' % sh, a)
    # enum-level record default name: Disable
    enum_name = nst[2][1]
    b = S.facts.builder_call(enum_name[1]) if isinstance(enum_name, tuple) and enum_name[0] == 'field' else None
    if b:
        fields = {x[0]: x[1] for x in b[0][2:] if isinstance(x, tuple) and len(x) == 2}
        if fields.get('name') != ('path', 'TypeName::Disable'):
            S.bad('SUM-DEBUG', 'enum-default-name', 'the enum-level default name mode is %s (documented default: not shown)' % term_s(fields.get('name'), 60), a)
            ok = False

    def name_arg_ok(s, e, shown):
        m = marker_of_expr(e)
        if m is None:
            return 'the name argument is not the name string'
        t = S.hole_term(s, m)
        if shown:
            return True if t in (('some_of', nst), ('some_of', ('mcall', nst, 'as_deref')), ('mcall', ('mcall', nst, 'as_deref'), 'unwrap_or', ('lit', 'Str', ''))) or t == ('mcall', nst, 'unwrap_or', ('lit', 'Str', '')) else 'the printed name is not the effective name'
        return True if t in (('mcall', nst, 'unwrap_or', ('lit', 'Str', '')), ('mcall', ('mcall', nst, 'as_deref'), 'unwrap_or', ('lit', 'Str', ''))) else 'without a name the tuple builder is not given ""'

    def val_ok(s, e):
        acc = access(e)
        if acc is None or acc[0] != 'var' or acc[2] != 0:
            return '`%s` is not the pattern binder' % es(e)[:40]
        bt = S.hole_term(s, acc[1])
        ent = pm.binder(bt)
        la, lk = S.field_loop(S.atoms(s))
        if ent is None:
            return '`#%s` is not bound by the arm pattern' % acc[1]
        # the binder entry belongs to the twin loop of the same named_field branch: same field by construction of pattern_once
        if pm.kind == 'named' and (ent.name_term is None or ent.name_term[0] not in ('unwrap', 'some_of')):
            return 'binder attached to a wrong field name'
        if pm.kind == 'named':
            if ent.name_term != ('unwrap', ('field', ('elem', ent.loop_id), 'ident')) or ent.loop_id != (la[1] if la else None):
                return 'the binder belongs to another field'
        else:
            if ent.loop_id != (la[1] if la else None):
                return 'the binder belongs to another field loop'
        return True
    expkind = {'Named': 'named', 'Unnamed': 'tuple'}[sh]
    if pm.kind != expkind:
        S.bad('SUM-DEBUG', 'arm-%s-pattern-kind' % sh, 'pattern kind %s does not fit a %s variant' % (pm.kind, sh), a)
        return False
    ok = pattern_once(S, pm, 'SUM-DEBUG', 'arm-%s' % sh) and ok
    ok = check_preludes(S, sites, 'arm-%s' % sh, NF, NS, name_arg_ok) and ok
    ok = check_field_sequences(S, sites, 'variant', 'arm-%s' % sh, NF, NS, val_ok, sh == 'Named') and ok
    return ok


def run(cx, tier='quick'):
    rep = Report('C06')
    rep.explanation.append(
        'SUM-DEBUG: path-wise semantic summary of the generated fmt of the Debug struct and enum handlers: for every combination of '
        '(named_field, name shown, ignored, method) the statement sequence is builder creation (debug_struct(NAME) / map builder with '
        'raw-string keys / debug_tuple(NAME or "")), per non-ignored field one `.field(KEY, VAL)` / `.entry(RawString(KEY), VAL)` / '
        '`.field(VAL)` (with the method wrapper `arg` when a method is given), then builder.finish(); KEY and NAME provenance, builder '
        'defaults (struct: name shown; enum: name hidden; variant: name shown; named_field = shape), TypeName resolution table, unit '
        'variants f.write_str(NAME). core::fmt\'s rendering of that call sequence in {:?} / {:#?} is trusted.')
    facts = Facts(cx)
    n = 0
    for t, sh, fn in cx.shape_handlers():
        if t == 'Debug' and sh == 'struct':
            check_struct(cx, fn, rep, facts)
            n += 1
        elif t == 'Debug' and sh == 'enum':
            check_enum(cx, fn, rep, facts)
            n += 1
    if n != 2:
        rep.broken.append('expected the Debug struct and enum handlers, found %d' % n)
    check_type_name_fn(cx, rep)
    from .c13 import include_own_scanners
    include_own_scanners(cx, facts, rep, ['::debug::'])
    # a variant with nothing to show is displayed as its effective name: the three variant kinds must agree on when that name is missing
    from .c13_sel import check_need_name_siblings, check_has_fields_flag
    check_need_name_siblings(cx, facts, rep)
    check_has_fields_flag(cx, facts, rep)
    from .helpers import check_path_to_string, check_ident_or_index
    check_path_to_string(cx, rep)
    check_ident_or_index(cx, rep)
    from .scope import check_scopes
    check_scopes(cx, rep, ['::debug::'])
    rep.floor('SUM-DEBUG', 30, '(37 cases today)')
    rep.assumptions += ['core::fmt::DebugStruct/DebugTuple/DebugMap render the call sequence as documented, in compact and alternate mode',
                        '#[derive(Debug)] is specified as debug_struct(Name).field("f", &self.f)… / debug_tuple(Name).field(&self.0)… / write_str(Variant)',
                        'union Debug (byte-wise, `unsafe`-gated) is specified by C20; its summary is evaluated here as well']
    # the union generator of this trait (byte-wise, SUM-UNION of C20) is part of this trait's derive too
    from . import c20 as _c20
    from ..facts import Facts as _Fu
    _c20.check_debug(cx, rep, _Fu(cx))
    rep.not_decided += ['stringify! of raw identifiers (excluded by the property)']
    from .binders import check_binder_injectivity
    check_binder_injectivity(cx, rep, ['::debug::'])
    from .c13 import include_own_parsers as _iop
    from ..facts import Facts as _Fp
    _iop(cx, _Fp(cx), rep, ['::debug::'])
    # the impl headers of this trait's own templates (generics, where-clause, ::core trait path): HDR
    from .c12 import check_headers as _chk_hdr
    _chk_hdr(cx, rep, ['::debug::'])
    from .own import include_generic_rules as _igr
    _igr(cx, rep, ['::debug::'])
    return rep
