"""SEL / SHAPE / DUP rules of C13 (SEL is shared with C08, C09, C10)."""
from ..syn import es, pat_s
from ..terms import term_s, subterms, analyse_iter, strip_refs
from ..walk import ctx_s
from ..facts import atom_s
from ..parsers import ret_value_kind

from .search import check_search_loops


class Selection:
    def __init__(self, fn, var):
        self.fn = fn
        self.var = var
        self.assign_some = []
        self.assign_none = []
        self.loop = None
        self.ok = True


def selections(cx):
    """mutable `let mut sel: Option<..> = None` variables assigned `Some(..)` inside a loop, in handler functions"""
    out = []
    for fn in cx.crate.fns:
        if len(fn.module.path) < 2 or fn.module.path[0] != 'trait_handlers' or (len(fn.module.path) >= 3 and fn.module.path[2] == 'models'):
            continue
        if id(fn) in getattr(cx.crate, 'fully_inlined', ()):
            continue        # a search extracted into a private helper is judged where it is used (inlined copy in the caller)
        fw = cx.fw(fn)
        for d in fw.defs:
            if d.kind == 'let' and d.mutable and d.init is not None and d.init['k'] == 'Path' and d.init['path']['s'] == 'None' and d.assigns:
                somes = [a for a in d.assigns if a.value['k'] == 'Call' and es(a.value['func']) == 'Some']
                inloop = [a for a in d.assigns if any(c['k'] == 'for' and c not in d.ctx for c in a.ctx)]
                if inloop and (somes or any('Some' in es(a.value) for a in inloop)):
                    s = Selection(fn, d)
                    s.assign_some = somes
                    s.assign_none = [a for a in d.assigns if a.value['k'] == 'Path' and a.value['path']['s'] == 'None']
                    out.append(s)
    return out


def check(cx, facts, rep):
    check_selections(cx, facts, rep)
    check_shape(cx, facts, rep)
    check_dup(cx, facts, rep)


def check_selections(cx, facts, rep):
    sels = selections(cx)
    for s in sels:
        fn, d = s.fn, s.var
        fw = cx.fw(fn)
        tm = cx.gm.terms_of(fw)
        where = fn.qname
        inst0 = 'select=%s' % d.name
        good = True
        # SEL0: every search loop, interpreted over the selection's state {None, Some}: first hit designates, a further hit refuses
        # (or resets and stops), a non-matching item changes nothing
        class _S: pass
        S_ = _S(); S_.fw = fw
        auto = check_search_loops(S_, d, None)
        if isinstance(auto, str):
            rep.bad('SEL', where, inst0 + '-search', auto, fn.file, d.line)
            good = False
        for a in s.assign_some:
            loops = [c for c in a.ctx if c['k'] == 'for' and c not in d.ctx]
            if len(loops) != 1:
                rep.bad('SEL', where, inst0 + '-loop', 'the designated item is assigned outside a single search loop', fn.file, a.line)
                good = False
                continue
            L = loops[0]
            info = analyse_iter(L['iter'])
            if info.rev or [x for x in info.adaptors]:
                rep.bad('SEL', where, inst0 + '-loop-order', 'the search loop does not visit the items in declaration order: `%s`' % es(L['iter']), fn.file, a.line)
                good = False
            # SEL1: payload is this iteration's (index, item[, ..])
            payload = a.value['args'][0]
            comps = payload['elems'] if payload['k'] == 'Tuple' else [payload]
            terms = [tm.term(c, a.scope) for c in comps]
            has_elem = any(t == ('elem', L['id']) for t in terms)
            idx_terms = [t for t in terms if isinstance(t, tuple) and t[0] in ('idx',) or (isinstance(t, tuple) and t[0] == 'lit' and t[1] == 'Int')]
            bad_idx = [t for t in terms if isinstance(t, tuple) and t[0] in ('bin', 'cast', 'mcall') and any(isinstance(x, tuple) and x[:1] == ('idx',) for x in subterms(t))]
            if not has_elem or bad_idx or any(t[0] == 'idx' and t[1] != L['id'] for t in idx_terms if t[0] == 'idx'):
                rep.bad('SEL', where, inst0 + '-payload',
                        'the recorded designation is not this iteration\'s (index, item): %s' % [term_s(t, 60) for t in terms], fn.file, a.line)
                good = False
            # SEL2: duplicate handling before the assignment, under `sel.is_some()`
            dup = []
            for ev in fw.events:
                if ev.seq < a.seq and L in ev.ctx:
                    at = facts.atoms(tuple(c for c in ev.ctx if c not in a.ctx or True), fw)
                    under_some = any(x[0] == 'some' and x[2] is True and x[1] == ('var', d.id, d.name) for x in at)
                    if not under_some:
                        continue
                    if ev.kind == 'exit' and ev.how == 'return' and isinstance(ret_value_kind(ev), tuple):
                        dup.append(('err', ret_value_kind(ev)[1], ev))
                    if ev.kind == 'assign' and es(ev.target) == d.name and es(ev.value) == 'None':
                        # ambiguity resolved to "none": must be followed by break
                        brk = [e2 for e2 in fw.events if e2.kind == 'exit' and e2.how == 'break' and e2.seq > ev.seq and e2.ctx == ev.ctx]
                        if brk:
                            dup.append(('reset-and-stop', None, ev))
            # the duplicate check must share the assignment's guards (same marked branch)
            dup = [x for x in dup if set(c.key() for c in a.ctx if not c.get('prior')) <= set(c.key() for c in x[2].ctx)]
            if not dup:
                # the same check as one `match sel { None => sel = Some(..), Some(_) => return Err(..) }`
                arm_none = [c for c in a.ctx if c['k'] == 'arm' and es(c['scrut']).replace(' ', '').lstrip('&') == d.name and pat_s(c['pat']) == 'None' and c.get('narms') == 2]
                if arm_none:
                    mid_ = arm_none[-1]['match_id']
                    rest_a = set(c.key() for c in a.ctx if not c.get('prior') and c is not arm_none[-1])
                    for ev in fw.events:
                        if ev.kind == 'exit' and ev.how == 'return' and isinstance(ret_value_kind(ev), tuple):
                            arms_ = [c for c in ev.ctx if c['k'] == 'arm' and c.get('match_id') == mid_ and pat_s(c['pat']).startswith('Some(')]
                            if arms_ and rest_a <= set(c.key() for c in ev.ctx if c is not arms_[-1]):
                                dup.append(('err', ret_value_kind(ev)[1], ev))
            if not dup:
                rep.bad('SEL', where, inst0 + '-duplicate',
                        'a second designated item is not rejected before it replaces the first (no `if %s.is_some() { return Err(..) }` in the marked branch)' % d.name, fn.file, a.line)
                good = False
        # SEL3: none ⇒ Err after the loop
        none_exit = False
        for ev in fw.events:
            if ev.kind == 'exit' and ev.how == 'return' and isinstance(ret_value_kind(ev), tuple):
                at = facts.atoms(ev.ctx, fw)
                if any(x[0] == 'some' and x[2] is False and x[1] == ('var', d.id, d.name) for x in at) and not any(c['k'] == 'for' and c not in d.ctx for c in ev.ctx):
                    none_exit = True
        if not none_exit:
            rep.bad('SEL', where, inst0 + '-missing', 'a missing designation is not rejected (no `%s` is None ⇒ return Err after the search)' % d.name, fn.file, d.line)
            good = False
        # SEL4: the mark
        marks = []
        for a in s.assign_some:
            at = facts.atoms(a.ctx, fw)
            own = [x for x in at if x[0] in ('truth', 'some', 'cond') and x not in facts.atoms(d.ctx, fw)]
            marks.append([atom_s(x) for x in own if not (x[0] == 'some' and x[1] == ('var', d.id, d.name))])
        if good:
            rep.ok('SEL', '%s|%s' % (where, inst0), {'file': fn.file, 'line': d.line, 'variable': d.name, 'marks': marks})
    rep.floor('SEL', 8, '(10 unique-selection sites today)')


# ------------------------------------------------------------------------------------------

def handler_of(cx, trait, shape):
    for t, sh, fn in cx.shape_handlers():
        if t == trait and sh == shape:
            return fn
    return None


def first_emission_seq(cx, fn):
    hg = cx.hg(fn)
    fw = cx.fw(fn)
    seqs = []
    for did, lst in hg.emissions(fw).items():
        for ev, leaves in lst:
            seqs.append(ev.seq)
    return min(seqs) if seqs else None


def check_shape(cx, facts, rep):
    # S1 unions + Debug/PartialEq/Hash: `if !type_attribute.has_unsafe { return Err }` dominates every emission
    for T in ('Debug', 'PartialEq', 'Hash'):
        fn = handler_of(cx, T, 'union')
        if fn is None:
            rep.bad('SHAPE', 'trait_handlers::%s' % T, 'union-handler', 'no union handler for %s' % T, None, None)
            continue
        fw = cx.fw(fn)
        hg = cx.hg(fn)
        where = fn.qname
        ok = True
        n = 0
        for did, lst in hg.emissions(fw).items():
            for ev, leaves in lst:
                n += 1
                at = facts.atoms(ev.ctx, fw)
                if not any(a[0] == 'truth' and a[2] is True and isinstance(a[1], tuple) and a[1][0] == 'field' and a[1][2] == 'has_unsafe' and a in at for a in at):
                    ok = False
                    rep.bad('SHAPE', where, 'unsafe-dominates', 'code is emitted for a union without the `unsafe` marker having been tested (`if !has_unsafe { return Err }` does not dominate this emission)', fn.file, ev.line)
        # has_unsafe provenance: assigned only from UnsafePunctuatedMeta
        if ok and n:
            rep.ok('SHAPE', where + '|unsafe-dominates-%d-emissions' % n)
    check_unsafe_parser(cx, rep)
    # S2 unions + PartialOrd/Ord/Deref/DerefMut/Into ⇒ Err
    for T in ('PartialOrd', 'Ord', 'Deref', 'DerefMut', 'Into'):
        tops = [f for f in cx.handler_fns() if cx.trait_of_module(f.module) == T and len(f.module.path) == 2]
        if not tops:
            rep.bad('SHAPE', 'trait_handlers::%s' % T, 'top-handler', 'top handler not found', None, None)
            continue
        fn = tops[0]
        fw = cx.fw(fn)
        found = False
        for ev in fw.events:
            if ev.kind in ('tail', 'armval', 'exit'):
                v = ev.node if ev.kind != 'exit' else ev.value
                if v is None:
                    continue
                if 'trait_not_support_union' in es(v):
                    arms = [c for c in ev.ctx if c['k'] == 'arm' and pat_s(c['pat']).startswith('Data::Union')]
                    if arms:
                        found = True
        if found:
            rep.ok('SHAPE', fn.qname + '|union-refused')
        else:
            rep.bad('SHAPE', fn.qname, 'union-refused', '%s on a union is not refused with trait_not_support_union in the `Data::Union` arm' % T, fn.file, fn.line)
    # S5 unit variants under Deref/DerefMut/Into ⇒ Err before any emission for that handler
    for T in ('Deref', 'DerefMut', 'Into'):
        fn = handler_of(cx, T, 'enum')
        if fn is None:
            rep.bad('SHAPE', 'trait_handlers::%s' % T, 'enum-handler', 'no enum handler for %s' % T, None, None)
            continue
        fw = cx.fw(fn)
        exits = [ev for ev in fw.events if ev.kind == 'exit' and ev.how == 'return' and 'trait_not_support_unit_variant' in es(ev.value or {})]
        ok = False
        for ev in exits:
            at = facts.atoms(ev.ctx, fw)
            if any(a[0] == 'shape' and a[2] == 'Unit' and a[3] is True for a in at) and any(c['k'] == 'for' for c in ev.ctx):
                ok = True
        first = first_emission_seq(cx, fn)
        if ok:
            rep.ok('SHAPE', fn.qname + '|unit-variant-refused')
        else:
            rep.bad('SHAPE', fn.qname, 'unit-variant', 'a unit variant under %s is not refused (no `Fields::Unit ⇒ return Err(trait_not_support_unit_variant)` in the variants loop)' % T, fn.file, fn.line)
    # S6 Debug with nothing to print
    for shape, ctor in (('struct', 'unit_struct_need_name'), ('enum', 'unit_variant_need_name'), ('enum', 'unit_enum_need_name')):
        fn = handler_of(cx, 'Debug', shape)
        if fn is None:
            continue
        fw = cx.fw(fn)
        exits = [ev for ev in fw.events if ev.kind == 'exit' and ev.how == 'return' and ctor in es(ev.value or {})]
        ok = False
        for ev in exits:
            at = facts.atoms(ev.ctx, fw)
            if any(a[0] == 'some' and a[2] is False for a in at):
                ok = True
        if ok:
            rep.ok('SHAPE', '%s|%s' % (fn.qname, ctor))
        else:
            rep.bad('SHAPE', fn.qname, ctor, 'Debug with nothing to print and no name is not refused (%s under `name is None`)' % ctor, fn.file, fn.line)
    check_need_name_siblings(cx, facts, rep)
    check_has_fields_flag(cx, facts, rep)
    rep.floor('SHAPE', 12)


def check_need_name_siblings(cx, facts, rep):
    """the arms of the Debug enum handler (unit / tuple / struct-like variants) refuse "nothing to show and no name" under the same
    notion of name: the `is none` subject of every such refusal is one and the same value (the effective name handed to the builder),
    not the raw variant-level parameter in one arm and the composed name in another"""
    fn = handler_of(cx, 'Debug', 'enum')
    if fn is None:
        return
    fw = cx.fw(fn)
    tm = cx.gm.terms_of(fw)
    subjects = {}
    for ev in fw.events:
        if ev.kind == 'exit' and ev.how == 'return' and any(c_ in es(ev.value or {}) for c_ in ('unit_struct_need_name', 'unit_variant_need_name')):
            at = facts.atoms(ev.ctx, fw)
            subs = [a[1] for a in at if a[0] == 'some' and a[2] is False]
            for x in subs:
                subjects.setdefault(x, []).append(ev)
    if len(subjects) > 1:
        # the odd one out is the subject used least
        odd = sorted(subjects.items(), key=lambda kv: len(kv[1]))[0]
        from ..terms import term_s
        rep.bad('SHAPE', fn.qname, 'need-name-siblings', 'the "nothing to show and no name" refusals of the variant kinds test different values for the missing name (%s): '
                'one kind of variant is refused (or accepted) where its siblings are not' % ' / '.join(sorted(term_s(k, 40) for k in subjects)), fn.file, odd[1][0].line)
    elif subjects:
        rep.ok('SHAPE', fn.qname + '|need-name refusals agree on the name tested', {'refusals': sum(len(v) for v in subjects.values())})


def check_has_fields_flag(cx, facts, rep):
    """Debug with "nothing to show and no name" is refused through a flag that says whether any field is shown.  The flag must be
    set for exactly the shown fields: in each field loop `flag = true` happens under "this field is not ignored" and under nothing
    else (set for ignored fields too, an all-ignored nameless value is accepted and prints nothing; set only for fields without a
    `method`, a value whose shown fields all have one is refused)"""
    from ..terms import term_s
    for shape in ('struct', 'enum'):
        fn = handler_of(cx, 'Debug', shape)
        if fn is None:
            continue
        fw = cx.fw(fn)
        tm = cx.gm.terms_of(fw)
        flags = {}
        for ev in fw.events:
            if ev.kind == 'exit' and ev.how == 'return' and any(c_ in es(ev.value or {}) for c_ in ('unit_struct_need_name', 'unit_variant_need_name')):
                for a in facts.atoms(ev.ctx, fw):
                    if a[0] == 'truth' and a[2] is False and isinstance(a[1], tuple) and a[1][0] == 'var':
                        d = tm.def_by_id(a[1][1])
                        if d is not None:
                            flags[d.id] = d
        for d in flags.values():
            n = 0
            for asg in d.assigns:
                if es(asg.value) != 'true':
                    rep.bad('SHAPE', fn.qname, 'shown-fields-flag', 'the "some field is shown" flag `%s` is assigned `%s`' % (d.name, es(asg.value)[:40]), fn.file, asg.line)
                    continue
                at = facts.atoms(asg.ctx, fw)
                loops = [i for i, a in enumerate(at) if a[0] == 'loop']
                inner = at[loops[-1] + 1:] if loops else None
                ok = inner is not None and len(inner) == 1 and inner[0][0] == 'truth' and inner[0][2] is False and isinstance(inner[0][1], tuple) \
                    and inner[0][1][0] == 'field' and inner[0][1][2] == 'ignore'
                n += 1
                if ok:
                    rep.ok('SHAPE', '%s|%s set for exactly the shown fields|%d' % (fn.qname, d.name, n))
                else:
                    rep.bad('SHAPE', fn.qname, 'shown-fields-flag', 'the "some field is shown" flag `%s` is set under %s (expected exactly: this field is not ignored): '
                            'the refusal of a value with nothing to show and no name no longer matches what is shown' % (d.name, [term_s(a[1], 50) if len(a) > 1 else a for a in (inner or [])] or 'no condition'),
                            fn.file, asg.line)


def check_unsafe_parser(cx, rep):
    fs = [f for f in cx.crate.fns if f.qname.endswith('unsafe_punctuated_meta::UnsafePunctuatedMeta::parse')]
    if len(fs) != 1:
        rep.broken.append('UnsafePunctuatedMeta::parse not found')
        return
    f = fs[0]
    fw = cx.fw(f)
    lets = [ev for ev in fw.events if ev.kind == 'let']
    first = lets[0] if lets else None
    ok = False
    if first is not None and first.defs and first.init is not None:
        t = es(first.init).replace(' ', '')
        ok = t in ('input.parse::<Token!(unsafe)>().is_ok()', 'input.parse::<Token![unsafe]>().is_ok()') or ('Token' in t and 'unsafe' in t and t.endswith('.is_ok()') and t.startswith('input.parse'))
        name = first.defs[0].name
        # every constructed value uses that flag
        for ev in fw.events:
            if ev.kind == 'struct':
                for fld in ev.node['fields']:
                    if fld['member'] == 'has_unsafe' and es(fld['expr']) != name:
                        ok = False
        # nothing parsed before it
        before = [e for e in fw.events if e.kind == 'mcall' and e.method.startswith('parse') and e.seq < first.seq and es(e.node) not in es(first.init)]
        if before:
            ok = False
    if ok:
        rep.ok('SHAPE', f.qname + '|unsafe-first')
    else:
        rep.bad('SHAPE', f.qname, 'unsafe-first', '`unsafe` is not parsed as the optional *first* token, or has_unsafe is not exactly the result of that test', f.file, f.line)


def check_dup(cx, facts, rep):
    # rank / target uniqueness: every insert(key, ..) into a map named by the handlers must be dominated by `!contains_key(&key)`
    n = 0
    for fn in cx.crate.fns:
        if len(fn.module.path) < 2 or fn.module.path[0] != 'trait_handlers':
            continue
        fw = cx.fw(fn)
        tm = cx.gm.terms_of(fw)
        for ev in fw.events:
            if ev.kind == 'mcall' and ev.method == 'insert' and len(ev.args) == 2:
                r = strip_refs(ev.recv)
                if r['k'] != 'Path':
                    continue
                d = ev.scope.lookup(r['path']['s'])
                if d is None:
                    continue
                kt = tm.term(ev.args[0], ev.scope)
                rt = tm.term(ev.recv, ev.scope)
                # keys that are loop indices cannot repeat
                if isinstance(kt, tuple) and kt[0] == 'idx':
                    continue
                if fn.qname.endswith('derive_input_handler'):
                    continue
                at = facts.atoms(ev.ctx, fw)
                ok = any(a[0] == 'haskey' and a[1] == rt and a[2] == kt and a[3] is False for a in at)
                inst = 'insert=%s[%s]' % (d.name, es(ev.args[0])[:30])
                n += 1
                if ok:
                    rep.ok('DUP', '%s|%s' % (fn.qname, inst), {'file': fn.file, 'line': ev.line, 'map': d.name, 'key': es(ev.args[0])})
                else:
                    rep.bad('DUP', fn.qname, inst, 'a repeated key (rank / Into target) silently replaces the earlier entry: the insertion is not dominated by `if %s.contains_key(&key) { return Err(..) }`' % d.name,
                            fn.file, ev.line)
    # duplicate trait at the type level (lib.rs): get_mut hit ⇒ Err(reuse_a_trait) unless Into
    for fn in cx.crate.fns:
        if fn.name == 'derive_input_handler':
            fw = cx.fw(fn)
            exits = [ev for ev in fw.events if ev.kind == 'exit' and ev.how == 'return' and 'reuse_a_trait' in es(ev.value or {})]
            ok = False
            for ev in exits:
                at = facts.atoms(ev.ctx, fw)
                if any(a[0] == 'some' and a[2] is True and 'get_mut' in str(a[1]) for a in at):
                    # only an `Into` continue may precede it
                    ok = True
            conts = [ev for ev in fw.events if ev.kind == 'exit' and ev.how == 'continue']
            for c in conts:
                at = [a for a in facts.atoms(c.ctx, fw)]
                if not any((a[0] == 'cond' and 't == Trait::Into' in a[1]) or (a[0] == 'eq' and a[2] == ('path', 'Trait::Into') and a[3] is True)
                           or (a[0] == 'cond' and '.is_ident("educe")' in a[1] and a[2] is False) for a in at):   # skipping a non-educe attribute
                    ok = False
            if ok:
                rep.ok('DUP', fn.qname + '|trait-twice')
            else:
                rep.bad('DUP', fn.qname, 'trait-twice', 'a trait listed twice at the type level is not rejected (only Into may repeat)', fn.file, fn.line)
    rep.floor('DUP', 8)
