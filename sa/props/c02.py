"""C02 — PartialEq is exactly field-wise equality over the compared fields.

SUM-EQ decides the *shape* of the generated `eq`, for every input, on the generated-code model:
  * the impl has exactly one fn `eq(&self, other: &Self) -> bool` (so `ne` is the default negation);
  * body = early-false checks followed by `true`;
  * checks are emitted inside the declaration-order loop over the fields; on every path of that loop exactly one check is
    emitted iff the field is not ignored (0 if ignored);
  * each check is `if ¬EQ(l, r) { return false; }` with l = the self-access and r = the other-access of that same field, self
    first; EQ is the user's method iff one is given (for this very field), else ::core::cmp::PartialEq;
  * enums: one arm per variant on every path, `Self::V ..` for self and `if let Self::V .. = other` for the same variant,
    `else { return false }`; positional patterns receive exactly one element per field (no shifting);
  * attributes are read from this trait's own scanner applied to this very field (and `Eq(..)` is accepted as a synonym by
    the scanner — SCAN, C13).
"""
from ..report import Report
from ..syn import es, pat_s
from ..terms import term_s
from ..summ import (Summ, access, call_parts, block_stmts, is_return, is_lit_bool, marker_stmts, marker_of_stmt, marker_of_expr,
                    marker_of_pat, member_of_loop, pattern_model, pattern_once, atom_key_s)
from ..facts import Facts, atom_s
from ..genast import is_marker, marker_name

NE = '::core::cmp::PartialEq::ne'
EQ = '::core::cmp::PartialEq::eq'


def neg_equality(cond):
    """cond == ¬EQ(a, b): returns (callee kind, callee, a, b) or None. Accepts ne(a,b), !eq(a,b), !m(a,b), a != b, !(a == b)"""
    e = cond
    neg = False
    while e['k'] == 'Unary' and e['op'] == '!':
        neg = not neg
        e = e['expr']
    if e['k'] == 'Binary' and e['op'] in ('!=', '=='):
        is_ne = (e['op'] == '!=') != neg
        if is_ne:
            return ('op', '==', e['l_'], e['r_'])
        return None
    cp = call_parts(e)
    if cp is None or len(cp[2]) != 2:
        return None
    kind, callee, args = cp
    if kind == 'path' and callee == NE and not neg:
        return ('builtin', callee, args[0], args[1])
    if kind == 'path' and callee == EQ and neg:
        return ('builtin', callee, args[0], args[1])
    if kind == 'hole' and neg:
        return ('method', callee, args[0], args[1])
    return None


def early_false(stmt):
    """`if C { return false; }` -> C"""
    if stmt['k'] != 'Expr':
        return None
    e = stmt['expr']
    if e['k'] != 'If' or e.get('else') is not None or e['cond']['k'] == 'Let':
        return None
    st = e['then']['stmts']
    if len(st) != 1 or st[0]['k'] != 'Expr':
        return None
    if not is_return(st[0]['expr'], lambda v: is_lit_bool(v, False)):
        return None
    return e['cond']


class EqChecker:
    def __init__(self, cx, fn, rep, facts, trait_path='::core::cmp::PartialEq'):
        self.S = Summ(cx, fn, rep, facts)
        self.cx = cx
        self.fn = fn
        self.rep = rep

    def header(self):
        S = self.S
        impls = S.impl_of('::core::cmp::PartialEq')
        if len(impls) != 1:
            S.bad('SUM-EQ', 'impl', 'expected exactly one `impl ::core::cmp::PartialEq` emission, found %d' % len(impls))
            return None
        site, impl = impls[0]
        if S.atoms(site):
            S.bad('SUM-EQ', 'impl-conditional', 'the PartialEq impl is emitted only under %s' % [atom_s(a) for a in S.atoms(site)], site)
            return None
        fns = S.fns_of(impl)
        if len(fns) != 1 or fns[0]['sig']['name'] != 'eq':
            S.bad('SUM-EQ', 'impl-fns', 'the impl must define exactly `fn eq` (found %s): overriding `ne` can break `a != b == !(a == b)`' % [f['sig']['name'] for f in fns], site)
            return None
        f = fns[0]
        ins = f['sig']['inputs']
        oksig = (len(ins) == 2 and ins[0]['k'] == 'Self' and ins[0]['ref'] and not ins[0]['mut'] and ins[1]['k'] == 'Typed'
                 and ins[1]['pat'].get('name') == 'other' and es_ty(ins[1]['ty']) == '&Self' and es_ty(f['sig']['output']) == 'bool')
        if not oksig:
            S.bad('SUM-EQ', 'signature', 'unexpected signature of fn eq', site)
            return None
        return site, f

    def body_split(self, site, f):
        """body = [marker stmts..., true]"""
        S = self.S
        st = f['block']['stmts']
        if not st or st[-1]['k'] != 'Expr' or st[-1]['semi'] or not is_lit_bool(st[-1]['expr'], True):
            S.bad('SUM-EQ', 'tail', 'the body of eq does not end in `true`', site)
            return None
        ms = marker_stmts(st[:-1])
        if len(ms) != len(st) - 1:
            S.bad('SUM-EQ', 'body', 'the body of eq contains fixed statements besides the per-field checks', site)
            return None
        return [m for _, m in ms]

    def check_field_checks(self, sites, label, resolver, loop_kind):
        """sites: check sites of one field loop. resolver(site, expr, side) -> (ok, field loop id, msg)"""
        S = self.S
        if not sites:
            S.bad('SUM-EQ', label + '-no-checks', 'no per-field equality check is emitted for this shape')
            return False
        good = True
        loop_ids = set()
        entries = []
        for s in sites:
            atoms = S.atoms(s)
            la, lk = S.field_loop(atoms)
            if la is None or lk != loop_kind:
                S.bad('SUM-EQ', label + '-loop', 'an equality check is emitted outside the loop over the %s fields (context: %s)' % (loop_kind, [atom_s(a) for a in atoms]), s)
                good = False
                continue
            if not S.loop_in_decl_order(la):
                S.bad('SUM-EQ', label + '-order', 'fields are not visited in declaration order', s)
                good = False
            L = la[1]
            loop_ids.add(L)
            entries.append((s, atoms, L))
            stmts = s.ast if s.cat == 'stmts' else None
            if stmts is None or len(stmts) != 1:
                S.bad('SUM-EQ', label + '-stmt', 'a per-field emission is not a single early-false check', s)
                good = False
                continue
            cond = early_false(stmts[0])
            ne = neg_equality(cond) if cond is not None else None
            if ne is None:
                S.bad('SUM-EQ', label + '-form', 'the per-field statement is not `if ¬EQ(self_field, other_field) { return false; }`: `%s`' % s.tmpl.text()[:120], s)
                good = False
                continue
            kind, callee, a, b = ne
            # guards: ¬ignore, and method-some iff user method
            ign = [S.attr_atom(x, L, 'ignore') for x in atoms]
            ign = [p for p in ign if p is not None]
            if ign != [False]:
                S.bad('SUM-EQ', label + '-ignore-guard', 'the check is not emitted exactly under "field not ignored" (ignore guards: %s)' % ign, s)
                good = False
            meth = [S.attr_atom(x, L, 'method') for x in atoms]
            meth = [p for p in meth if p is not None]
            if kind == 'method':
                mt = S.hole_term(s, callee)
                if not (isinstance(mt, tuple) and mt[0] == 'some_of' and S.attr_rec_ok(mt[1], L, 'method')) or meth != [True]:
                    S.bad('SUM-EQ', label + '-method', 'the custom comparison `#%s` is not this field\'s own `method` attribute under "method given" (term %s, guards %s)' % (callee, term_s(mt, 80), meth), s)
                    good = False
            else:
                if meth != [False]:
                    S.bad('SUM-EQ', label + '-builtin-guard', 'the built-in comparison is not emitted exactly under "no method given" (guards %s)' % meth, s)
                    good = False
            # extra guards
            extra = [x for x in atoms_after_loop(atoms, L) if S.attr_atom(x, L, 'ignore') is None and S.attr_atom(x, L, 'method') is None]
            if extra:
                S.bad('SUM-EQ', label + '-extra-guard', 'the check is additionally conditioned on %s: for other inputs the field is silently not compared' % [atom_s(x) for x in extra], s)
                good = False
            # operands
            ra = resolver(s, a, 'self', L)
            rb = resolver(s, b, 'other', L)
            for side, r in (('self', ra), ('other', rb)):
                if r is not True:
                    S.bad('SUM-EQ', label + '-operand-' + side, 'the %s operand of the comparison is not the %s value\'s access to this field: %s' % ('first' if side == 'self' else 'second', side, r), s)
                    good = False
        # exactly one check iff not ignored
        for L in loop_ids:
            es_ = [at for s, at, l in entries if l == L]
            counts, keys = S.count_per_path(es_, L)
            if counts is None:
                S.bad('SUM-EQ', label + '-paths', 'too many conditions to enumerate')
                good = False
                continue
            for asg, (n, d) in counts.items():
                ign_true = any(v for k, v in d.items() if S.attr_atom(k + (True,), L, 'ignore') is not None)
                exp = 0 if ign_true else 1
                if n != exp:
                    S.bad('SUM-EQ', label + '-once', 'on the path %s a field gets %d equality checks (expected %d)' % ([('' if v else '!') + atom_key_s(k) for k, v in d.items()], n, exp))
                    good = False
                    break
        return good


def atoms_after_loop(atoms, L):
    out = []
    seen = False
    for a in atoms:
        if a[0] in ('loop', 'via') and a[1] == L:
            seen = True
            continue
        if seen and a[0] not in ('loop', 'via'):
            out.append(a)
    return out


def es_ty(t):
    from ..syn import ty_s
    return ty_s(t).replace(' ', '') if t is not None else ''


def check_struct(cx, fn, rep, facts):
    C = EqChecker(cx, fn, rep, facts)
    S = C.S
    h = C.header()
    if h is None:
        return
    site, f = h
    holes = C.body_split(site, f)
    if holes is None:
        return
    checks = []
    for hname in holes:
        checks += S.kids(site, hname)

    def resolver(s, e, side, L):
        a = access(e)
        if a is None or a[0] != 'member':
            return '`%s` is not `&%s.<field>`' % (es(e)[:60], side)
        _, base, hole, refs, mut = a
        if base != side or refs != 1 or mut:
            return '`%s` accesses `%s` (expected `&%s.<field>`)' % (es(e)[:60], base, side)
        mt = S.hole_term(s, hole)
        if member_of_loop(mt, L) is None:
            return '`#%s` is not the member of the field being visited (%s)' % (hole, term_s(mt, 80))
        return True
    ok = C.check_field_checks(checks, 'struct', resolver, 'struct')
    # all emissions into the body come from the field loop (no other statement source)
    if ok:
        S.ok('SUM-EQ', 'struct', {'handler': fn.qname, 'checks': [s.tmpl.text()[:100] for s in checks]})


def check_enum(cx, fn, rep, facts):
    C = EqChecker(cx, fn, rep, facts)
    S = C.S
    h = C.header()
    if h is None:
        return
    site, f = h
    holes = C.body_split(site, f)
    if holes is None:
        return
    ms = []
    for hname in holes:
        ms += S.kids(site, hname)
    if len(ms) != 1:
        S.bad('SUM-EQ', 'enum-body', 'expected one `match self { <arms> }` emission, found %d' % len(ms), site)
        return
    msite = ms[0]
    st = msite.ast if msite.cat == 'stmts' else []
    e = st[0]['expr'] if len(st) == 1 and st[0]['k'] == 'Expr' else None
    if e is None or e['k'] != 'Match' or es(e['expr']) != 'self' or len(e['arms']) != 1 or marker_of_pat(e['arms'][0]['pat']) is None:
        S.bad('SUM-EQ', 'enum-match', 'the body is not `match self { #arms }`', msite)
        return
    # guard of the match: only "arms not empty"
    g = [a for a in S.atoms(msite) if not (a[0] == 'data' and a[1] == 'Enum' and a[2] is True)]
    if not (len(g) == 1 and __import__('sa.emptiness', fromlist=['nonempty_evidence']).nonempty_evidence(g, S.cx, S.fw)):
        S.bad('SUM-EQ', 'enum-match-guard', 'the `match self` is emitted under %s (expected: only when there is at least one variant)' % [atom_s(a) for a in g], msite)
        return
    arms_hole = marker_of_pat(e['arms'][0]['pat'])
    arm_sites = S.kids(msite, arms_hole)
    # one arm per variant on every path: partition over shape
    by_shape = {}
    allok = True
    for a in arm_sites:
        atoms = S.atoms(a)
        vl = S.variant_loop(atoms)
        if vl is None or not S.loop_in_decl_order(vl):
            S.bad('SUM-EQ', 'enum-arm-loop', 'an arm is emitted outside the in-order loop over the variants', a)
            allok = False
            continue
        V = vl[1]
        shapes = [x for x in atoms if x[0] == 'shape' and x[1] == ('field', ('elem', V), 'fields') and x[3] is True]
        extra = [x for x in atoms_after_loop(atoms, V) if x not in shapes]
        if len(shapes) != 1 or extra:
            S.bad('SUM-EQ', 'enum-arm-guard', 'an arm is emitted under %s (expected exactly the variant\'s shape)' % [atom_s(x) for x in atoms_after_loop(atoms, V)], a)
            allok = False
            continue
        by_shape.setdefault(shapes[0][2], []).append((a, V))
    for sh in ('Unit', 'Named', 'Unnamed'):
        if len(by_shape.get(sh, [])) != 1:
            S.bad('SUM-EQ', 'enum-arm-%s' % sh, 'expected exactly one arm template for %s variants, found %d: some variant would get no arm or two' % (sh, len(by_shape.get(sh, []))), msite)
            allok = False
    if not allok:
        return
    for sh, lst in by_shape.items():
        a, V = lst[0]
        ok = check_arm(C, a, V, sh)
        allok = allok and ok
    if allok:
        S.ok('SUM-EQ', 'enum', {'handler': fn.qname, 'arms': {sh: lst[0][0].tmpl.text()[:90] for sh, lst in by_shape.items()}})


def check_arm(C, a, V, sh):
    S = C.S
    arms = a.ast if a.cat == 'arms' else None
    if not arms or len(arms) != 1:
        S.bad('SUM-EQ', 'arm-%s' % sh, 'arm template is not a single match arm', a)
        return False
    arm = arms[0]
    if arm.get('guard') is not None:
        S.bad('SUM-EQ', 'arm-%s-guard' % sh, 'match arm has a guard', a)
        return False
    pself = pattern_model(S, a, arm['pat'], 'self')
    if pself is None or pself.variant_term != ('field', ('elem', V), 'ident'):
        S.bad('SUM-EQ', 'arm-%s-pattern' % sh, 'the arm pattern is not `Self::<this variant> ..`', a)
        return False
    body = block_stmts(arm['body'])
    if len(body) != 1 or body[0]['k'] != 'Expr' or body[0]['expr']['k'] != 'If' or body[0]['expr']['cond']['k'] != 'Let':
        S.bad('SUM-EQ', 'arm-%s-body' % sh, 'the arm body is not `if let Self::V .. = other { .. } else { return false; }`', a)
        return False
    iff = body[0]['expr']
    if es(iff['cond']['expr']) != 'other':
        S.bad('SUM-EQ', 'arm-%s-scrutinee' % sh, 'the inner pattern is matched against `%s`, not `other`' % es(iff['cond']['expr']), a)
        return False
    pother = pattern_model(S, a, iff['cond']['pat'], 'other')
    if pother is None or pother.variant_term != pself.variant_term:
        S.bad('SUM-EQ', 'arm-%s-other-pattern' % sh, 'the `other` pattern does not name the same variant as the `self` pattern', a)
        return False
    el = iff.get('else')
    els = block_stmts(el) if el is not None else []
    if not (len(els) == 1 and els[0]['k'] == 'Expr' and is_return(els[0]['expr'], lambda v: is_lit_bool(v, False))):
        S.bad('SUM-EQ', 'arm-%s-else' % sh, 'values of different variants are not reported unequal (`else { return false; }` missing)', a)
        return False
    expkind = {'Unit': 'unit', 'Named': 'named', 'Unnamed': 'tuple'}[sh]
    if pself.kind != expkind or pother.kind != expkind:
        S.bad('SUM-EQ', 'arm-%s-pattern-kind' % sh, 'pattern kinds %s/%s do not fit a %s variant' % (pself.kind, pother.kind, sh), a)
        return False
    for pm in (pself, pother):
        for p in pm.problems:
            S.bad('SUM-EQ', 'arm-%s-pattern-model' % sh, p, a)
            return False
    then = iff['then']['stmts']
    if sh == 'Unit':
        if then:
            S.bad('SUM-EQ', 'arm-Unit-then', 'a unit variant arm contains statements', a)
            return False
        return True
    ms = marker_stmts(then)
    if len(ms) != len(then) or len(ms) != 1:
        S.bad('SUM-EQ', 'arm-%s-then' % sh, 'the same-variant branch is not exactly the per-field checks', a)
        return False
    ok = pattern_once(S, pself, 'SUM-EQ', 'arm-%s-self' % sh) and pattern_once(S, pother, 'SUM-EQ', 'arm-%s-other' % sh)
    checks = S.kids(a, ms[0][1])

    def resolver(s, e, side, L):
        acc = access(e)
        if acc is None or acc[0] != 'var' or acc[2] != 0:
            return '`%s` is not a pattern-bound variable' % es(e)[:60]
        bt = S.hole_term(s, acc[1])
        pm = pself if side == 'self' else pother
        ent = pm.binder(bt)
        if ent is None:
            other = (pother if side == 'self' else pself).binder(bt)
            if other is not None:
                return '`#%s` is bound by the pattern matched against `%s`, not `%s`' % (acc[1], 'other' if side == 'self' else 'self', side)
            return '`#%s` is not bound by the `%s` pattern' % (acc[1], side)
        if ent.loop_id != L:
            return '`#%s` is the binder of another field loop' % acc[1]
        if pm.kind == 'named' and member_of_loop(ent.name_term, L) is None:
            return 'binder `#%s` is attached to a field name that is not the visited field' % acc[1]
        return True
    ok = C.check_field_checks(checks, 'arm-%s' % sh, resolver, 'variant') and ok
    return ok


def run(cx, tier='quick'):
    rep = Report('C02')
    rep.explanation.append(
        'SUM-EQ: semantic summary of the generated `eq` on the generated-code model of the PartialEq struct and enum handlers: '
        'single fn eq; body = early-false checks + true; exactly one check per non-ignored field on every path of the '
        'declaration-order field loop; operands are the self/other accesses of that same field, self first; method iff given; '
        'one arm per variant with same-variant patterns and `else return false`; exactly one pattern element per field. '
        'Reflexivity/symmetry/transitivity follow for lawful field comparisons because the body is a conjunction of per-field tests '
        'under a same-variant test (lemma, DESIGN §6).')
    facts = Facts(cx)
    n = 0
    for t, sh, fn in cx.shape_handlers():
        if t == 'PartialEq' and sh == 'struct':
            check_struct(cx, fn, rep, facts)
            n += 1
        elif t == 'PartialEq' and sh == 'enum':
            check_enum(cx, fn, rep, facts)
            n += 1
    if n != 2:
        rep.broken.append('expected the PartialEq struct and enum handlers, found %d' % n)
    # synonym clause + own-scanner clause
    from .c13 import check_scanners
    sub = Report('C02')
    check_scanners(cx, facts, sub)
    for fnd in sub.findings:
        if 'partial_eq' in fnd.where:
            rep.findings.append(fnd)
    k = 0
    for r, i, v in sub.checked:
        if 'partial_eq' in i:
            rep.checked.append((r, i, v))
            k += 1
    rep.counts['SCAN'] = k
    from .helpers import check_ident_or_index
    check_ident_or_index(cx, rep)
    from .scope import check_scopes
    check_scopes(cx, rep, ['::partial_eq::'])
    rep.floor('SUM-EQ', 2)
    rep.floor('SCAN', 8)
    rep.assumptions += ['semantics of `if c { return false }` chains, `match`/`if let`, ::core::cmp::PartialEq::ne == !eq for lawful impls',
                        'union PartialEq (byte-wise, `unsafe`-gated) is specified by C20; its summary is evaluated here as well']
    # the union generator of this trait (byte-wise, SUM-UNION of C20) is part of this trait's derive too
    from . import c20 as _c20
    from ..facts import Facts as _Fu
    _c20.check_partial_eq(cx, rep, _Fu(cx))
    rep.not_decided += ['behaviour of user-supplied comparison methods']
    from .binders import check_binder_injectivity
    check_binder_injectivity(cx, rep, ['::partial_eq::'])
    from .c13 import include_own_parsers as _iop
    from ..facts import Facts as _Fp
    _iop(cx, _Fp(cx), rep, ['::partial_eq::', '::eq::'])
    # the impl headers of this trait's own templates (generics, where-clause, ::core trait path): HDR
    from .c12 import check_headers as _chk_hdr
    _chk_hdr(cx, rep, ['::partial_eq::', '::eq::'])
    from .own import include_generic_rules as _igr
    _igr(cx, rep, ['::partial_eq::', '::eq::'])
    return rep
