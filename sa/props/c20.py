"""C20 — union impls are byte-wise and only generated behind an explicit `unsafe`.

SUM-UNION (generated-code model of the Debug / PartialEq / Hash union handlers):
  * the byte view is `::core::slice::from_raw_parts(<value> as *const Self as *const u8, SIZE)` inside `unsafe`, with
    SIZE = `::core::mem::size_of::<Self>()` — exactly the bytes of the value, for `self` (and `other` with the same SIZE);
  * Debug: `f.debug_tuple(NAME).field(&bytes).finish()` when a name is shown, else `::core::fmt::Debug::fmt(bytes, f)` (bare list);
  * PartialEq: `::core::cmp::PartialEq::eq(self_bytes, other_bytes)`; Hash: `::core::hash::Hash::hash(bytes, state)` (one feed);
  * `if !has_unsafe { return Err }` dominates every emission and `has_unsafe` comes only from the `unsafe`-first parser (SHAPE);
  * union field builders accept nothing (FLAGS); Clone union = `*self` with Copy bounds (C07/C11); Default union (C08).
"""
from ..report import Report
from ..syn import es, pat_s, ty_s
from ..terms import term_s
from ..summ import Summ, access, call_parts, marker_stmts, marker_of_expr
from ..facts import Facts, atom_s
from ..genast import visit, is_marker, marker_name

FROM_RAW = '::core::slice::from_raw_parts'
SIZE_OF = '::core::mem::size_of'


def size_let(st):
    """`let size = ::core::mem::size_of::<Self>();` -> binder name"""
    if st['k'] != 'Local' or st['pat']['k'] != 'Ident' or st.get('init') is None:
        return None
    e = st['init']
    if e['k'] == 'Call' and not e['args'] and e['func']['k'] == 'Path' and e['func']['path']['s'] == SIZE_OF:
        seg = e['func']['path']['segs'][-1]
        args = seg.get('args', [])
        if len(args) == 1 and args[0]['k'] == 'Type' and ty_s(args[0]['ty']) == 'Self':
            return st['pat']['name']
    return None


def bytes_let(st, who, size_name):
    """`let NAME = unsafe { ::core::slice::from_raw_parts(WHO as *const Self as *const u8, SIZE) };` -> binder name"""
    if st['k'] != 'Local' or st['pat']['k'] != 'Ident' or st.get('init') is None:
        return None
    e = st['init']
    if e['k'] != 'Unsafe' or len(e['block']['stmts']) != 1 or e['block']['stmts'][0]['k'] != 'Expr':
        return None
    c = e['block']['stmts'][0]['expr']
    if not (c['k'] == 'Call' and c['func']['k'] == 'Path' and c['func']['path']['s'] == FROM_RAW and len(c['args']) == 2):
        return None
    p, n = c['args']
    if es(n) != size_name:
        return None
    # WHO as *const Self as *const u8
    if p['k'] != 'Cast' or ty_s(p['ty']).replace(' ', '') != '*constu8':
        return None
    q = p['expr']
    if q['k'] != 'Cast' or ty_s(q['ty']).replace(' ', '') != '*constSelf' or es(q['expr']) != who:
        return None
    return st['pat']['name']


def count_unsafe(ast, cat):
    n = 0

    def cb(role, node, extra):
        nonlocal n
        if role == 'unsafe':
            n += 1
    visit(ast, cat, cb)
    return n


def union_handler(cx, T):
    for t, sh, fn in cx.shape_handlers():
        if t == T and sh == 'union':
            return fn
    return None


def header(S, trait, fname):
    impls = [(s, it) for s, it in S.impl_of(trait) if not [a for a in S.atoms(s) if a[0] != 'truth']]
    if len(impls) != 1:
        S.bad('SUM-UNION', 'impl', 'expected one `impl %s`, found %d' % (trait, len(impls)))
        return None
    site, impl = impls[0]
    fns = S.fns_of(impl)
    if len(fns) != 1 or fns[0]['sig']['name'] != fname or len(impl['items']) != 1:
        S.bad('SUM-UNION', 'impl-fns', 'the impl must define exactly `fn %s`' % fname, site)
        return None
    return site, impl, fns[0]


def check_partial_eq(cx, rep, facts):
    fn = union_handler(cx, 'PartialEq')
    if fn is None:
        rep.broken.append('PartialEq union handler not found')
        return
    S = Summ(cx, fn, rep, facts)
    h = header(S, '::core::cmp::PartialEq', 'eq')
    if h is None:
        return
    site, impl, f = h
    st = f['block']['stmts']
    ok = False
    if len(st) == 4:
        sz = size_let(st[0])
        a = bytes_let(st[1], 'self', sz) if sz else None
        b = bytes_let(st[2], 'other', sz) if sz else None
        last = st[3]
        if a and b and last['k'] == 'Expr' and not last['semi']:
            cp = call_parts(last['expr'])
            if cp and cp[0] == 'path' and cp[1] == '::core::cmp::PartialEq::eq' and [es(x) for x in cp[2]] == [a, b]:
                ok = True
    if ok and count_unsafe(site.ast, site.cat) == 2:
        S.ok('SUM-UNION', 'PartialEq', {'handler': fn.qname, 'body': 'eq(bytes(self), bytes(other)) over size_of::<Self>()'})
    else:
        S.bad('SUM-UNION', 'PartialEq-body', 'union equality is not "compare exactly the size_of::<Self>() bytes of self and other"', site)


def check_hash(cx, rep, facts):
    fn = union_handler(cx, 'Hash')
    if fn is None:
        rep.broken.append('Hash union handler not found')
        return
    S = Summ(cx, fn, rep, facts)
    h = header(S, '::core::hash::Hash', 'hash')
    if h is None:
        return
    site, impl, f = h
    st = f['block']['stmts']
    ok = False
    if len(st) == 3:
        sz = size_let(st[0])
        a = bytes_let(st[1], 'self', sz) if sz else None
        last = st[2]
        if a and last['k'] == 'Expr':
            cp = call_parts(last['expr'])
            if cp and cp[0] == 'path' and cp[1] == '::core::hash::Hash::hash' and [es(x) for x in cp[2]] == [a, 'state']:
                ok = True
    if ok and count_unsafe(site.ast, site.cat) == 1:
        S.ok('SUM-UNION', 'Hash', {'handler': fn.qname, 'body': 'hash(bytes(self), state) over size_of::<Self>()'})
    else:
        S.bad('SUM-UNION', 'Hash-body', 'union hashing is not "feed exactly the size_of::<Self>() bytes of self once"', site)


def check_debug(cx, rep, facts):
    fn = union_handler(cx, 'Debug')
    if fn is None:
        rep.broken.append('Debug union handler not found')
        return
    S = Summ(cx, fn, rep, facts)
    h = header(S, '::core::fmt::Debug', 'fmt')
    if h is None:
        return
    site, impl, f = h
    st = f['block']['stmts']
    ms = marker_stmts(st)
    if len(ms) != 1 or len(st) != 1:
        S.bad('SUM-UNION', 'Debug-body', 'the body of fmt is not the composed byte listing', site)
        return
    fparam = [a for a in f['sig']['inputs'] if a['k'] == 'Typed']
    fname = fparam[0]['pat'].get('name') if fparam else None
    seen = set()
    ok = True
    for b in S.kids(site, ms[0][1]):
        atoms = [a for a in S.atoms(b) if a[0] not in ('data',) and not (a[0] == 'truth' and 'has_unsafe' in str(a[1]))]
        names = [a for a in atoms if a[0] == 'some']
        if len(names) != 1 or len(atoms) != 1:
            S.bad('SUM-UNION', 'Debug-guard', 'a body is emitted under %s (expected: name shown / not shown)' % [atom_s(a)[:60] for a in atoms], b)
            ok = False
            continue
        named = names[0][2]
        seen.add(named)
        bs = b.ast
        if named:
            good = False
            if len(bs) == 5 and bs[0]['k'] == 'Local' and bs[0]['pat']['k'] == 'Ident':
                bld = bs[0]['pat']['name']
                init = bs[0]['init']
                sz = size_let(bs[1])
                d = bytes_let(bs[2], 'self', sz) if sz else None
                if init['k'] == 'MethodCall' and init['method'] == 'debug_tuple' and es(init['recv']) == fname and len(init['args']) == 1 and d:
                    a0 = init['args'][0]
                    nm_ok = a0['k'] == 'Macro' and a0['mac']['name'] == '::core::stringify' and [t.get('s') for t in a0['mac']['tokens']] in ([MARKN(b, 'name')],)
                    fld = bs[3]
                    fin = bs[4]
                    fld_ok = fld['k'] == 'Expr' and fld['expr']['k'] == 'MethodCall' and fld['expr']['method'] == 'field' and es(fld['expr']['recv']) == bld \
                        and [es(x) for x in fld['expr']['args']] == ['&' + d]
                    fin_ok = fin['k'] == 'Expr' and not fin['semi'] and fin['expr']['k'] == 'MethodCall' and fin['expr']['method'] == 'finish' and es(fin['expr']['recv']) == bld
                    # the printed name is the effective name
                    nt = S.hole_term(b, 'name') if 'name' in b.tmpl.holes else None
                    name_term_ok = isinstance(nt, tuple) and nt[0] == 'some_of' and nt[1] == names[0][1]
                    good = nm_ok and fld_ok and fin_ok and name_term_ok
            if not good:
                S.bad('SUM-UNION', 'Debug-named', 'with a name the union is not rendered as `debug_tuple(NAME).field(&<all size_of::<Self>() bytes>).finish()`', b)
                ok = False
        else:
            good = False
            if len(bs) == 3:
                sz = size_let(bs[0])
                d = bytes_let(bs[1], 'self', sz) if sz else None
                last = bs[2]
                if d and last['k'] == 'Expr' and not last['semi']:
                    cp = call_parts(last['expr'])
                    if cp and cp[0] == 'path' and cp[1] == '::core::fmt::Debug::fmt' and [es(x) for x in cp[2]] == [d, fname]:
                        good = True
            if not good:
                S.bad('SUM-UNION', 'Debug-bare', 'without a name the union is not rendered as the bare byte list `Debug::fmt(<all size_of::<Self>() bytes>, f)`', b)
                ok = False
        if count_unsafe(b.ast, b.cat) != 1:
            S.bad('SUM-UNION', 'Debug-unsafe-count', 'unexpected number of unsafe blocks', b)
            ok = False
    if seen != {True, False}:
        S.bad('SUM-UNION', 'Debug-cases', 'named and nameless renderings are not both present', site)
        ok = False
    if ok:
        S.ok('SUM-UNION', 'Debug', {'handler': fn.qname})


def MARKN(site, name):
    from ..tmpl import MARK
    return MARK + name


def run(cx, tier='quick'):
    rep = Report('C20')
    rep.explanation.append(
        'SUM-UNION: the three byte-wise union handlers build the byte view exactly as from_raw_parts(<value> as *const Self as *const u8, '
        'size_of::<Self>()) and render / compare / hash that whole slice once; SHAPE: `if !has_unsafe { return Err }` dominates every '
        'emission and the marker is parsed only in first position; FLAGS: union field/type builders accept nothing else; Clone union '
        '(`*self`, C07), Default union (C08) and their bounds (C11) are re-evaluated here.')
    facts = Facts(cx)
    check_debug(cx, rep, facts)
    check_partial_eq(cx, rep, facts)
    check_hash(cx, rep, facts)
    # SHAPE (unsafe dominance, unsafe-first parser) and FLAGS for union handlers
    from .c13_sel import check_shape
    from . import c13_param
    sub = Report('C20')
    check_shape(cx, facts, sub)
    c13_param.check(cx, facts, sub)
    for fnd in sub.findings:
        if 'union' in fnd.where or 'unsafe' in fnd.instance or 'unsafe' in fnd.where or '[union]' in fnd.instance:
            rep.findings.append(fnd)
    k = 0
    for r, i, v in sub.checked:
        if 'union' in i.lower() or 'unsafe' in i:
            rep.checked.append((r, i, v))
            k += 1
    rep.counts['SHAPE+FLAGS'] = k
    # Clone / Default union summaries
    from . import c07, c08
    for t, sh, fn in cx.shape_handlers():
        if sh == 'union' and t == 'Clone':
            c07.check_union(cx, fn, rep, facts)
        if sh == 'union' and t == 'Default':
            c08.check_union(cx, fn, rep, facts)
    # Default on a union: the literal of the designated field is adjusted to that field's own type (shared with C08)
    sub8 = Report('C20')
    c08.check_builder_type_arg(cx, sub8)
    for fnd in sub8.findings:
        if 'union' in fnd.where:
            rep.findings.append(fnd)
    for r, i, v in sub8.checked:
        if 'union' in i:
            rep.checked.append((r, i, v))
    from .c13 import include_own_scanners
    include_own_scanners(cx, facts, rep, ['::debug::', '::partial_eq::', '::hash::', '::clone::', '::default::'])
    from .scope import check_scopes
    check_scopes(cx, rep, ['_union'])
    rep.floor('SUM-UNION', 3)
    rep.floor('SHAPE+FLAGS', 10)
    rep.assumptions += ['from_raw_parts(p as *const u8, size_of::<Self>()) views exactly the bytes of the value', 'padding / uninitialised bytes are the documented reason for `unsafe`']
    rep.not_decided += ['contents of padding bytes']
    from .c13 import include_own_parsers as _iop
    from ..facts import Facts as _Fp
    _iop(cx, _Fp(cx), rep, ['::debug::', '::partial_eq::', '::hash::', '::clone::', '::default::'])
    # the impl headers of this trait's own templates (generics, where-clause, ::core trait path): HDR
    from .c12 import check_headers as _chk_hdr
    _chk_hdr(cx, rep, ['::debug::', '::partial_eq::', '::hash::', '::clone::', '::default::'])
    from .own import include_generic_rules as _igr
    _igr(cx, rep, ['::debug::', '::partial_eq::', '::hash::', '::clone::', '::default::'])
    return rep
