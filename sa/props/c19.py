"""C19 — generated code is insulated from the names at the derive site.

Rules (over the generated-code model of every handler):
  TPL-ABS   every path / macro name in a template is absolute (::core::..), a template-local binder,
            Self/self, a primitive, a generic declared by the template, or a hole.
  TPL-ROOT  absolute roots are ::core only (no_std).
  TPL-RECV  method-call syntax only on template-local, non-user receivers.
  GEN-CLASH a fn-level generic parameter with a template-fixed name inside an impl that carries
            the user's generics can collide with a user generic parameter.
  GEN-INJ   derived binder names (format_ident! prefixes) are injective and cannot collide with
            template-fixed binders.
"""
from ..report import Report
from ..genast import visit, is_marker, marker_name
from ..gen import Site
from ..syn import es, toks_s
from ..terms import term_s, subterms

PRIMS = {'u8', 'u16', 'u32', 'u64', 'u128', 'usize', 'i8', 'i16', 'i32', 'i64', 'i128', 'isize', 'bool', 'char',
         'str', 'f32', 'f64'}
ALLOWED_ROOTS = {'core'}
NOT_RECEIVERS = {'self', 'other', 'source'}


def site_key(site):
    return site.tmpl.fn.qname


def collect(cx, fn):
    sites, bad = cx.all_sites(fn)
    return sites, bad


def analyse_tree(cx, fn, rep):
    sites, bad = collect(cx, fn)
    where = fn.qname
    binders = set()
    generics_declared = set()
    itemnames = set()
    uses = []      # (site, path json, kind)
    macros = []
    mcalls = []
    fn_generics = []   # (site, param, impl_has_user_generics)
    patidents = []
    binder_holes = []

    for s in sites:
        if s.ast is None:
            continue
        state = {'impl_user_generics': False}

        def cb(role, node, extra, s=s, state=state):
            if role == 'path':
                uses.append((s, node, extra))
            elif role == 'patident':
                name = node['name']
                if is_marker(name):
                    binder_holes.append((s, marker_name(name)))
                    return
                if name[:1].isupper():
                    patidents.append((s, node))
                else:
                    binders.add(name)
            elif role == 'generic':
                n = node['name']
                if extra == 'impl':
                    if is_marker(n):
                        state['impl_user_generics'] = True
                    else:
                        generics_declared.add(n)
                elif extra == 'fn':
                    fn_generics.append((s, node, state['impl_user_generics']))
                    if not is_marker(n):
                        generics_declared.add(n)
                else:
                    if not is_marker(n):
                        generics_declared.add(n)
            elif role == 'itemname':
                nm = node.get('name') or node.get('sig', {}).get('name')
                if nm:
                    itemnames.add(nm)
            elif role == 'macro':
                macros.append((s, node, extra))
            elif role == 'mcall':
                mcalls.append((s, node))
            elif role == 'impl':
                state['impl_user_generics'] = False
        visit(s.ast, s.cat, cb)

    allowed = binders | generics_declared | itemnames | PRIMS | {'Self', 'self'}
    n = 0
    for s, p, kind in uses:
        segs = p['segs']
        first = segs[0]['id']
        n += 1
        inst = 'path=%s' % p['s']
        if p['global']:
            if first not in ALLOWED_ROOTS and not is_marker(first):
                rep.bad('TPL-ROOT', where, inst, 'absolute path rooted at `::%s` (only `::core` exists in #![no_std] crates)' % first,
                        s.tmpl.file, p.get('l') and s.tmpl.line, {'template': s.tmpl.text()[:300], 'kind': kind})
            else:
                rep.ok('TPL-ABS', '%s|%s' % (where, inst))
            continue
        if is_marker(first):
            rep.ok('TPL-ABS', '%s|hole:%s' % (where, p['s']))
            continue
        if first == 'Self' and len(segs) == 2 and not is_marker(segs[1]['id']) and kind in ('expr', 'pat', 'call', None) and segs[1]['id'] not in itemnames:
            # `Self::name` in value position resolves to whatever the type itself calls `name` first: an enum variant, an inherent
            # function or constant of the user's type — before the trait item the template means
            rep.bad('TPL-ABS', where, inst, '`%s` in value position is resolved against the user\'s own type first (a variant, inherent fn or const named `%s` wins over the trait item): write `<Self as ::core::..>::%s`' % (
                p['s'], segs[1]['id'], segs[1]['id']), s.tmpl.file, s.tmpl.line, {'template': s.tmpl.text()[:300], 'kind': kind})
            continue
        if first == 'Self' and len(segs) == 2 and not is_marker(segs[1]['id']) and kind == 'type' and cx.shape_of_handler(fn) != 'struct' \
                and cx.shape_of_handler(fn) != 'union':
            # `Self::Name` in type position inside an impl for an enum: a variant called `Name` makes the path ambiguous
            # (deny-by-default lint ambiguous_associated_items)
            rep.bad('TPL-ABS', where, inst, '`%s` in type position of an impl for an enum is ambiguous when the enum has a variant called `%s` (ambiguous_associated_items, denied by default): write `<Self as ::core::..>::%s`' % (
                p['s'], segs[1]['id'], segs[1]['id']), s.tmpl.file, s.tmpl.line, {'template': s.tmpl.text()[:300], 'kind': kind})
            continue
        if first in allowed:
            rep.ok('TPL-ABS', '%s|%s' % (where, inst), {'file': s.tmpl.file, 'line': s.tmpl.line, 'path': p['s'], 'why': 'template-local binder / Self / primitive'})
            continue
        if p['s'] == '__W' or first in ('__w', '__W'):
            continue
        rep.bad('TPL-ABS', where, inst,
                'unqualified `%s` in generated code resolves at the derive site (shadowable; not available as written in every environment); write `::core::…`' % p['s'],
                s.tmpl.file, s.tmpl.line, {'template': s.tmpl.text()[:300], 'kind': kind})
    # GEN-INJ (binder vs template-fixed local): a binder supplied through a hole is named after the user's field.  Unprefixed, a
    # field called like one of the template's own locals (`f`, `builder`, `state`, `other`, ..) shadows it; with a prefix the same
    # holds for the field called <local minus prefix>.
    from .binders import flatten, base_kind
    fixed = sorted(b for b in binders if b != '_')
    seen_b = set()
    for s, h in binder_holes:
        if cx.gm.hole_class(s.tmpl, h) == 'acc':
            continue
        t = s.tmpl.hole_term(h)
        fl = flatten(t) if isinstance(t, tuple) and t and t[0] == 'format_ident' else ('', t)
        key = (term_s(t)[:80])
        if key in seen_b:
            continue
        seen_b.add(key)
        inst = 'binder=#%s' % h
        if fl is None:
            continue        # non-injective format: reported by the format rule
        pfx, base = fl
        from .c01 import ident_like
        if not (isinstance(t, tuple) and t and t[0] == 'format_ident') and not ident_like(t):
            rep.bad('GEN-INJ', where, inst,
                    'the pattern binder `#%s` is neither the field\'s own identifier nor built from it with format_ident! (%s): a raw identifier (`r#type`) keeps its `r#` under '
                    'format!/to_string and `Ident::new("_s_r#type", ..)` panics, and the name cannot be shown to differ from the template\'s own locals' % (h, term_s(t)[:80]),
                    s.tmpl.file, s.tmpl.line, {'template': s.tmpl.text()[:300]})
            continue
        kind_ = base_kind(base)
        clash = None
        for b in fixed:
            if not b.startswith(pfx) or b == pfx:
                continue
            rest = b[len(pfx):]
            if kind_ == 'index':
                if rest.isdigit():
                    clash = (b, rest)
            elif (rest[0].isalpha() or rest[0] == '_') and all(ch.isalnum() or ch == '_' for ch in rest) and rest != '_':
                clash = (b, rest)
        if clash:
            rep.bad('GEN-INJ', where, inst,
                    'the pattern binder `#%s` is the user\'s field name%s: for a field called `%s` it is `%s`, which shadows the local of that name the generated function itself uses'
                    % (h, (' prefixed with "%s"' % pfx) if pfx else ' as written', clash[1], clash[0]), s.tmpl.file, s.tmpl.line, {'template': s.tmpl.text()[:300]})
        else:
            rep.ok('GEN-INJ', '%s|%s "%s{}" vs %s' % (where, inst, pfx, ','.join(fixed) or '-'))
    for s, node in patidents:
        nm = node['name']
        if nm in allowed:
            continue
        rep.bad('TPL-ABS', where, 'path=%s' % nm,
                'unqualified `%s` in pattern position of generated code resolves at the derive site; write `::core::…`' % nm,
                s.tmpl.file, s.tmpl.line, {'template': s.tmpl.text()[:300], 'kind': 'pat-ident'})
    for s, mac, kind in macros:
        name = mac['name']
        if is_marker(name):
            continue
        inst = 'macro=%s' % name
        if name.startswith('::core::'):
            rep.ok('TPL-ABS', '%s|%s' % (where, inst))
        else:
            rep.bad('TPL-ABS', where, inst,
                    'macro `%s!` in generated code is resolved by name at the derive site (a user macro_rules!/import of that name captures it); write `::core::%s!`' % (name, name.split('::')[-1]),
                    s.tmpl.file, s.tmpl.line, {'template': s.tmpl.text()[:300]})
    for s, e in mcalls:
        r = e['recv']
        root = r
        while root['k'] in ('MethodCall', 'Field', 'Ref', 'Unary', 'Try', 'Index'):
            root = root.get('recv') or root.get('base') or root.get('expr')
        inst = 'method=.%s' % e['method']
        ok = False
        if root['k'] == 'Path' and len(root['path']['segs']) == 1 and not root['path']['global']:
            nm = root['path']['s']
            ok = (nm in binders) and nm not in NOT_RECEIVERS and not is_marker(nm)
        if ok:
            rep.ok('TPL-RECV', '%s|%s on %s' % (where, inst, es(r)))
        else:
            rep.bad('TPL-RECV', where, '%s on %s' % (inst, es(r)),
                    'method-call syntax on `%s` in generated code: resolution depends on the traits and inherent methods in scope at the derive site; use a fully qualified `::core::…::%s(..)` call' % (es(r), e['method']),
                    s.tmpl.file, s.tmpl.line, {'template': s.tmpl.text()[:300]})
    for s, p, impl_user in fn_generics:
        nm = p['name']
        inst = 'generic=%s' % nm
        if is_marker(nm):
            # supplied through a hole: must come from a fresh-name provider (checked in GEN-FRESH)
            t = s.tmpl.hole_term(marker_name(nm))
            if fresh_provider_ok(cx, s, marker_name(nm), t, rep, where):
                rep.ok('GEN-CLASH', '%s|%s' % (where, inst))
            continue
        if impl_user:
            rep.bad('GEN-CLASH', where, inst,
                    'the generated fn declares a generic parameter with the fixed name `%s` inside an impl that carries the type\'s own generics; a type with a parameter of that name (e.g. `struct S<%s>(%s)`) fails with E0403' % (nm, nm, nm),
                    s.tmpl.file, s.tmpl.line, {'template': s.tmpl.text()[:300]})
        else:
            rep.ok('GEN-CLASH', '%s|%s' % (where, inst))
    return len(sites), bad


def fresh_provider_ok(cx, site, hole, term, rep, where):
    """the hole's value must be computed by a crate-local function that loops until the candidate differs
    from every parameter of the type's generics."""
    calls = [t for t in subterms(term) if isinstance(t, tuple) and t and t[0] == 'call' and str(t[1]).startswith('crate::')]
    if not calls:
        rep.bad('GEN-CLASH', where, 'generic-hole=%s' % hole,
                'generic parameter name supplied through `#%s` is not produced by a fresh-name provider (%s)' % (hole, term_s(term)),
                site.tmpl.file, site.tmpl.line)
        return False
    q = calls[0][1][len('crate::'):]
    fns = [f for f in cx.crate.fns if f.qname == q]
    if not fns:
        rep.bad('GEN-CLASH', where, 'generic-hole=%s' % hole, 'fresh-name provider `%s` not found' % q, site.tmpl.file, site.tmpl.line)
        return False
    ok = True
    for f in fns:
        if not check_fresh_provider(cx, f):
            rep.bad('GEN-CLASH', f.qname, 'fresh-name-provider',
                    'function `%s` supplies a generic parameter name for generated code but does not compare its candidate with every parameter of the type\'s generics before returning it' % f.qname,
                    f.file, f.line)
            ok = False
    return ok


def _param_eq_arms(t, elem):
    """t: value term of `match <elem> { GenericParam::Type(x) => x.ident == C, GenericParam::Const(c) => c.ident == C, _ => false }`
    -> (set of kinds compared, C) or None"""
    from ..terms import match_arms
    ma = match_arms(t)
    if ma is None or ma[0] != elem:
        return None
    kinds, cand = set(), None
    for ps, v in ma[1]:
        kind = None
        for kname in ('Type', 'Const', 'Lifetime'):
            if ps.startswith('GenericParam::' + kname) or ps.startswith('syn::GenericParam::' + kname):
                kind = kname
        if isinstance(v, tuple) and v[0] == 'bin' and v[1] == '==':
            a, b = v[2], v[3]
            idt = lambda x: isinstance(x, tuple) and x[0] == 'field' and x[2] == 'ident' and isinstance(x[1], tuple) and x[1][0] == 'payload' and x[1][3] == elem
            if idt(a) and not idt(b):
                c = b
            elif idt(b) and not idt(a):
                c = a
            else:
                return None
            if kind is None:
                return None
            cand = cand if cand is not None else c
            if c != cand:
                return None
            kinds.add(kind)
        elif v == ('lit', 'Bool', False):
            if kind in ('Type', 'Const') or ps == '_' and not {'Type', 'Const'} <= kinds:
                return None
        else:
            return None
    return kinds, cand


def exists_param_named(cx, fw, cond, depth=0, scope=None):
    """does the boolean expression `cond` mean "some type or const parameter of the type's generics is called C"?  -> (kinds, C term)"""
    from ..syn import es
    tm = cx.gm.terms_of(fw)
    sc = scope or tm.scope_of_node(cond)
    c = cond
    while c['k'] == 'Paren':
        c = c['expr']
    if c['k'] == 'MethodCall' and c['method'] == 'any' and len(c['args']) == 1 and c['args'][0]['k'] == 'Closure' and len(c['args'][0]['params']) == 1:
        if 'generics.params' not in es(c['recv']).replace(' ', ''):
            return None
        clo = c['args'][0]
        p0 = clo['params'][0]
        while p0.get('k') in ('Ref', 'Type'):
            p0 = p0['pat']
        if p0.get('k') != 'Ident' or '_ctx_entry' not in clo:
            return None
        body = clo['body']
        bt = tm.block_value_term(body, 0) if body['k'] == 'Block' else tm.value_in_recorded_scope(body, 0)
        elem = ('cparam', clo['_ctx_entry']['id'], p0['name'])
        r = _param_eq_arms(bt, elem)
        if r is None and isinstance(bt, tuple) and bt[0] == 'call' and str(bt[1]).startswith('crate::') and depth < 2:
            # |p| helper(p, &cand)
            r = _helper_pred(cx, bt, elem)
        return r
    if c['k'] == 'MethodCall' and c['method'] == 'contains' and len(c['args']) == 1:
        # `used.contains(&cand)` where `used` collects, in a loop over the type's generic parameters, the identifier of every type /
        # const parameter (`filter_map(..).collect()` is that loop after N7)
        from ..terms import strip_refs as _sr, analyse_iter as _ai
        r = _sr(c['recv'])
        if r['k'] != 'Path' or len(r['path']['segs']) != 1:
            return None
        d = (sc or fw.root).lookup(r['path']['s']) if (sc or fw.root) is not None else None
        if d is None:
            cands_ = [d_ for d_ in fw.defs if d_.name == r['path']['s']]
            d = cands_[0] if len(cands_) == 1 else None
        if d is None or d.kind != 'let' or d.assigns:
            return None
        # `let used = { let mut acc = ..; for .. { acc.push(..) } acc };` (the N7 form of `.. .collect()`): the pushes go to `acc`
        if d.init is not None and d.init['k'] == 'Block' and d.init.get('stmts') and d.init['stmts'][-1]['k'] == 'Expr' and not d.init['stmts'][-1]['semi'] \
                and d.init['stmts'][-1]['expr']['k'] == 'Path' and d.init['stmts'][0]['k'] == 'Local':
            inner_name = d.init['stmts'][-1]['expr']['path']['s']
            inner = [d_ for d_ in fw.defs if d_.name == inner_name and d_.kind == 'let' and d_.init is d.init['stmts'][0].get('init')]
            if len(inner) == 1:
                d = inner[0]
        kinds = set()
        pushes = [ev for ev in fw.events if ev.kind == 'mcall' and ev.method == 'push' and len(ev.args) == 1 and _sr(ev.recv)['k'] == 'Path'
                  and ev.scope.lookup(_sr(ev.recv)['path']['s']) is d]
        if not pushes:
            return None
        for ev in pushes:
            loops = [x for x in ev.ctx if x['k'] == 'for']
            if len(loops) != 1 or 'generics.params' not in es(loops[0]['iter']).replace(' ', ''):
                return None
            arms = [x for x in ev.ctx if x['k'] == 'arm']
            kind = None
            for a_ in arms:
                ps = __import__('sa.syn', fromlist=['pat_s']).pat_s(a_['pat'])
                for kn in ('Type', 'Const', 'Lifetime'):
                    if ps.startswith('GenericParam::' + kn) or ps.startswith('syn::GenericParam::' + kn):
                        kind = kn
            vt = tm.term(ev.args[0], ev.scope)
            while isinstance(vt, tuple) and vt and ((vt[0] == 'mcall' and len(vt) == 3 and vt[2] in ('to_string', 'clone', 'to_owned')) or (vt[0] in ('ref', 'Some') and len(vt) == 2)):
                vt = vt[1]
            if kind is None or not (isinstance(vt, tuple) and vt[0] == 'field' and vt[2] == 'ident'):
                return None
            kinds.add(kind)
        return kinds, tm.term(_sr(c['args'][0]), sc or fw.root)
    if c['k'] == 'Call' and c['func']['k'] == 'Path' and depth < 2:
        fns = cx.crate.find_fn(fw.fn.module, [x['id'] for x in c['func']['path']['segs']], fw.fn.self_ty)
        if len(fns) != 1:
            return None
        g = fns[0]
        gw = cx.fw(g)
        gtm = cx.gm.terms_of(gw)
        names = [p_[0] for p_ in g.params() if p_[0] != 'self']
        if len(names) != len(c['args']):
            return None
        # g: `for p in <ast>.generics.params.. { if <p is named C> { return true; } } false`  or a tail expression of the `any` form
        rets = [ev for ev in gw.events if ev.kind == 'exit' and ev.how == 'return']
        res = None
        if not rets and gw.tail is not None:
            res = exists_param_named(cx, gw, gw.tail, depth + 1)
        elif rets and gw.tail is not None and gtm.term(gw.tail, gtm.scope_of_node(gw.tail) or gw.root) == ('lit', 'Bool', False):
            res = None
            for ev in rets:
                if ev.value is None or gtm.term(ev.value, ev.scope) != ('lit', 'Bool', True):
                    return None
                loops = [x for x in ev.ctx if x['k'] == 'for']
                conds = [x for x in ev.ctx if x['k'] == 'if']
                if len(loops) != 1 or len(conds) != 1 or not conds[0]['pol'] or 'generics.params' not in es(loops[0]['iter']).replace(' ', ''):
                    return None
                ct = gtm.term(conds[0]['cond'], conds[0]['scope'])
                r = _param_eq_arms(ct, ('elem', loops[0]['id']))
                if r is None:
                    return None
                res = (res[0] | r[0], res[1]) if res is not None and res[1] == r[1] else (r if res is None else None)
                if res is None:
                    return None
        if res is None:
            return None
        kinds, cand = res
        # map the helper's parameter back to the caller's argument
        if isinstance(cand, tuple) and cand[0] == 'param' and cand[1] in names:
            a = c['args'][names.index(cand[1])]
            return kinds, tm.term(a, sc or fw.root)
        return None
    return None


def _helper_pred(cx, bt, elem):
    q = bt[1][len('crate::'):]
    fns = [f for f in cx.crate.fns if f.qname == q]
    if len(fns) != 1:
        return None
    g = fns[0]
    gw = cx.fw(g)
    gtm = cx.gm.terms_of(gw)
    names = [p_[0] for p_ in g.params() if p_[0] != 'self']
    if gw.tail is None or any(ev.kind == 'exit' and ev.how == 'return' for ev in gw.events) or len(names) != len(bt) - 2:
        return None
    from ..terms import subst_term
    t = gtm.term(gw.tail, gtm.scope_of_node(gw.tail) or gw.root)
    for n_, a_ in zip(names, bt[2:]):
        t = subst_term(t, ('param', n_), a_)
    return _param_eq_arms(t, elem)


def check_fresh_provider(cx, f):
    """A fresh-name provider must (i) loop while its candidate equals the identifier of some parameter of the
    type's generics — comparing against *type and const* parameters (lifetimes live in another namespace) —
    and (ii) return an identifier built from that same candidate, which (iii) the loop body extends."""
    from ..syn import es
    from ..terms import subterms
    fw = cx.fw(f)
    tm = cx.gm.terms_of(fw)
    loops = [ev for ev in fw.events if ev.kind == 'loop']
    if len(loops) != 1:
        return False
    lp = loops[0].node
    cond = lp.get('cond')
    if cond is None:
        return _fresh_provider_loop_break(cx, f, fw, tm, loops[0])
    r = exists_param_named(cx, fw, cond, 0, loops[0].scope)
    if r is None:
        return False
    kinds, cand = r
    if not {'Type', 'Const'} <= kinds:
        return False
    if not (isinstance(cand, tuple) and cand[0] == 'var'):
        return False
    d = tm.def_by_id(cand[1])
    if d is None:
        return False
    # (iii) the loop body extends the candidate
    grows = [ev for ev in fw.events if ev.kind == 'mcall' and ev.method in ('push', 'push_str') and any(c_.get('id') == loops[0].entry['id'] for c_ in ev.ctx)
             and tm.term(ev.recv, ev.scope) == cand]
    if not grows:
        return False
    # (ii) the returned identifier is built from the candidate
    if fw.tail is None:
        return False
    tt = tm.term(fw.tail, tm.scope_of_node(fw.tail) or fw.root)
    return any(x == cand for x in subterms(tt))


def _fresh_provider_loop_break(cx, f, fw, tm, lev):
    """`loop { let cand = F(state); if !<some type/const parameter is called cand> { break cand; } <state grows>; }` as the value of
    the function: the candidate is recomputed from the state in every iteration, returned only when no parameter has that name,
    and the state grows otherwise"""
    from ..terms import subterms
    lid = lev.entry['id']
    if fw.tail is not lev.node:
        return False
    inside = [e for e in fw.events if any(c_.get('id') == lid for c_ in e.ctx)]
    found = None
    for e in inside:
        if e.kind == 'branch' and e.pos['k'] == 'if':
            c = e.node['cond']
            while c['k'] == 'Paren':
                c = c['expr']
            if c['k'] == 'Unary' and c['op'] == '!':
                r = exists_param_named(cx, fw, c['expr'], 0, e.scope)
                if r is not None and {'Type', 'Const'} <= r[0]:
                    found = (e, r[1])
    if found is None:
        return False
    bev, cand = found
    brk = [e for e in inside if e.kind == 'exit' and e.how == 'break' and any(c_.get('id') == bev.pos['id'] and c_.get('pol') and not c_.get('prior') for c_ in e.ctx)]
    if len(brk) != 1 or brk[0].value is None or tm.term(brk[0].value, brk[0].scope) != cand:
        return False
    # every other way out of the loop is forbidden
    if [e for e in inside if e.kind == 'exit' and e.how in ('break', 'return') and e is not brk[0]]:
        return False
    states = [x for x in subterms(cand) if isinstance(x, tuple) and x and x[0] == 'var']
    grown = False
    for x in states:
        d = tm.def_by_id(x[1])
        if d is None or any(c_.get('id') == lid for c_ in d.ctx):
            continue
        for a in d.assigns:
            if getattr(a, 'compound', False) and any(c_.get('id') == lid for c_ in a.ctx) and a.seq > bev.seq:
                grown = True
        for e in inside:
            if e.kind == 'mcall' and e.method in ('push', 'push_str') and tm.term(e.recv, e.scope) == x and e.seq > bev.seq:
                grown = True
    return grown


def derived_binder_formats(cx, fn):
    """format_ident! format strings whose result is used as a pattern binder in the generated code"""
    fw = cx.fw(fn)
    out = []
    for ev in fw.events:
        if ev.kind == 'macro' and ev.name == 'format_ident':
            args = ev.mac.get('args') or []
            if args and args[0]['k'] == 'Lit' and args[0]['lit']['k'] == 'Str':
                out.append((args[0]['lit']['v'], ev))
    return out


def run(cx, tier='quick'):
    rep = Report('C19')
    rep.explanation.append(
        'Static lint over the generated-code model: all %d quote! templates of the crate are parsed with hole markers and composed '
        'per handler; rules TPL-ABS/TPL-ROOT (every path and macro name absolute ::core, template-local, Self, primitive or hole), '
        'TPL-RECV (method-call syntax only on template-local receivers), GEN-CLASH (template-fixed fn generics vs the type\'s generics), '
        'GEN-INJ (derived binder prefixes injective and disjoint from template-fixed binders) are evaluated on every site, hence for every input.' % len(cx.gm.templates))
    total_sites = 0
    handlers = cx.handler_fns()
    for fn in handlers:
        n, bad = analyse_tree(cx, fn, rep)
        total_sites += n
        for lf in bad:
            rep.bad('UNANALYSABLE', fn.qname, 'emission=%s' % (es(lf.expr)[:80] if lf.expr else lf.kind),
                    'emission whose content the generated-code model cannot determine', fn.file, lf.event.line if lf.event else fn.line)
        # GEN-INJ
        fmts = derived_binder_formats(cx, fn)
        prefixes = {}
        for f, ev in fmts:
            if f.count('{}') != 1 or not f.endswith('{}'):
                rep.bad('GEN-INJ', fn.qname, 'format=%s' % f, 'derived identifier format is not of the injective form "<prefix>{}"', fn.file, ev.line)
                continue
            prefixes.setdefault(f[:-2], ev)
            rep.ok('GEN-INJ', '%s|format=%s' % (fn.qname, f))
    # templates that are not interpolated as token streams but re-parsed into a syn value (`syn::parse2(quote!(::core::cmp::Ord))`: the
    # trait path handed to the bound computation, type keys, ..) end up in the generated code all the same: their paths obey the
    # same rule
    visited = set()
    for fn in handlers:
        for s_ in collect(cx, fn)[0]:
            visited.add(id(s_.tmpl))
    for t in cx.gm.templates:
        if id(t) in visited or id(t) in getattr(cx.gm, 'inlined_templates', ()):
            continue
        c, ast, forms = cx.gm.parse_any(t, ['path', 'type', 'wherepreds', 'expr'])
        if c is None:
            continue

        def cb2(role, node, extra, t=t):
            if role != 'path':
                return
            segs = node['segs']
            first = segs[0]['id']
            inst = 'path=%s' % node['s']
            if node['global']:
                if first not in ALLOWED_ROOTS and not is_marker(first):
                    rep.bad('TPL-ROOT', t.fn.qname, inst, 'absolute path rooted at `::%s` (only `::core` exists in #![no_std] crates)' % first, t.file, t.line, {'template': t.text()[:200]})
                else:
                    rep.ok('TPL-ABS', '%s|scalar|%s' % (t.fn.qname, inst))
                return
            if is_marker(first) or first in PRIMS or first in ('Self', 'self'):
                rep.ok('TPL-ABS', '%s|scalar|%s' % (t.fn.qname, inst))
                return
            rep.bad('TPL-ABS', t.fn.qname, inst,
                    'unqualified `%s` in a re-parsed template (it becomes part of the generated code) resolves at the derive site (shadowable; not available as written in every environment); write `::core::…`' % node['s'],
                    t.file, t.line, {'template': t.text()[:200]})
        visit(ast, c, cb2)
    rep.extra['sites'] = total_sites
    rep.extra['templates'] = len(cx.gm.templates)
    rep.extra['handlers'] = len(handlers)
    rep.floor('TPL-ABS', 300, '(≈600 path uses today)')
    rep.floor('TPL-RECV', 10)
    rep.floor('GEN-CLASH', 3)
    if total_sites < 150:
        rep.broken.append('only %d template sites composed (floor 150)' % total_sites)
    selftest(rep)
    rep.assumptions += ['quote!/syn print and re-parse identifiers, paths and types faithfully',
                        'rustc name resolution: a path starting with `::core` is not shadowable; a bare identifier is']
    rep.not_decided += ['collisions between a user-supplied method path and a template local of the same name',
                        'shadowing of primitive type names (u8, bool, ...)']
    from .binders import check_binder_injectivity
    check_binder_injectivity(cx, rep, None)
    check_method_capture(cx, rep)
    return rep


def binder_leaves(t, path=()):
    """the values a binder-name term can take: through tuple projections, match / if-let / if alternatives"""
    from ..terms import match_arms
    if not isinstance(t, tuple) or not t:
        return [t]
    if t[0] == 'proj' and len(t) == 3:
        return binder_leaves(t[2], (t[1],) + tuple(path))
    ma = match_arms(t)
    if ma is not None:
        out = []
        for _p, v in ma[1]:
            out += binder_leaves(v, path)
        return out
    if t[0] == 'iflet' and len(t) == 5:
        return binder_leaves(t[3], path) + binder_leaves(t[4], path)
    if t[0] == 'ite' and len(t) == 4:
        return binder_leaves(t[2], path) + binder_leaves(t[3], path)
    if t[0] == 'tuple' and path and isinstance(path[0], int) and path[0] + 1 < len(t):
        return binder_leaves(t[1 + path[0]], path[1:])
    if path:
        return [('proj',) + tuple(path) + (t,)]
    return [t]


def check_method_capture(cx, rep):
    """METHOD-CAPTURE: a user-supplied function path (`method = path`) interpolated in call position (`#method(a, b)`) is resolved
    inside the generated function, where the template's own parameters and locals (`f`, `state`, `other`, `source`, `builder`, ..)
    are in scope: a user function that happens to have one of those names is shadowed by the local (E0434 / E0618 / E0308).
    quote! identifiers carry call-site hygiene, so every fixed local name captures."""
    from ..terms import subterms as _st
    n = 0
    for fn in cx.handler_fns():
        sites, _bad = collect(cx, fn)
        fixed = set()
        calls = []
        named_binders = []
        user_exprs = []
        for s in sites:
            if s.ast is None:
                continue

            def cb(role, node, extra, s=s):
                if role == 'patident' and not is_marker(node['name']) and not node['name'][:1].isupper() and node['name'] != '_':
                    fixed.add(node['name'])
                elif role == 'patident' and is_marker(node['name']) and cx.gm.hole_class(s.tmpl, marker_name(node['name'])) != 'acc':
                    named_binders.append((s, marker_name(node['name'])))
                elif role == 'path' and extra == 'expr' and len(node['segs']) == 1 and is_marker(node['segs'][0]['id']) and not node['global']:
                    h_ = marker_name(node['segs'][0]['id'])
                    t_ = s.tmpl.hole_term(h_)
                    if any(isinstance(x, tuple) and x and x[0] == 'field' and len(x) == 3 and x[2] in ('expression',) for x in _st(t_)):
                        user_exprs.append((s, h_))
                elif role == 'call':
                    f_ = node['func']
                    if f_['k'] == 'Path' and len(f_['path']['segs']) == 1 and is_marker(f_['path']['segs'][0]['id']) and not f_['path']['global']:
                        calls.append((s, marker_name(f_['path']['segs'][0]['id'])))
            visit(s.ast, s.cat, cb)
        if fixed:
            # CONST-CAPTURE: a binding pattern that is a bare identifier resolves to a constant of that name if one is in scope, and the
            # const generic parameters of the user's type are in scope in every generated impl: `struct S<const f: usize>` turns the
            # generated `fn fmt(&self, f: &mut Formatter)` into a (refutable, ill-typed) constant pattern (E0308 / E0530)
            n += 1
            s0 = [s_ for s_ in sites if s_.ast is not None][0]
            rep.bad('CONST-CAPTURE', fn.qname, 'template-binders=%s' % ','.join(sorted(fixed)),
                    'the generated functions bind %s with call-site hygiene inside an impl that carries the user\'s generic parameters: a const generic parameter '
                    'of one of these names (`struct S<const %s: usize>`) captures the binding and the generated code does not compile' % (sorted(fixed), sorted(fixed)[0]),
                    s0.tmpl.file, s0.tmpl.line, {})
        seen = set()
        for s, h in calls:
            if seen:
                continue      # one finding per handler: the key names the handler and the capturing locals, not educe's variable names
            t = s.tmpl.hole_term(h)
            # (Into keeps the per-target method paths in the attribute's `types` map)
            user = any(isinstance(x, tuple) and ((x[0] == 'field' and x[2] in ('method', 'types')) or x[0] == 'param') for x in _st(t))
            if not user:
                continue
            seen.add(h)
            n += 1
            # binders named after the user's own fields (`Self::V { #field_name, .. }`) capture as well: `method(millis)` next to a
            # field `millis`
            raw_b = []
            for s_, h_ in named_binders:
                t_ = s_.tmpl.hole_term(h_)
                if not all(isinstance(l_, tuple) and l_ and l_[0] == 'format_ident' for l_ in binder_leaves(t_)):
                    raw_b.append('<fields via #%s>' % h_)
            names = sorted(fixed) + sorted(set(raw_b))
            if names:
                rep.bad('METHOD-CAPTURE', fn.qname, 'user-method-called-under=%s' % ','.join(names),
                        'the user\'s `method` path is called as `#%s(..)` inside a generated function whose own parameters / locals %s are in scope with call-site hygiene: '
                        'a user function of one of these names is shadowed by the local and the generated code does not compile' % (h, names),
                        s.tmpl.file, s.tmpl.line, {'template': s.tmpl.text()[:200]})
            else:
                rep.ok('METHOD-CAPTURE', '%s|call=#%s (no template-fixed local in scope)' % (fn.qname, h))
        # a user-written expression (`Default(expression = ..)`) pasted into a generated function that also binds locals — fixed ones, or
        # ones named after the user's own fields — is evaluated in their scope: `timeout() * 2` next to a field `timeout` no longer means
        # the function
        if user_exprs:
            from .binders import flatten
            raw = []
            for s_, h_ in named_binders:
                t_ = s_.tmpl.hole_term(h_)
                if not (isinstance(t_, tuple) and t_ and t_[0] == 'format_ident'):
                    raw.append(h_)
            n += 1
            if raw or fixed:
                s0, h0 = user_exprs[0]
                rep.bad('METHOD-CAPTURE', fn.qname, 'user-expression-under=%s' % ','.join(sorted(set(raw)) + sorted(fixed)),
                        'the user\'s `expression` is interpolated (`#%s`) inside generated code that binds locals (%s): a name in the expression that coincides with one of them '
                        'refers to the local, not to the item the user meant' % (h0, ', '.join(['the field names via #%s' % r_ for r_ in sorted(set(raw))] + sorted(fixed))),
                        s0.tmpl.file, s0.tmpl.line, {'template': s0.tmpl.text()[:200]})
            else:
                rep.ok('METHOD-CAPTURE', '%s|user expressions are evaluated where no generated local is in scope' % fn.qname)
    return n


def selftest(rep):
    """zero-count rules must fire on a tiny embedded positive fixture on every run."""
    from .. import syn as S
    ok, ast = S.parse('stmts', 'match x { Some(v) => v, None => unreachable!() }')
    found = {'path': False, 'macro': False, 'pat': False}

    def cb(role, node, extra):
        if role == 'path' and node['s'] == 'Some' and not node['global']:
            found['path'] = True
        if role == 'macro' and node['name'] == 'unreachable':
            found['macro'] = True
        if role == 'patident' and node['name'] == 'None':
            found['pat'] = True
    if ok:
        visit(ast, 'stmts', cb)
    if not all(found.values()):
        rep.broken.append('TPL-ABS self-test fixture did not fire: %r' % found)
