"""FLAGS: the acceptance switches at every attribute-builder call site equal the documented table."""
from ..syn import es, pat_s
from ..terms import term_s, subterms, strip_refs
from ..walk import ctx_s
from ..facts import atom_s
from ..parsers import bool_fields_of_self, switch_of_cond, _under

UNION_BYTEWISE = ('Debug', 'PartialEq', 'Hash')


class BuilderSite:
    def __init__(self, fn, ev, struct, trait, level, method, position, shape):
        self.fn = fn
        self.ev = ev
        self.struct = struct      # struct literal json or None (unit builder)
        self.trait = trait
        self.level = level
        self.method = method
        self.position = position  # type | variant | field
        self.shape = shape

    def value(self, name):
        if self.struct is None:
            return None
        for f in self.struct['fields']:
            if f['member'] == name:
                return f['expr']
        return None


UNRESOLVED = []


def builder_sites(cx):
    out = []
    del UNRESOLVED[:]
    for fn in cx.crate.fns:
        if len(fn.module.path) < 2 or fn.module.path[0] != 'trait_handlers':
            continue
        if len(fn.module.path) >= 3 and fn.module.path[2] == 'models':
            continue
        fw = cx.fw(fn)
        for ev in fw.events:
            if ev.kind != 'mcall' or not ev.method.startswith('build_from_'):
                continue
            r = strip_refs(ev.recv)
            struct = None
            name = None
            # a builder bound to a variable first (`let b = TypeAttributeBuilder {..}; b.build_from_attributes(..)`)
            hops = 0
            while r['k'] == 'Path' and len(r['path']['segs']) == 1 and hops < 4:
                d = ev.scope.lookup(r['path']['s'])
                if d is None or d.kind != 'let' or d.init is None or d.assigns:
                    break
                r = strip_refs(d.init)
                hops += 1
            if r['k'] == 'Struct':
                struct = r
                name = r['path']['segs'][-1]['id']
                segs = [s['id'] for s in r['path']['segs']]
            elif r['k'] == 'Path':
                name = r['path']['segs'][-1]['id']
                segs = [s['id'] for s in r['path']['segs']]
            else:
                UNRESOLVED.append((fn, ev))
                continue
            if not name.endswith('AttributeBuilder'):
                UNRESOLVED.append((fn, ev))
                continue
            res = cx.crate.resolve(fn.module, segs)
            trait = None
            if res[0] == 'crate' and len(res[1]) >= 2 and res[1][0] == 'trait_handlers':
                from ..cx import TRAIT_DIRS
                for t, d in TRAIT_DIRS.items():
                    if d == res[1][1]:
                        trait = t
            level = 'field' if name.startswith('Field') else 'type'
            if level == 'field':
                position = 'field'
            elif ev.method == 'build_from_attributes':
                position = 'variant'
            else:
                position = 'type'
            shape = cx.shape_of_handler(fn) if fn.name == 'trait_meta_handler' else 'helper'
            if id(fn) in getattr(cx.crate, 'fully_inlined', ()):
                continue        # analysed in its callers, with their context
            out.append(BuilderSite(fn, ev, struct, trait, level, ev.method, position, shape))
    return out


def norm_value(cx, facts, site, expr):
    """True | False | tuple(sorted atoms) | ('expr', text)"""
    if expr is None:
        return None
    if expr['k'] == 'Lit' and expr['lit']['k'] == 'Bool':
        return expr['lit']['v']
    fw = cx.fw(site.fn)
    atoms = facts.cond_atoms(expr, True, site.ev.scope, fw)
    return tuple(sorted(atoms, key=str))


def site_atoms(cx, facts, site):
    fw = cx.fw(site.fn)
    return facts.atoms(site.ev.ctx, fw)


def expected(cx, facts, site, atoms):
    """documented acceptance at this site: {key: True | False | predicate(value)->bool}, keys are 'flag', 'unsafe' or the
    primary documented parameter name."""
    T, pos, shape = site.trait, site.position, site.shape
    fw = cx.fw(site.fn)
    union = shape == 'union'

    def is_atoms(pred):
        return lambda v: isinstance(v, tuple) and pred(v)

    def educed_not(X):
        return is_atoms(lambda v: list(v) == [('educed', X, False)])

    type_expr_some = any(a[0] == 'some' and a[2] is True and isinstance(a[1], tuple) and a[1][0] == 'field' and a[1][2] == 'expression' for a in atoms)
    # fields of a variant that is not the default variant may carry no Default attribute at all
    variant_not_default = T == 'Default' and any(a[0] == 'truth' and a[2] is False and isinstance(a[1], tuple) and a[1][0] == 'field' and a[1][2] == 'flag' for a in atoms)
    if pos == 'type':
        e = {'flag': True}
        if T == 'Debug':
            e.update({'unsafe': union, 'name': True, 'named_field': shape == 'struct', 'bound': not union})
        elif T in ('PartialEq', 'Hash'):
            e.update({'unsafe': union, 'bound': not union})
        elif T in ('Clone', 'Ord'):
            e.update({'bound': True})
        elif T == 'PartialOrd':
            under_ord = ('educed', 'Ord', True) in atoms
            e.update({'bound': not under_ord})
        elif T == 'Default':
            e.update({'new': True, 'expression': True, 'bound': True})
        elif T == 'Copy':
            e.update({'bound': educed_not('Clone')})
        elif T == 'Eq':
            e.update({'bound': educed_not('PartialEq')})
        elif T == 'Into':
            e = {'types': True}
        return e
    if pos == 'variant':
        e = {'flag': False, 'unsafe': False, 'bound': False, 'new': False, 'expression': False, 'types': False, 'name': False, 'named_field': False}
        if T == 'Debug':
            e.update({'name': True, 'named_field': True})
        if T == 'Default':
            e['flag'] = not type_expr_some and site.shape != 'helper'
        return e
    # field position
    if T in ('Copy', 'Eq'):
        return {}
    if union and T in ('Debug', 'PartialEq', 'Hash', 'Clone'):
        return {'ignore': False, 'method': False, 'name': False}
    if T == 'Debug':
        # `name` only where fields are rendered with keys
        named_branch = None
        for a in atoms:
            if a[0] == 'truth' and isinstance(a[1], tuple) and a[1][0] == 'field' and a[1][2] == 'named_field':
                named_branch = a[2]
        return {'ignore': True, 'method': True, 'name': named_branch if named_branch is not None else ('?',)}
    if T in ('PartialEq', 'Hash'):
        return {'ignore': True, 'method': True}
    if T in ('Ord', 'PartialOrd'):
        return {'ignore': True, 'method': True, 'rank': True}
    if T == 'Clone':
        if shape == 'struct':
            return {'method': educed_not('Copy')}
        return {'method': True}
    if T == 'Default':
        if site.shape == 'helper' or type_expr_some or variant_not_default:
            return {'flag': False, 'expression': False}
        if union:
            return {'flag': True, 'expression': True}
        return {'flag': False, 'expression': True}
    if T in ('Deref', 'DerefMut'):
        return {'flag': True}
    if T == 'Into':
        return {'types': True}
    return None


def switch_names(m):
    """documented key -> enable switch field, read from the parser model"""
    out = {}
    for g in m.params:
        out[g.names[0]] = g.enable
    fs = getattr(m, 'flag_switch', None)
    if fs:
        out['flag'] = fs
    return out


def extra_switches(cx, m):
    """switches that are not parameter arms: `unsafe` prefix and Into's list form"""
    out = {}
    fw = m.fw
    for ev in fw.events:
        if ev.kind == 'branch' and ev.pos['k'] == 'if':
            sc_ = switch_of_cond(es(ev.node['cond']), bool_fields_of_self(cx, fw.fn))
            if sc_ is not None:
                sw = sc_[0]
                inner = [e for e in fw.events if _under(e, ev.pos['id'], pol=True)]
                if any(e.kind == 'let' and e.node.get('ty') is not None and 'UnsafePunctuatedMeta' in str(e.node['ty'].get('text')) for e in inner) or \
                        any(e.kind == 'assign' and es(e.target) == 'has_unsafe' for e in inner):
                    out['unsafe'] = sw
                if sw.endswith('_types'):
                    out['types'] = sw
    return out


def check(cx, facts, rep, models):
    sites = builder_sites(cx)
    if len(sites) < 80:
        rep.broken.append('only %d attribute-builder call sites found (≈92 on the pinned tree)' % len(sites))
    for ufn, uev in UNRESOLVED:
        rep.bad('FLAGS', ufn.qname, 'builder=%s' % es(uev.recv)[:40], 'UNANALYSABLE: the receiver of `%s` is not an attribute-builder literal (or a variable initialised with one): its switches cannot be read' % uev.method, ufn.file, uev.line)
    for s in sites:
        where = s.fn.qname
        f = s.fn
        if s.trait is None:
            rep.bad('FLAGS', where, 'builder=%s' % es(s.ev.recv)[:40], 'attribute builder does not resolve into a trait_handlers/<trait>/models module', f.file, s.ev.line)
            continue
        m = models.get((s.trait, s.level))
        if m is None:
            rep.bad('FLAGS', where, 'builder=%s' % s.trait, 'no parameter-parser model for (%s, %s)' % (s.trait, s.level), f.file, s.ev.line)
            continue
        atoms = site_atoms(cx, facts, s)
        exp = expected(cx, facts, s, atoms)
        inst0 = '%s.%s@%s[%s]' % (s.trait, s.level, s.position, s.shape)
        ctxkey = ','.join(sorted(atom_s(a) for a in atoms if a[0] in ('truth', 'some', 'educed', 'shape') and 'attrs' not in str(a)))[:80]
        if exp is None:
            rep.bad('FLAGS', where, inst0, 'no documented acceptance row for this builder site', f.file, s.ev.line)
            continue
        sw = switch_names(m)
        sw.update(extra_switches(cx, m))
        # every switch the builder struct declares must be accounted for
        bf = bool_fields_of_self(cx, m.fw.fn)
        by_switch = {}
        for key, swname in sw.items():
            if swname:
                by_switch.setdefault(swname, []).append(key)
        # a switch = a bool field of the builder that guards a parameter / form in the parser (other bool fields are default values,
        # e.g. named_field); a field following the `enable_*` convention that guards nothing is reported
        declared = [fld['member'] for fld in (s.struct['fields'] if s.struct else []) if str(fld['member']) in bf and (str(fld['member']) in by_switch or str(fld['member']).startswith('enable_'))]
        allok = True
        for swname in declared:
            keys = by_switch.get(swname)
            if not keys:
                rep.bad('FLAGS', where, inst0 + ':' + swname, 'switch `%s` guards no documented parameter in the parser' % swname, f.file, s.ev.line)
                allok = False
                continue
            v = norm_value(cx, facts, s, s.value(swname))
            for key in keys:
                if key not in exp:
                    if v is False:
                        continue
                    rep.bad('FLAGS', where, '%s:%s|%s' % (inst0, key, ctxkey),
                            '`%s` is enabled (%s) at %s position of %s although the documentation has no such parameter there' % (key, es(s.value(swname)), s.position, s.trait),
                            f.file, s.ev.line)
                    allok = False
                    continue
                e = exp[key]
                if callable(e):
                    good = e(v)
                    etxt = 'a partner-dependent value'
                elif e == ('?',):
                    good = False
                    etxt = 'decided by the rendering branch (named/positional), which could not be identified'
                else:
                    good = (v == e)
                    etxt = str(e)
                if good:
                    continue
                allok = False
                what = {'flag': 'the bare `%s` form' % s.trait, 'unsafe': 'the `unsafe` marker', 'types': 'the `Into(type, ..)` form'}.get(key, 'parameter `%s`' % key)
                rep.bad('FLAGS', where, '%s:%s|%s' % (inst0, key, ctxkey),
                        '%s is %s at the %s position of %s (%s handler%s); documented acceptance: %s' % (
                            what, 'accepted' if v is True else ('refused' if v is False else 'conditionally accepted (%s)' % es(s.value(swname))),
                            s.position, s.trait, s.shape, (' under ' + ctxkey) if ctxkey else '', etxt),
                        f.file, s.ev.line, {'switch': swname, 'value': es(s.value(swname))})
        if allok:
            rep.ok('FLAGS', '%s|%s|%s|%s' % (where, inst0, ctxkey, s.ev.seq % 1000),
                   {'file': f.file, 'line': s.ev.line, 'site': inst0, 'context': ctxkey, 'switches': {k: es(s.value(k)) for k in declared}})
        # builder defaults that carry behaviour (Debug name / named_field, rank) are checked by the SUM-* rules
    rep.floor('FLAGS', 80, '(92 builder sites today)')
