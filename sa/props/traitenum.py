"""Model of `supported_traits::Trait::from_path`: which attribute names map to which variant under which cfg.
Two spellings are understood: the match over the identifier string with one cfg-gated arm per trait, and the lookup of the Debug
name in `Self::VARIANTS[..Self::VARIANTS.len() - 1]` (enum-ordinalize lists the variants in declaration order, `derive(Debug)` prints
the variant name; the slice drops the last declared variant)."""
import re
from ..syn import es
from ..model import cfgs_of_attrs


def trait_enum(cx):
    for (mp, name), it in cx.crate.types.items():
        if name == 'Trait' and tuple(mp) == ('supported_traits',) and it['k'] == 'Enum':
            return it
    return None


def from_path_model(cx):
    """-> (form, {name: (variant, cfg list)}, may_return_any) or None"""
    fp = [f for f in cx.crate.fns if f.qname.endswith('supported_traits::Trait::from_path')]
    en = trait_enum(cx)
    if not fp or en is None:
        return None
    f = fp[0]
    fw = cx.fw(f)
    variants = [(v['name'], cfgs_of_attrs(v.get('attrs'))) for v in en['variants']]
    # form A: match arms
    table = {}
    n = 0
    for ev in fw.events:
        if ev.kind == 'match':
            for a in ev.node['arms']:
                p = a['pat']
                if p['k'] == 'Lit' and p['lit']['k'] == 'Str':
                    n += 1
                    m = re.fullmatch(r'Some\((?:Self|Trait)::([A-Za-z_0-9]+)\)', es(a['body']).replace(' ', ''))
                    table[p['lit']['v']] = (m.group(1) if m else None, cfgs_of_attrs(a.get('attrs')))
    if n:
        from ..restable import result_leaves
        other = False
        for v, ctx, how, e in result_leaves(cx, f):
            t = es(v).replace(' ', '')
            if t != 'None' and not re.fullmatch(r'Some\((?:Self|Trait)::([A-Za-z_0-9]+)\)', t):
                other = True
        return ('match', table, other)
    # form B: lookup by Debug name in the variant table without its last entry
    if fw.tail is not None:
        t = es(fw.tail).replace(' ', '')
        derives_debug = any(a.get('name') == 'derive' and 'Debug' in str(a.get('meta')) for a in en.get('attrs', []))
        m = re.fullmatch(r'(?:Self|Trait)::VARIANTS\[\.\.\(?(?:Self|Trait)::VARIANTS\.len\(\)-1\)?\]\.iter\(\)\.copied\(\)\.find\(\|([a-z_]+)\|(.+)\)', t)
        excluded = None
        if not m:
            # the helper variant dropped by name instead of by position: `.filter(|t| *t != Self::_Nothing)`
            m2 = re.fullmatch(r'(?:Self|Trait)::VARIANTS\.iter\(\)\.copied\(\)\.filter\(\|([a-z_]+)\|\(?\*?\1!=(?:Self|Trait)::([A-Za-z_0-9]+)\)?\)\.find\(\|([a-z_]+)\|(.+)\)', t)
            if m2:
                excluded = m2.group(2)

                class _M:
                    def group(self_, i):
                        return {1: m2.group(3), 2: m2.group(4)}[i]
                m = _M()
        if m and derives_debug:
            v_, body = m.group(1), m.group(2)
            while body.startswith('(') and body.endswith(')'):
                body = body[1:-1]
            sides = body.split('==')
            fmts = ('format!("{%s:?}")' % v_, 'format!("{:?}",%s)' % v_)
            if len(sides) == 2 and any(s_ in fmts or s_.rstrip('.as_str()') in fmts for s_ in sides):
                other_side = [s_ for s_ in sides if not any(s_.startswith(x) for x in fmts)]
                if len(other_side) == 1:
                    # the other side must be the path's identifier as a string
                    tm = cx.gm.terms_of(fw)
                    ok_subject = False
                    for d in fw.defs:
                        if d.name == other_side[0].replace('.as_str()', '') and d.init is not None:
                            it = es(d.init).replace(' ', '')
                            if 'get_ident()' in it and 'to_string()' in it:
                                ok_subject = True
                    if ok_subject:
                        if excluded is not None:
                            return ('variants-lookup', {n_: (n_, c_) for n_, c_ in variants if n_ != excluded}, False)
                        return ('variants-lookup', {n_: (n_, c_) for n_, c_ in variants[:-1]}, False)
        return ('unknown', {}, True)
    return ('unknown', {}, True)
