"""C08 — Default builds exactly the designated value.

SUM-DEFAULT (generated-code model of the Default struct / enum / union handlers + common::expr):
  * a type-level `expression` is the whole body of `default()` and nothing else is then emitted into it;
  * otherwise: struct → `Self` / `Self { .. }` / `Self( .. )`; enum → the variant that is the only one or the payload of a verified
    unique-selection search marked by the variant's own `Default` flag; union → `Self { f: .. }` for the only field or the field
    selected by its own flag / expression;
  * every field of the built struct/variant gets exactly one initialiser, in place: its own `expression` iff given, else
    `<FieldTy as ::core::default::Default>::default()` with that field's type;
  * `new()` is emitted iff requested and is `<Self as ::core::default::Default>::default()`;
  * literal auto-conversion table of common::expr::auto_adjust_expr (natural type ⇒ unchanged, any other literal ⇒ Into::into,
    non-literals untouched).
"""
from ..report import Report
from ..syn import es, pat_s, ty_s, walk_json
from ..terms import term_s, subterms, analyse_iter
from ..summ import (Summ, access, call_parts, block_stmts, marker_stmts, marker_of_pat, marker_of_expr, marker_of_type, member_of_loop,
                    FieldStmts, atoms_after_loop)
from ..facts import Facts, atom_s
from ..genast import is_marker, marker_name
from ..tmpl import MARK

DEFAULT_CALL = '::core::default::Default'


def type_rec_member(S, t, member):
    """t == <type attribute record built from param meta>.<member>"""
    r = S.facts.attr_of(t)
    if r is None:
        return False
    rec, mem, (bstruct, method, args) = r
    return mem == member and bool(args) and args[0] == ('param', 'meta') and str(bstruct[1]).endswith('TypeAttributeBuilder')


def header(S):
    impls = [(s, it) for s, it in S.impl_of('::core::default::Default') if not S.atoms(s)]
    if len(impls) != 1:
        S.bad('SUM-DEFAULT', 'impl', 'expected exactly one unconditional `impl ::core::default::Default`, found %d' % len(impls))
        return None
    site, impl = impls[0]
    fns = S.fns_of(impl)
    if len(fns) != 1 or fns[0]['sig']['name'] != 'default' or fns[0]['sig']['inputs'] or ty_s(fns[0]['sig']['output']) != 'Self':
        S.bad('SUM-DEFAULT', 'signature', 'the impl must define exactly `fn default() -> Self`', site)
        return None
    return site, impl, fns[0]


def check_new(S):
    inh = [(s, it) for s, it in S.impls() if it.get('trait') is None]
    if len(inh) != 1:
        S.bad('SUM-DEFAULT', 'new-impl', 'expected one inherent impl carrying `new`, found %d' % len(inh))
        return False
    site, impl = inh[0]
    atoms = S.atoms(site)
    okg = len(atoms) == 1 and atoms[0][0] == 'truth' and atoms[0][2] is True and type_rec_member(S, atoms[0][1], 'new')
    if not okg:
        S.bad('SUM-DEFAULT', 'new-guard', '`new` is emitted under %s (expected: iff the type-level `new` parameter is set)' % [atom_s(a)[:80] for a in atoms], site)
        return False
    fns = S.fns_of(impl)
    ok = False
    if len(fns) == 1 and len(impl['items']) == 1:
        f = fns[0]
        st = f['block']['stmts']
        if f['sig']['name'] == 'new' and not f['sig']['inputs'] and ty_s(f['sig']['output']) == 'Self' and f['vis'] == 'pub' and len(st) == 1 and st[0]['k'] == 'Expr' and not st[0]['semi']:
            e = st[0]['expr']
            if e['k'] == 'Call' and not e['args'] and e['func']['k'] == 'Path' and e['func'].get('qself') and e['func']['path']['s'] == '::core::default::Default::default' \
                    and ty_s(e['func']['qself']['ty']) == 'Self':
                ok = True
    if ok:
        # `new()` calls `<Self as Default>::default()`: its impl must carry the generics and where-clause of the Default impl itself
        # (with the automatic / custom `T: Default` predicates), otherwise it does not type-check for generic types
        from .c12 import hole_of_generics_list, where_hole
        from ..tmpl import generics_source
        prim = S.impl_of('::core::default::Default')
        if len(prim) == 1:
            psite, pimpl = prim[0]
            for getter, what in ((hole_of_generics_list, 'generic parameters'), (where_hole, 'where-clause')):
                a, b = getter(pimpl['generics']), getter(impl['generics'])
                ta = generics_source(psite.tmpl.hole_term(a)) if a else None
                tb = generics_source(site.tmpl.hole_term(b)) if b else None
                if ta != tb:
                    S.bad('SUM-DEFAULT', 'new-generics', 'the impl carrying `new()` does not use the same %s as the `impl Default` it calls (%s vs %s): `<Self as Default>::default()` needs the predicates of that impl' % (
                        what, term_s(tb, 60), term_s(ta, 60)), site)
                    return False
    if ok:
        S.ok('SUM-DEFAULT', 'new', {'body': '<Self as ::core::default::Default>::default()'})
    else:
        S.bad('SUM-DEFAULT', 'new-body', '`new` is not `pub fn new() -> Self { <Self as ::core::default::Default>::default() }`', site)
    return ok


def default_call_of(e):
    """`<#ty as ::core::default::Default>::default()` -> type marker name"""
    if e['k'] == 'Call' and not e['args'] and e['func']['k'] == 'Path' and e['func'].get('qself') and e['func']['path']['s'] == '::core::default::Default::default':
        q = e['func']['qself']
        if q.get('as') and q['pos'] == 3:
            return marker_of_type(q['ty'])
    return None


def check_field_inits(S, site, hole, label, named, loop_kind, loop_base_ok):
    sites = S.kids(site, hole)
    if not sites:
        S.bad('SUM-DEFAULT', label + '-none', 'no field initialiser is emitted')
        return False
    good = True
    entries = []
    Ls = set()
    for s in sites:
        atoms = S.atoms(s)
        loops = [a for a in atoms if a[0] == 'loop']
        if not loops or not loop_base_ok(loops[-1][2]):
            S.bad('SUM-DEFAULT', label + '-loop', 'an initialiser is emitted outside the loop over the fields of the value being built', s)
            good = False
            continue
        la = loops[-1]
        if not S.loop_in_decl_order(la):
            S.bad('SUM-DEFAULT', label + '-order', 'fields are not initialised in declaration order', s)
            good = False
        L = la[1]
        Ls.add(L)
        entries.append(atoms)
        if named:
            if s.cat != 'fieldvals' or len(s.ast) != 1 or s.ast[0]['shorthand'] or not is_marker(s.ast[0]['member']):
                S.bad('SUM-DEFAULT', label + '-form', 'not a single `name: value,` initialiser', s)
                good = False
                continue
            mt = S.hole_term(s, marker_name(s.ast[0]['member']))
            if member_of_loop(mt, L) not in ('named', 'both'):
                S.bad('SUM-DEFAULT', label + '-member', 'the initialised name is not the visited field\'s name', s)
                good = False
            val = s.ast[0]['expr']
        else:
            if s.cat != 'args' or len(s.ast) != 1:
                S.bad('SUM-DEFAULT', label + '-form', 'not a single positional initialiser', s)
                good = False
                continue
            val = s.ast[0]
        expr_atoms = [p for p in (S.attr_atom(x, L, 'expression') for x in atoms) if p is not None]
        extra = [x for x in atoms_after_loop(atoms, L) if S.attr_atom(x, L, 'expression') is None]
        if extra:
            S.bad('SUM-DEFAULT', label + '-extra-guard', 'an initialiser is additionally conditioned on %s' % [atom_s(x)[:80] for x in extra], s)
            good = False
        m = marker_of_expr(val)
        if m is not None:
            et = S.hole_term(s, m)
            if not (isinstance(et, tuple) and et[0] == 'some_of' and S.attr_rec_ok(et[1], L, 'expression')) or expr_atoms != [True]:
                S.bad('SUM-DEFAULT', label + '-expression', 'the initialiser `#%s` is not this field\'s own `expression` under "expression given"' % m, s)
                good = False
        else:
            tm_ = default_call_of(val)
            if tm_ is None:
                S.bad('SUM-DEFAULT', label + '-default', 'the initialiser is neither the field\'s expression nor `<FieldTy as ::core::default::Default>::default()`', s)
                good = False
                continue
            tt = S.hole_term(s, tm_)
            if tt != ('field', ('elem', L), 'ty') or expr_atoms != [False]:
                S.bad('SUM-DEFAULT', label + '-default-type', 'the defaulted type is not this field\'s type, or the default is not used exactly when no expression is given', s)
                good = False
    for L in Ls:
        counts, keys = S.count_per_path([a for a in entries if any(x[0] == 'loop' and x[1] == L for x in a)], L)
        if counts is None:
            continue
        for asg, (n, d) in counts.items():
            if n != 1:
                S.bad('SUM-DEFAULT', label + '-once', 'on some path a field gets %d initialisers (expected 1)' % n, sites[0])
                good = False
                break
    if good:
        S.ok('SUM-DEFAULT', label + '-fields', {'initialisers': [s.tmpl.text()[:80] for s in sites]})
    return good


def body_leaves(S, site, f):
    st = f['block']['stmts']
    ms = marker_stmts(st)
    if len(ms) != 1 or len(st) != 1:
        S.bad('SUM-DEFAULT', 'body', 'the body of default() is not one composed expression', site)
        return None
    return S.kids(site, ms[0][1])


def split_type_expression(S, leaves):
    """partition leaves into the type-expression leaf and the constructed-value leaves"""
    expr_leaf = []
    rest = []
    ok = True
    for b in leaves:
        atoms = [a for a in S.atoms(b) if a[0] != 'data']
        te = [a for a in atoms if a[0] == 'some' and type_rec_member(S, a[1], 'expression')]
        if len(te) != 1:
            S.bad('SUM-DEFAULT', 'type-expression-guard', 'a body of default() is not guarded by presence/absence of the type-level expression', b)
            ok = False
            continue
        if te[0][2]:
            expr_leaf.append((b, [a for a in atoms if a not in te]))
        else:
            rest.append((b, [a for a in atoms if a not in te]))
    if len(expr_leaf) != 1:
        S.bad('SUM-DEFAULT', 'type-expression', 'expected exactly one body for "type-level expression given", found %d' % len(expr_leaf))
        return None
    b, others = expr_leaf[0]
    e = b.ast[0]['expr'] if b.cat == 'stmts' and len(b.ast) == 1 and b.ast[0]['k'] == 'Expr' and not b.ast[0]['semi'] else None
    m = marker_of_expr(e) if e is not None else None
    okx = m is not None and not others
    if okx:
        t = S.hole_term(b, m)
        okx = isinstance(t, tuple) and t[0] == 'some_of' and type_rec_member(S, t[1], 'expression')
    if not okx:
        S.bad('SUM-DEFAULT', 'type-expression-body', 'with a type-level expression the body must be exactly that expression', b)
        ok = False
    else:
        S.ok('SUM-DEFAULT', 'type-expression', {'body': '#expression'})
    return rest if ok else None


def check_struct(cx, fn, rep, facts):
    S = Summ(cx, fn, rep, facts)
    h = header(S)
    if h is None:
        return
    site, impl, f = h
    leaves = body_leaves(S, site, f)
    if leaves is None:
        return
    rest = split_type_expression(S, leaves)
    if rest is None:
        return
    ok = True
    F = ('field', ('payload', 'Data::Struct', 0, ('field', ('param', 'ast'), 'data')), 'fields')
    seen = set()
    for b, atoms in rest:
        shapes = [a for a in atoms if a[0] == 'shape' and a[1] == F and a[3] is True]
        if len(shapes) != 1 or len(atoms) != 1:
            S.bad('SUM-DEFAULT', 'struct-guard', 'a constructor body is emitted under %s (expected exactly the struct\'s shape)' % [atom_s(a)[:80] for a in atoms], b)
            ok = False
            continue
        sh = shapes[0][2]
        seen.add(sh)
        e = b.ast[0]['expr'] if b.cat == 'stmts' and len(b.ast) == 1 and b.ast[0]['k'] == 'Expr' else None
        ok = check_ctor(S, b, e, sh, 'Self', None, F, 'struct') and ok
    if seen != {'Unit', 'Named', 'Unnamed'}:
        S.bad('SUM-DEFAULT', 'struct-cases', 'not all struct shapes are handled (%s)' % sorted(seen), site)
        ok = False
    ok = check_new(S) and ok
    if ok:
        S.ok('SUM-DEFAULT', 'struct', {'handler': fn.qname})


def check_ctor(S, b, e, sh, head, variant_term, F, label):
    """e is `HEAD`, `HEAD { #fields }` or `HEAD ( #fields )`"""
    def head_ok(path):
        if variant_term is None:
            return path['s'] == 'Self'
        return len(path['segs']) == 2 and path['segs'][0]['id'] == 'Self' and is_marker(path['segs'][1]['id']) and S.hole_term(b, marker_name(path['segs'][1]['id'])) == variant_term
    if e is None:
        S.bad('SUM-DEFAULT', label + '-ctor', 'unexpected constructor form', b)
        return False
    base_ok = lambda t: t == F
    if sh == 'Unit':
        if not (e['k'] == 'Path' and head_ok(e['path'])):
            S.bad('SUM-DEFAULT', label + '-unit', 'a unit shape must default to the bare constructor', b)
            return False
        return True
    if sh == 'Named':
        if not (e['k'] == 'Struct' and head_ok(e['path']) and len(e['fields']) == 1 and e['fields'][0]['shorthand'] and is_marker(e['fields'][0]['member']) and not e.get('rest')):
            S.bad('SUM-DEFAULT', label + '-named', 'a named shape must default to `CTOR { <one initialiser per field> }`', b)
            return False
        return check_field_inits(S, b, marker_name(e['fields'][0]['member']), label + '-named', True, None, base_ok)
    if not (e['k'] == 'Call' and e['func']['k'] == 'Path' and head_ok(e['func']['path']) and len(e['args']) == 1 and marker_of_expr(e['args'][0])):
        S.bad('SUM-DEFAULT', label + '-tuple', 'a tuple shape must default to `CTOR(<one initialiser per field>)`', b)
        return False
    return check_field_inits(S, b, marker_of_expr(e['args'][0]), label + '-tuple', False, None, base_ok)


def parse_variant_selection(S, t):
    """ite(len(V)==1, V[0], iflet Some(_) = sel { sel } else never) -> (V, sel var)"""
    if not (isinstance(t, tuple) and t[0] == 'ite' and len(t) == 4):
        return None
    cond, a, b = t[1], t[2], t[3]
    if not (isinstance(cond, tuple) and cond[0] == 'bin' and cond[1] == '==' and isinstance(cond[2], tuple) and cond[2][0] == 'mcall' and cond[2][2] == 'len' and str(cond[3][2]) == '1'):
        return None
    V = cond[2][1]
    if a not in (('index', V, ('lit', 'Int', '0')), ('unwrap', ('mcall', ('mcall', V, 'iter'), 'next')), ('unwrap', ('mcall', V, 'first'))):
        return None
    if not (isinstance(b, tuple) and b[0] == 'iflet' and b[1].startswith('Some(') and isinstance(b[2], tuple) and b[2][0] == 'var' and b[3] == ('some_of', b[2]) and b[4] == ('never',)):
        return None
    return V, b[2]


def validate_variant_sel(S, var, V, payload_check, mark_check):
    d = S.tm.def_by_id(var[1])
    if d is None:
        return 'selection variable not found'
    somes = [a for a in d.assigns if a.value['k'] == 'Call' and es(a.value['func']) == 'Some']
    if len(somes) != 1:
        return '%d designation assignments (expected one)' % len(somes)
    a = somes[0]
    loops = [c for c in a.ctx if c['k'] == 'for' and c not in d.ctx]
    if len(loops) != 1:
        return 'designation assigned outside a single search loop'
    Lc = loops[0]
    info = analyse_iter(Lc['iter'])
    if info.rev or info.adaptors or S.tm.term(info.base, Lc['scope']) != V:
        return 'the search loop does not visit the same list in order'
    L = Lc['id']
    pt = S.tm.term(a.value['args'][0], a.scope)
    r = payload_check(pt, L)
    if r is not True:
        return r
    atoms = S.facts.atoms(a.ctx, S.fw)
    marks = [x for x in atoms_after_loop(atoms, L) if not (x[0] == 'some' and x[1] == var)]
    r = mark_check(marks, L)
    if r is not True:
        return r
    return True


def check_enum(cx, fn, rep, facts):
    S = Summ(cx, fn, rep, facts)
    h = header(S)
    if h is None:
        return
    site, impl, f = h
    leaves = body_leaves(S, site, f)
    if leaves is None:
        return
    rest = split_type_expression(S, leaves)
    if rest is None:
        return
    ok = True
    seen = set()
    VARS = ('field', ('payload', 'Data::Enum', 0, ('field', ('param', 'ast'), 'data')), 'variants')
    for b, atoms in rest:
        shapes = [a for a in atoms if a[0] == 'shape' and a[3] is True]
        if len(shapes) != 1 or len(atoms) != 1:
            S.bad('SUM-DEFAULT', 'enum-guard', 'a constructor body is emitted under %s (expected exactly the default variant\'s shape)' % [atom_s(a)[:80] for a in atoms], b)
            ok = False
            continue
        ft = shapes[0][1]
        if not (isinstance(ft, tuple) and ft[0] == 'field' and ft[2] == 'fields'):
            S.bad('SUM-DEFAULT', 'enum-shape-of', 'the shape tested is not the default variant\'s field list', b)
            ok = False
            continue
        vt = ft[1]
        sel = parse_variant_selection(S, vt)
        if sel is None or sel[0] != VARS:
            S.bad('SUM-DEFAULT', 'enum-variant', 'the variant built is not "the only variant, else the uniquely marked one" (term %s)' % term_s(vt, 120), b)
            ok = False
            continue
        V, var = sel

        def payload_check(pt, L):
            return True if pt == ('elem', L) else 'the designated variant is not this iteration\'s variant'

        def mark_check(marks, L):
            if len(marks) == 1 and marks[0][0] == 'truth' and marks[0][2] is True and S.attr_rec_ok(marks[0][1], L, 'flag'):
                return True
            return 'the variant is designated under %s (expected exactly its own `Default` marker)' % [atom_s(m)[:80] for m in marks]
        r = validate_variant_sel(S, var, V, payload_check, mark_check)
        if r is not True:
            S.bad('SUM-DEFAULT', 'enum-selection', r, b)
            ok = False
        sh = shapes[0][2]
        seen.add(sh)
        e = b.ast[0]['expr'] if b.cat == 'stmts' and len(b.ast) == 1 and b.ast[0]['k'] == 'Expr' else None
        ok = check_ctor(S, b, e, sh, 'Self::', ('field', vt, 'ident'), ft, 'enum') and ok
    if seen != {'Unit', 'Named', 'Unnamed'}:
        S.bad('SUM-DEFAULT', 'enum-cases', 'not all variant shapes are handled (%s)' % sorted(seen), site)
        ok = False
    ok = check_new(S) and ok
    if ok:
        S.ok('SUM-DEFAULT', 'enum', {'handler': fn.qname})


def check_union(cx, fn, rep, facts):
    S = Summ(cx, fn, rep, facts)
    h = header(S)
    if h is None:
        return
    site, impl, f = h
    leaves = body_leaves(S, site, f)
    if leaves is None:
        return
    rest = split_type_expression(S, leaves)
    if rest is None:
        return
    ok = True
    if len(rest) != 1 or rest[0][1]:
        S.bad('SUM-DEFAULT', 'union-guard', 'expected exactly one unconditional constructor body for unions', site)
        return
    b, _ = rest[0]
    e = b.ast[0]['expr'] if b.cat == 'stmts' and len(b.ast) == 1 and b.ast[0]['k'] == 'Expr' else None
    if not (e is not None and e['k'] == 'Struct' and e['path']['s'] == 'Self' and len(e['fields']) == 1 and e['fields'][0]['shorthand'] and is_marker(e['fields'][0]['member']) and not e.get('rest')):
        S.bad('SUM-DEFAULT', 'union-ctor', 'a union must default to `Self { <one field> }`', b)
        return
    kids = S.kids(b, marker_name(e['fields'][0]['member']))
    NAMED = ('field', ('field', ('payload', 'Data::Union', 0, ('field', ('param', 'ast'), 'data')), 'fields'), 'named')
    pols = set()
    for k in kids:
        atoms = [a for a in S.atoms(k) if a not in S.atoms(b)]
        if k.cat != 'fieldvals' or len(k.ast) != 1 or k.ast[0]['shorthand'] or not is_marker(k.ast[0]['member']):
            S.bad('SUM-DEFAULT', 'union-init-form', 'not a single `name: value,` initialiser', k)
            ok = False
            continue
        nt = S.hole_term(k, marker_name(k.ast[0]['member']))
        # nt = unwrap(proj(0, SEL).ident)
        if not (isinstance(nt, tuple) and nt[0] == 'unwrap' and nt[1][0] == 'field' and nt[1][2] == 'ident' and nt[1][1][0] == 'proj' and nt[1][1][1] == 0):
            S.bad('SUM-DEFAULT', 'union-init-name', 'the initialised field is not the designated field (term %s)' % term_s(nt, 100), k)
            ok = False
            continue
        selt = nt[1][1][2]
        sel = parse_pair_selection(S, selt)
        if sel is None or sel[0] != NAMED:
            S.bad('SUM-DEFAULT', 'union-selection', 'the designated field is not "the only field, else the uniquely marked one"', k)
            ok = False
            continue
        Fl, var, first_rec = sel

        def payload_check(pt, L):
            if isinstance(pt, tuple) and pt[0] == 'tuple' and pt[1] == ('elem', L) and S.facts.builder_call(pt[2]) and S.facts.builder_call(pt[2])[2][0] == ('field', ('elem', L), 'attrs'):
                return True
            return 'the designation is not this iteration\'s (field, its attributes)'

        def mark_check(marks, L):
            txt = [atom_s(m)[:100] for m in marks]
            if len(marks) == 1 and marks[0][0] == 'or' and marks[0][2] is True and len(marks[0][1]) == 2:
                subs = marks[0][1]
                fl = [x for x in subs if x[0] == 'truth' and x[2] is True and S.attr_rec_ok(x[1], L, 'flag')]
                ex = [x for x in subs if x[0] == 'some' and x[2] is True and S.attr_rec_ok(x[1], L, 'expression')]
                if len(fl) == 1 and len(ex) == 1:
                    return True
            return 'the union field is designated under %s (expected: its own `Default` marker or expression)' % txt
        r = validate_variant_sel(S, var, Fl, payload_check, mark_check)
        if r is not True:
            S.bad('SUM-DEFAULT', 'union-selection-search', r, k)
            ok = False
        rec_expr = ('field', ('proj', 1, selt), 'expression')
        pol = [a[2] for a in atoms if a[0] == 'some' and a[1] == rec_expr]
        extra = [a for a in atoms if not (a[0] == 'some' and a[1] == rec_expr)]
        if len(pol) != 1 or extra:
            S.bad('SUM-DEFAULT', 'union-init-guard', 'the initialiser is emitted under %s' % [atom_s(a)[:80] for a in atoms], k)
            ok = False
            continue
        pols.add(pol[0])
        val = k.ast[0]['expr']
        m = marker_of_expr(val)
        if pol[0]:
            if m is None or S.hole_term(k, m) != ('some_of', rec_expr):
                S.bad('SUM-DEFAULT', 'union-init-expression', 'with an expression the designated field must be initialised with it', k)
                ok = False
        else:
            tm_ = default_call_of(val)
            if tm_ is None or S.hole_term(k, tm_) != ('field', ('proj', 0, selt), 'ty'):
                S.bad('SUM-DEFAULT', 'union-init-default', 'without an expression the designated field must be `<its type as Default>::default()`', k)
                ok = False
    if pols != {True, False}:
        S.bad('SUM-DEFAULT', 'union-cases', 'expression and no-expression cases are not both handled', b)
        ok = False
    ok = check_new(S) and ok
    if ok:
        S.ok('SUM-DEFAULT', 'union', {'handler': fn.qname})


def parse_pair_selection(S, t):
    """ite(len(F)==1, (F[0], rec of F[0]), iflet Some) -> (F, var, rec)"""
    if not (isinstance(t, tuple) and t[0] == 'ite' and len(t) == 4):
        return None
    cond, a, b = t[1], t[2], t[3]
    if not (isinstance(cond, tuple) and cond[0] == 'bin' and cond[1] == '==' and isinstance(cond[2], tuple) and cond[2][0] == 'mcall' and cond[2][2] == 'len' and str(cond[3][2]) == '1'):
        return None
    F = cond[2][1]
    first = ('index', F, ('lit', 'Int', '0'))
    if not (isinstance(a, tuple) and a[0] == 'tuple' and len(a) == 3 and a[1] == first):
        return None
    bc = S.facts.builder_call(a[2])
    if not bc or bc[2][0] != ('field', first, 'attrs'):
        return None
    if not (isinstance(b, tuple) and b[0] == 'iflet' and b[1].startswith('Some(') and isinstance(b[2], tuple) and b[2][0] == 'var' and b[3] == ('some_of', b[2]) and b[4] == ('never',)):
        return None
    return F, b[2], a[2]


# ------------------------------------------------------------------------------------------
# literal conversion table
# ------------------------------------------------------------------------------------------

NATURAL = {
    'Lit::Int': ('Type::Path', ['suffix', 'INT_TYPES']),
    'Lit::Float': ('Type::Path', ['suffix', 'FLOAT_TYPES']),
    'Lit::Str': ('Type::Reference', ['"str"']),
    'Lit::Bool': ('Type::Path', ['"bool"']),
    'Lit::Char': ('Type::Path', ['"char"']),
    'Lit::Byte': ('Type::Path', ['"u8"']),
    'Lit::ByteStr': ('Type::Reference', ['Type::Array', '"u8"']),
}


def check_expr_table(cx, rep):
    fs = [f for f in cx.crate.fns if f.qname.endswith('common::expr::auto_adjust_expr')]
    if len(fs) != 1:
        rep.broken.append('common::expr::auto_adjust_expr not found')
        return
    f = fs[0]
    fw = cx.fw(f)
    where = f.qname
    m = cx.crate.modules.get(('common', 'expr'))
    consts = {}
    for it in m.items:
        if it['k'] == 'Const' and it['expr']['k'] == 'Array':
            consts[it['name']] = [x['lit']['v'] for x in it['expr']['elems'] if x['k'] == 'Lit']
    exp_int = ['u8', 'u16', 'u32', 'u64', 'u128', 'usize', 'i8', 'i16', 'i32', 'i64', 'i128', 'isize']
    if sorted(consts.get('INT_TYPES', [])) == sorted(exp_int):
        rep.ok('EXPR-TABLE', where + '|INT_TYPES = the 12 integer types')
    else:
        rep.bad('EXPR-TABLE', where, 'INT_TYPES', 'the integer natural-type list is %s' % consts.get('INT_TYPES'), f.file, f.line)
    if sorted(consts.get('FLOAT_TYPES', [])) == ['f32', 'f64']:
        rep.ok('EXPR-TABLE', where + '|FLOAT_TYPES = f32, f64')
    else:
        rep.bad('EXPR-TABLE', where, 'FLOAT_TYPES', 'the float natural-type list is %s' % consts.get('FLOAT_TYPES'), f.file, f.line)
    # returns of the unchanged expression, per literal kind — on alpha-normal text (sa/alpha.py): `$0` = the expression, `$1` = the
    # expected type; pattern binders are named after their variant (`Lit::Int(x)` -> int, `Some(Type::Path(t))` -> path, ...)
    from ..alpha import Alpha
    from ..syn import pat_shape
    al = Alpha(f)
    TS = 'path.into_token_stream().to_string()'
    TS2 = 'path.to_token_stream().to_string()'

    def _split_top(c, op):
        out, depth, cur, i = [], 0, '', 0
        while i < len(c):
            ch = c[i]
            if ch in '([{':
                depth += 1
            elif ch in ')]}':
                depth -= 1
            if depth == 0 and c.startswith(op, i):
                out.append(cur)
                cur = ''
                i += len(op)
                continue
            cur += ch
            i += 1
        out.append(cur)
        return out

    def _unparen(c):
        c = c.strip()
        while c.startswith('(') and c.endswith(')'):
            depth, ok_ = 0, True
            for i_, ch in enumerate(c):
                depth += ch == '('
                depth -= ch == ')'
                if depth == 0 and i_ < len(c) - 1:
                    ok_ = False
                    break
            if not ok_:
                break
            c = c[1:-1].strip()
        return c

    def _unlet(c):
        """`{letx=E;BODY}` (an inlined single-expression helper whose argument was not a plain name) -> BODY[x := E]"""
        import re as _re
        c = c.strip()
        while c.startswith('{let') and c.endswith('}'):
            m_ = _re.match(r'^\{let(?:mut)?([A-Za-z_][A-Za-z0-9_]*)=', c)
            if not m_:
                break
            rest = c[m_.end():-1]
            parts = _split_top(rest, ';')
            if len(parts) != 2:
                break
            c = _re.sub(r'(?<![A-Za-z0-9_.])%s(?![A-Za-z0-9_])' % _re.escape(m_.group(1)), parts[0], parts[1]).strip()
        return c

    def ncond(c):
        """disjunctive normal text: top-level `||` of top-level `&&` of atoms, `==` operands sorted, borrows / `.as_str()` dropped"""
        c = c.replace(' ', '').replace(TS2, TS)
        c = _unlet(_unparen(c))
        ors = []
        for d in _split_top(_unparen(c), '||'):
            ands = []
            for a_ in _split_top(_unparen(_unlet(_unparen(d))), '&&'):
                a_ = _unparen(a_).replace('.as_str()', '').replace('&', '')
                if '==' in a_:
                    x_, y_ = a_.split('==', 1)
                    a_ = '=='.join(sorted([_unparen(x_), _unparen(y_)]))
                ands.append(a_)
            ors.append('&&'.join(sorted(ands)))
        return '||'.join(sorted(ors))
    EXP = {
        # a suffixed literal has one natural type (its suffix); only an unsuffixed one takes any integer / float type
        'Lit::Int': ([('Some(Type::Path(_))', '$1')], ncond('int.suffix()==%s||int.suffix().is_empty()&&INT_TYPES.contains(&%s.as_str())' % (TS, TS))),
        'Lit::Float': ([('Some(Type::Path(_))', '$1')], ncond('float.suffix()==%s||float.suffix().is_empty()&&FLOAT_TYPES.contains(&%s.as_str())' % (TS, TS))),
        'Lit::Str': ([('Some(Type::Reference(_))', '$1')], None),
        'Lit::Bool': ([('Some(Type::Path(_))', '$1')], ncond('%s=="bool"' % TS)),
        'Lit::Char': ([('Some(Type::Path(_))', '$1')], ncond('%s=="char"' % TS)),
        'Lit::Byte': ([('Some(Type::Path(_))', '$1')], ncond('%s=="u8"' % TS)),
        'Lit::ByteStr': ([('Some(Type::Reference(_))', '$1'), ('Type::Array(_)', 'reference.elem.as_ref()'), ('Type::Path(_)', 'array.elem.as_ref()')], ncond('%s=="u8"' % TS)),
    }
    STR_CONDS = [ncond('reference.elem.clone().into_token_stream().to_string()=="str"'), ncond('reference.elem.into_token_stream().to_string()=="str"'),
                 ncond('reference.elem.to_token_stream().to_string()=="str"')]
    def _selection_helper(txt):
        """`helper(&$0)`: a private function of the module that selects the literal of the expression (`Expr::Lit` / negated number)"""
        import re as _re
        m_ = _re.match(r'^([A-Za-z_][A-Za-z0-9_]*)\(&?\$0\)$', txt.replace(' ', ''))
        if not m_:
            return None
        hs = [g for g in cx.crate.fns if g.name == m_.group(1) and tuple(g.module.path) == tuple(f.module.path) and g.self_ty is None]
        if len(hs) != 1:
            return None
        ht = Alpha(hs[0]).text(hs[0].block)
        return ht if 'Expr::Lit' in ht else None

    kinds = {}
    for ev in fw.events:
        if ev.kind == 'exit' and ev.how == 'return' and ev.value is not None and al.text(ev.value) == '$0':
            lit = [pat_shape(c['pat']).split('(')[0] for c in ev.ctx if c['k'] == 'arm' and pat_shape(c['pat']).startswith('Lit::')]
            tys = [(pat_shape(c['pat']), al.text(c['expr']).lstrip('&')) for c in ev.ctx if c['k'] == 'iflet' and c['pol']]
            negs = [c for c in ev.ctx if (c['k'] in ('iflet', 'if') and not c['pol'])]
            conds = [ncond(al.text(c['cond'])) for c in ev.ctx if c['k'] == 'if' and c['pol']]
            scr = [al.text(c['scrut']).lstrip('&') for c in ev.ctx if c['k'] == 'arm']
            if len(lit) == 1:
                kinds.setdefault(lit[0], []).append((tys, conds, ev, negs, scr))
    for k, (tywant, cwant) in EXP.items():
        got = kinds.get(k, [])
        inst = 'literal=%s' % k
        if len(got) != 1:
            rep.bad('EXPR-TABLE', where, inst, '%s literals are left unchanged on %d paths (expected exactly one: the natural type)' % (k, len(got)), f.file, f.line)
            continue
        tys, conds, ev, negs, scr = got[0]
        # the innermost scrutinee is the literal: `lit.lit` of `Expr::Lit(lit)`, or the variable the literal selection
        # (`match &expr { Expr::Lit(l) => Some(&l.lit), Expr::Unary(Neg, Lit(Int|Float)) => Some(..), _ => None }`) is bound to
        scr_ok = scr == ['$0', 'lit.lit'] or (len(scr) == 2 and scr[1] in ('lit', 'some') and ('Expr::Lit' in scr[0] or _selection_helper(scr[0])))
        ok = tys == tywant and not negs and scr_ok and len(conds) == 1 and (conds[0] == cwant if cwant is not None else conds[0] in STR_CONDS)
        if ok:
            rep.ok('EXPR-TABLE', '%s|%s' % (where, inst), {'literal': k, 'unchanged_when': '%s %s' % (tys, conds)})
        else:
            rep.bad('EXPR-TABLE', where, inst, 'the "no conversion" condition for %s literals is `%s %s` (negated: %d, scrutinees %s)' % (k, tys, conds, len(negs), scr), f.file, ev.line)
    extra = [k for k in kinds if k not in EXP]
    for k in extra:
        rep.bad('EXPR-TABLE', where, 'literal=%s' % k, 'unexpected literal kind left unchanged', f.file, f.line)
    # fall-through: Into::into wrap; non-literals untouched
    tm = cx.gm.terms_of(fw)
    p0 = [p_[0] for p_ in f.params()][:1]
    tail_ok = False
    other_ok = False
    for ev in fw.events:
        if ev.kind in ('armval', 'tail'):
            pats = [pat_shape(c['pat']) for c in ev.ctx if c['k'] == 'arm']
            if pats and pats[-1] in ('_', 'None') and len(pats) == 1 and al.text(ev.node) == '$0':
                other_ok = True
            if ev.kind == 'tail' and pats in (['Expr::Lit(_)'], ['Some(_)']):
                t = tm.term(ev.node, ev.scope)
                if isinstance(t, tuple) and t[0] == 'unwrap' and isinstance(t[1], tuple) and t[1][0] == 'call' and str(t[1][1]).endswith('parse2') and isinstance(t[1][2], tuple) and t[1][2][0] == 'tmpl':
                    for t2 in cx.gm.templates:
                        if id(t2.mac) == t[1][2][1] and len(t2.holes) == 1:
                            h = list(t2.holes)[0]
                            if t2.text().replace(' ', '') == '::core::convert::Into::into(#%s)' % h and p0 and t2.hole_term(h) == ('param', p0[0]):
                                tail_ok = True
    if tail_ok:
        rep.ok('EXPR-TABLE', where + '|other literals wrapped in ::core::convert::Into::into')
    else:
        rep.bad('EXPR-TABLE', where, 'into-wrap', 'literals of a non-natural type are not wrapped in `::core::convert::Into::into(..)`', f.file, f.line)
    # a negative number is a literal too, whichever way it is parsed (`-1` as one literal in `p = -1` at the end of a list, as the
    # negation of a literal in `p(-1)` or when more follows): both forms must go through the same table
    txt_all = al.text(f.block) if hasattr(al, 'text') else ''
    for c_ in set(sc_ for got_ in kinds.values() for (_t, _c, _e, _n, sc_l) in got_ for sc_ in sc_l[:1]):
        txt_all += _selection_helper(c_) or ''
    neg_ok = 'Expr::Unary' in txt_all and 'UnOp::Neg' in txt_all and 'Lit::Int' in txt_all and 'Lit::Float' in txt_all
    if neg_ok:
        rep.ok('EXPR-TABLE', where + '|negated number literals are adjusted like literals')
    else:
        rep.bad('EXPR-TABLE', where, 'negated-literal', 'a negative number that arrives as `Expr::Unary(Neg, literal)` (`expr(-1)`, `expression = -1, ..`) is returned unchanged while '
                'the same value arriving as one literal (`expression = -1`) is wrapped in Into::into: the spellings generate different code', f.file, f.line)
    if other_ok:
        rep.ok('EXPR-TABLE', where + '|non-literal expressions untouched')
    else:
        rep.bad('EXPR-TABLE', where, 'non-literal', 'non-literal expressions are not returned unchanged', f.file, f.line)
    rep.floor('EXPR-TABLE', 10)


def check_builder_type_arg(cx, rep):
    """the Default field builder adjusts a bare literal to the type it is handed: `build_from_attributes(&F.attrs, traits, &G.ty)` must
    be given the type of the very field whose attributes it reads (F == G)"""
    n = 0
    for fn in cx.handler_fns():
        if '::default::' not in fn.qname:
            continue
        fw = cx.fw(fn)
        tm = cx.gm.terms_of(fw)
        for ev in fw.events:
            if ev.kind == 'mcall' and ev.method == 'build_from_attributes' and len(ev.args) == 3:
                a, t = tm.term(ev.args[0], ev.scope), tm.term(ev.args[2], ev.scope)
                n += 1
                ok = isinstance(a, tuple) and isinstance(t, tuple) and a[0] == 'field' and t[0] == 'field' and a[2] == 'attrs' and t[2] == 'ty' and a[1] == t[1]
                if ok:
                    rep.ok('SUM-DEFAULT', '%s|field builder gets attrs and type of one field (line-independent: %s)' % (fn.qname, term_s(a[1], 40)))
                else:
                    rep.bad('SUM-DEFAULT', fn.qname, 'builder-type-arg',
                            'the field builder reads the attributes of one field (%s) but is given the type of another (%s): a bare literal default is adjusted to the wrong type' % (term_s(a, 50), term_s(t, 50)),
                            fn.file, ev.line)
    if n < 3:
        rep.broken.append('fewer than 3 Default field-builder calls with a type argument found (%d)' % n)


def run(cx, tier='quick'):
    rep = Report('C08')
    rep.explanation.append(
        'SUM-DEFAULT: semantic summary of the generated default()/new() of the Default struct, enum and union handlers (type-level '
        'expression is the whole body; else constructor of the struct / uniquely designated variant / designated union field with one '
        'initialiser per field: own expression iff given, else <FieldTy as Default>::default()); EXPR-TABLE: the literal auto-conversion '
        'table of common::expr::auto_adjust_expr; expression spellings: PARAM/HELP (C13/C14).')
    facts = Facts(cx)
    n = 0
    for t, sh, fn in cx.shape_handlers():
        if t == 'Default' and sh in ('struct', 'enum', 'union'):
            n += 1
            {'struct': check_struct, 'enum': check_enum, 'union': check_union}[sh](cx, fn, rep, facts)
    if n != 3:
        rep.broken.append('expected the Default struct, enum and union handlers, found %d' % n)
    check_expr_table(cx, rep)
    from .c13_sel import check_selections
    sub = Report('C08')
    check_selections(cx, facts, sub)
    for fnd in sub.findings:
        if '::default::' in fnd.where:
            rep.findings.append(fnd)
    k = 0
    for r, i, v in sub.checked:
        if '::default::' in i:
            rep.checked.append((r, i, v))
            k += 1
    rep.counts['SEL'] = k
    from .c13 import include_own_scanners
    include_own_scanners(cx, facts, rep, ['::default::'])
    from .scope import check_scopes
    check_scopes(cx, rep, ['::default::'])
    check_builder_type_arg(cx, rep)
    rep.floor('SUM-DEFAULT', 12)
    rep.floor('SEL', 2)
    rep.assumptions += ['a user expression is evaluated as written', 'struct-expression semantics']
    rep.not_decided += ['the value of user expressions']
    from .c13 import include_own_parsers as _iop
    from ..facts import Facts as _Fp
    _iop(cx, _Fp(cx), rep, ['::default::'])
    # the impl headers of this trait's own templates (generics, where-clause, ::core trait path): HDR
    from .c12 import check_headers as _chk_hdr
    _chk_hdr(cx, rep, ['::default::'])
    from .own import include_generic_rules as _igr
    _igr(cx, rep, ['::default::'])
    return rep
