"""C01 — every accepted derive request expands to code that compiles (structural part).

  TPL-PARSE   every template parses in the syntactic category of the position it lands in (top-down composition
              from the handler's output); every emission is a template / accumulator the model understands.
  TPL-OPT     a hole whose value can be `None` (prints nothing) sits in macro-argument position or under a guard
              proving `Some`; otherwise syntax/arity of the generated code changes.
  TPL-ARITY   calls to the fixed ::core API in templates have the right number of arguments.
  GEN-SCOPE   every derived identifier used as a variable in generated code is bound by a pattern emitted under
              guards implied by the use's guards (if used then bound), in the same generated function.
  HDR         see C12 (impl headers), shared.
"""
from ..report import Report
from ..genast import visit, is_marker, marker_name
from ..gen import Site, Leaf, POS2CAT
from ..syn import es, pat_s
from ..terms import term_s, subterms
from ..walk import ctx_s
from ..tmpl import find_markers
from ..facts import Facts, atom_s

CORE_ARITY = {
    'debug_struct': 1, 'debug_tuple': 1, 'debug_map': 0, 'debug_list': 0, 'debug_set': 0, 'finish': 0, 'write_str': 1,
    'entry': 2, 'key': 1, 'value': 1,
    '::core::hash::Hash::hash': 2, '::core::cmp::PartialEq::eq': 2, '::core::cmp::PartialEq::ne': 2, '::core::cmp::Ord::cmp': 2,
    '::core::cmp::PartialOrd::partial_cmp': 2, '::core::clone::Clone::clone': 1, '::core::clone::Clone::clone_from': 2,
    '::core::convert::Into::into': 1, '::core::default::Default::default': 0, '::core::slice::from_raw_parts': 2,
    '::core::fmt::Debug::fmt': 2, '::core::mem::size_of': 0, '::core::option::Option::Some': 1,
}
FIELD_ARITY = {'debug_struct': 2, 'debug_tuple': 1}

USE_POS = {'expr', 'arg', 'args', 'operand', 'armbody', 'stmt', 'tail', 'init', 'scrutinee', 'cond', 'recv', 'base', 'stmts'}
BIND_POS = {'pat', 'patelem', 'patelems', 'fieldpat', 'fieldpats'}


def ident_like(t, depth=0):
    """does the term denote an identifier derived from the input (field ident / format_ident! result)?"""
    if not isinstance(t, tuple) or depth > 8:
        return False
    h = t[0]
    if h == 'format_ident':
        return True
    if h == 'field' and t[2] == 'ident':
        return True
    if h in ('unwrap', 'some_of'):
        return ident_like(t[1], depth + 1)
    if h in ('ite', 'iflet'):
        xs = [x for x in t[-2:] if x is not None]
        return bool(xs) and all(ident_like(x, depth + 1) for x in xs)
    if h == 'match':
        return all(ident_like(x, depth + 1) for _, x in t[2:])
    if h == 'proj':
        return ident_like(t[2], depth + 1)
    if h == 'tuple':
        return any(ident_like(x, depth + 1) for x in t[1:])
    return False


LIST_CATS = ('patelems', 'fieldpats', 'fieldvals', 'args', 'arms')


def check_separator(cx, fn, s, rep, rule='TPL-PARSE'):
    """pieces appended (`extend`) to a stream that lands in a comma-separated list are concatenated: each piece parses on its own
    (TPL-PARSE) with or without a trailing comma, but two of them in a row only if the first ends with one.  Every such piece ends
    with `,` — or is the rest pattern `..`, or a block-bodied match arm."""
    if s.cat not in LIST_CATS:
        return
    lf = getattr(s, 'leaf', None)
    ev = getattr(lf, 'event', None) if lf is not None else None
    if ev is None or ev.kind != 'mcall' or ev.method != 'extend':
        return
    from ..terms import strip_refs
    r = strip_refs(ev.recv)
    d = ev.scope.lookup(r['path']['s']) if r['k'] == 'Path' and len(r['path']['segs']) == 1 else None
    if d is None:
        return
    def_loops = set(c['id'] for c in d.ctx if c['k'] in ('for', 'while', 'loop'))
    in_loop = any(c['k'] in ('for', 'while', 'loop') and c['id'] not in def_loops for c in ev.ctx)
    fills = [e for e in ev.fn_events if e.kind == 'mcall' and e.method in ('extend', 'append_all') and e is not ev and
             strip_refs(e.recv)['k'] == 'Path' and e.scope.lookup(strip_refs(e.recv)['path']['s']) is d] if hasattr(ev, 'fn_events') else None
    if fills is None:
        fw = cx.fw(s.tmpl.fn)
        fills = [e for e in fw.events if e.kind == 'mcall' and e.method in ('extend', 'append_all') and e is not ev and
                 strip_refs(e.recv)['k'] == 'Path' and len(strip_refs(e.recv)['path']['segs']) == 1 and e.scope.lookup(strip_refs(e.recv)['path']['s']) is d]
    if not in_loop and not fills:
        return
    t = s.tmpl.tokens
    if not t:
        return
    last = t[-1]
    ok = last['t'] == 'p' and last['s'] == ','
    if not ok and s.cat in ('patelems', 'fieldpats') and len(t) >= 2 and all(x['t'] == 'p' and x['s'] == '.' for x in t[-2:]):
        ok = True
    if not ok and s.cat == 'arms' and last['t'] == 'g' and last.get('d') == '{':
        ok = True
    inst = '%s|sep|%s|%s' % (fn.qname, S_sha(s.tmpl.text()), s.cat)
    if ok:
        rep.ok(rule, inst)
    else:
        rep.bad(rule, fn.qname, 'separator=%s' % d.name,
                'the piece `%s` appended to `%s` does not end with `,`: followed by another piece of this %s list the generated code does not parse' % (
                    s.tmpl.text()[:60], d.name, s.cat), s.tmpl.file, s.tmpl.line)


def check_empty_match(cx, facts, fn, sites, rep):
    """TPL-EMPTY-MATCH: `match self { #arms }` whose arms are accumulated per variant has no arm for an enum without variants, and a
    match on a reference with no arms does not compile (E0004): the emission must be guarded by a non-emptiness test, or the handler
    must refuse such an enum."""
    from ..tmpl import sole_match_brace_holes
    fw = cx.fw(fn)
    refusal = None
    for s in sites:
        if s.ast is None:
            continue
        hs = sole_match_brace_holes(s.tmpl.tokens)
        if not hs:
            continue
        accs = [h for h in hs if cx.gm.hole_class(s.tmpl, h) == 'acc']
        if not accs:
            continue
        at = facts.atoms(facts.effective_ctx(s.ctx, fw), fw) + facts.atoms(s.tmpl.ctx, fw)
        from ..emptiness import nonempty_evidence
        guarded = nonempty_evidence(at, cx, fw)
        if not guarded:
            if refusal is None:
                refusal = False
                for ev in fw.events:
                    if ev.kind == 'exit' and ev.how == 'return' and ev.value is not None and es(ev.value).startswith('Err('):
                        ea = [a for a in facts.atoms(ev.ctx, fw) if a[0] not in ('data', 'cfg')]
                        if len(ea) == 1 and ea[0][0] == 'empty' and ea[0][2] is True:
                            refusal = True
            guarded = refusal
        inst = 'match{#%s}' % ','.join(sorted(accs))
        if guarded:
            rep.ok('TPL-EMPTY-MATCH', '%s|%s|%s' % (fn.qname, inst, s.tmpl.line))
        else:
            rep.bad('TPL-EMPTY-MATCH', fn.qname, inst,
                    'a `match` whose arms are accumulated per variant is emitted without a non-emptiness guard: for an enum without variants it is `match self {}` on a reference, which does not compile (E0004)',
                    s.tmpl.file, s.tmpl.line)


def run(cx, tier='quick'):
    rep = Report('C01')
    rep.explanation.append(
        'Structural closure of the generator: all quote! templates are parsed with hole markers and composed top-down from each '
        'handler\'s output (TPL-PARSE); optional holes are checked against guards (TPL-OPT); fixed ::core calls against an arity table '
        '(TPL-ARITY); derived identifiers used as variables must be bound by a co-guarded pattern emission (GEN-SCOPE); impl headers '
        '(HDR, shared with C12). These hold for every input because they quantify over all paths of the generator.')
    facts = Facts(cx)
    total = 0
    visited = set()
    for fn in cx.handler_fns():
        sites, bad = cx.all_sites(fn)
        where = fn.qname
        fw = cx.fw(fn)
        for lf in bad:
            rep.bad('TPL-PARSE', where, 'emission=%s' % (es(lf.expr)[:80] if lf.expr else lf.kind),
                    'emission whose content is not a template, an accumulator or a crate-local template-returning function', fn.file,
                    lf.event.line if lf.event else fn.line)
        for p in cx.hg(fn).problems:
            rep.bad('TPL-PARSE', where, 'problem', p[1], fn.file, p[0])
        for s in sites:
            total += 1
            visited.add(id(s.tmpl))
            if s.ast is None:
                rep.bad('TPL-PARSE', where, 'template-in-%s' % (s.cat or '?'),
                        'template does not parse as %s where it is interpolated (hole `#%s`): %s' % (s.cat, s.hole, s.err),
                        s.tmpl.file, s.tmpl.line, {'template': s.tmpl.text()[:400], 'context': ctx_s(s.ctx)})
                continue
            rep.ok('TPL-PARSE', '%s|%s|%s|%s' % (where, s.tmpl.fn.qname.split('::')[-1], S_sha(s.tmpl.text()), s.cat),
                   {'file': s.tmpl.file, 'line': s.tmpl.line, 'category': s.cat, 'template': s.tmpl.text()[:120], 'context': ctx_s(s.ctx)[:200]})
            check_opt(cx, facts, fn, s, rep)
            check_arity(cx, fn, s, rep)
            check_separator(cx, fn, s, rep)
        check_scope(cx, facts, fn, sites, rep)
        check_empty_match(cx, facts, fn, sites, rep)
    rep.extra['sites'] = total
    rep.extra['templates_total'] = len(cx.gm.templates)
    rep.extra['templates_reached'] = len(visited)
    # templates never reached from a handler output: they must be scalar templates (parse2 targets, fn arguments)
    for t in cx.gm.templates:
        if id(t) not in visited:
            if id(t.fn) in getattr(cx.crate, 'fully_inlined', ()):
                continue        # the helper's body is analysed as the inlined copy in each of its callers
            c, ast, forms = cx.gm.parse_any(t, ['path', 'type', 'expr', 'wherepreds', 'stmts', 'items', 'implitems', 'arms'])
            if c is None:
                rep.bad('TPL-PARSE', t.fn.qname, 'scalar-template', 'template parses in no syntactic category', t.file, t.line, {'template': t.text()[:300]})
            else:
                rep.ok('TPL-PARSE', '%s|scalar|%s|%s' % (t.fn.qname, S_sha(t.text()), c))
    from .helpers import check_ident_or_index
    check_ident_or_index(cx, rep)
    from .scope import check_scopes
    check_scopes(cx, rep, None)
    from .c14 import include_merge
    include_merge(cx, rep)
    from .dispatch import check_shape_dispatch
    check_shape_dispatch(cx, rep, None)
    from .dispatch import check_output_append
    check_output_append(cx, rep, None)
    # an accepted `method = path` whose path is shadowed by a local of the generated function does not compile
    from .c19 import check_method_capture
    check_method_capture(cx, rep)
    # a literal default that is emitted as it stands must have the field's type, any other one goes through `Into::into(<the whole
    # expression>)` (EXPR-TABLE, shared with C08): a wrong cell is an accepted request whose expansion does not type-check
    from .c08 import check_expr_table
    check_expr_table(cx, rep)
    # the type-level and the field-level builder of Into key their targets the same way (shared with C10): otherwise the documented
    # `Into(&str)` marker on a field is refused
    # the reference test of the Deref family looks through groups in every place (shared with C09): else Deref and DerefMut of one
    # type disagree about Target
    from .c09 import check_dereference_helper
    check_dereference_helper(cx, rep, 'SUM-DEREF')
    # a documented form must be accepted: the "nothing to show and no name" refusal of Debug follows the shown fields (shared with C06 / C13)
    from .c13_sel import check_has_fields_flag
    from ..facts import Facts as _Fh
    check_has_fields_flag(cx, _Fh(cx), rep)
    from .c10 import check_keys_normalised, check_hash_type
    check_keys_normalised(cx, rep)
    check_hash_type(cx, rep)
    rep.floor('TPL-PARSE', 200, '(276 templates today)')
    rep.floor('TPL-OPT', 3, '(4 optional-hole positions today; let-bound sub-templates are inlined into their parent template)')
    rep.floor('TPL-ARITY', 40)
    rep.floor('TPL-EMPTY-MATCH', 8, '(12 accumulated-arm matches today)')
    rep.floor('GEN-SCOPE', 40)
    from . import c12
    c12.check_headers(cx, rep)
    rep.assumptions += ['rustc type/borrow checks of generated code against arbitrary user types are not modelled',
                        'syn parses the Rust grammar; quote!/ToTokens print nodes that re-parse in the same category']
    rep.not_decided += ['type and borrow checking of the generated code for concrete user types', 'lints inside expansions',
                        'the converse clause (every documented form accepted) is decided in C13/C14 tables']
    from .members import check_members
    from ..facts import Facts as _Facts
    check_members(cx, rep, _Facts(cx))
    rep.floor('GEN-MEMBER', 25, '(33 member accesses today)')
    # a missing automatic bound makes the generated impl fail to type-check for generic types: the BND / BOUND-USE rules of C11/C12
    from .c11 import check_handler as _bnd_handler
    from .c12 import check_bound_tables as _bound_tables
    from ..report import Report as _Report
    sub = _Report('C01')
    f2_ = _Facts(cx)
    for t_, sh_, fn_ in cx.shape_handlers():
        _bnd_handler(cx, fn_, t_, sh_, sub, f2_)
    _bound_tables(cx, sub)
    for fnd in sub.findings:
        if fnd.rule in ('BND', 'BOUND-USE') and not any(x.key == fnd.key for x in rep.findings):
            rep.findings.append(fnd)
    for r_, i_, v_ in sub.checked:
        if r_ in ('BND', 'BOUND-USE'):
            rep.checked.append((r_, i_, v_))
            rep.counts[r_] = rep.counts.get(r_, 0) + 1
    # names: a clash between a template-fixed generic / binder and the user's names does not compile (GEN-CLASH, TPL-ABS, .. of C19);
    # a panic is neither a diagnostic nor compiling code (PANIC census of C17, without the MIR cross-check)
    from . import c19 as _c19, c17 as _c17
    from ..callgraph import CallGraph as _CG
    from ..metafacts import MetaFacts as _MF
    subn = _Report('C01')
    for fn_ in cx.handler_fns():
        try:
            _c19.analyse_tree(cx, fn_, subn)
        except Exception as e_:
            subn.bad('UNANALYSABLE', fn_.qname, 'name-rules', 'name-resolution rules could not be evaluated: %r' % (e_,), fn_.file, fn_.line)
    cg_ = _CG(cx)
    dis_ = _c17.Discharger(cx, cg_, _MF(cx, cg_))
    sites_ = _c17.census(cx, list(cx.crate.fns))
    for s_ in sites_:
        if s_.kind == 'loop':
            continue
        r_ = dis_.discharge(s_)
        inst_ = '%s=%s' % (s_.kind, s_.what)
        if r_ or (id(s_.fw.fn) in getattr(cx.crate, 'fully_inlined', ()) and _c17.copy_elsewhere(sites_, s_)):
            subn.ok('PANIC', '%s|%s|%s' % (s_.where, inst_, _c17.ctx_hash(s_)))
        else:
            subn.bad('PANIC', s_.where, inst_, 'panic-capable site with no discharge proof: `%s`' % s_.what, s_.fw.fn.file, s_.ev.line)
    for fnd in subn.findings:
        if not any(x.key == fnd.key for x in rep.findings):
            rep.findings.append(fnd)
    for r_, i_, v_ in subn.checked:
        rep.checked.append((r_, i_, v_))
        rep.counts[r_] = rep.counts.get(r_, 0) + 1
    # pattern arity: a variant pattern that receives no element, or two, for one field (`..` twice in a tuple pattern, a position
    # shifted) does not compile: the `pattern-once` obligations of the semantic summaries (C02, C03, C05, C07) are part of C01
    from . import c02 as _c02, c03 as _c03, c05 as _c05, c07 as _c07
    npo_ = 0
    for m_ in (_c02, _c03, _c05, _c07):
        try:
            subp = m_.run(cx, tier)
        except Exception as e_:
            rep.broken.append('pattern-once rules of %s could not be evaluated: %r' % (m_.__name__, e_))
            continue
        for fnd in subp.findings:
            if 'pattern-once' in fnd.instance and not any(x.key == fnd.key for x in rep.findings):
                rep.findings.append(fnd)
        for r_, i_, v_ in subp.checked:
            if 'pattern-once' in i_:
                rep.checked.append((r_, i_, v_))
                rep.counts[r_] = rep.counts.get(r_, 0) + 1
                npo_ += 1
    if npo_ < 10:
        rep.broken.append('pattern-once obligations: %d evaluated, fewer than the 10 counted by hand' % npo_)
    return rep


def S_sha(s):
    from ..syn import sha
    return sha(s)[:8]


def hole_positions(s):
    out = {}
    for (h, pos, node) in find_markers(s.ast, s.cat):
        out.setdefault(h, []).append(pos)
    return out


def check_opt(cx, facts, fn, s, rep):
    where = fn.qname
    fw = s.tmpl.fw
    pos = hole_positions(s)
    eff = None
    for h in s.tmpl.holes:
        cls = cx.gm.hole_class(s.tmpl, h)
        if cls in ('acc', 'generics:impl', 'generics:ty', 'generics:where'):
            continue
        if cls == 'stream':
            # stream-valued: optional leaves are fine only in list-like positions
            kids = getattr(s, 'kids', {}).get(h)
            if kids:
                p, ch = kids
                empties = [c for c in ch if isinstance(c, Leaf) and c.kind == 'empty']
                if empties and POS2CAT.get(p) in ('expr', 'type'):
                    rep.bad('TPL-OPT', where, 'stream-hole=%s' % h, 'optional token stream `#%s` may be empty in %s position' % (h, p), s.tmpl.file, s.tmpl.line)
                else:
                    rep.ok('TPL-OPT', '%s|stream-hole=%s@%s' % (where, h, p))
            continue
        t = s.tmpl.hole_term(h)
        if s.leaf is not None and s.leaf.via and isinstance(t, tuple) and t[0] == 'param':
            # helper-function parameter: classify the caller's argument
            callee_fw, call, cscope, cfw = s.leaf.via[-1]
            names = [p_[0] for p_ in callee_fw.fn.params() if p_[0] != 'self']
            if t[1] in names and names.index(t[1]) < len(call['args']):
                t2 = cx.gm.terms_of(cfw).term(call['args'][names.index(t[1])], cscope)
                oc = facts.opt_class(t2, cfw)
                fw_for_atoms = cfw
                t = t2
            else:
                oc = facts.opt_class(t, fw)
                fw_for_atoms = fw
        else:
            oc = facts.opt_class(t, fw)
            fw_for_atoms = fw
        if oc in ('no', 'some'):
            continue
        ps = pos.get(h, [])
        if eff is None:
            eff = facts.atoms(facts.effective_ctx(s.ctx, cx.fw(fn)), cx.fw(fn))
        proven = any(a[0] == 'some' and a[2] is True and a[1] == t for a in eff)
        for p in ps or ['?']:
            inst = 'hole=%s@%s' % (h, p.split(':')[0])
            if p.startswith('macarg'):
                rep.ok('TPL-OPT', '%s|%s|in-macro-args' % (where, inst), {'file': s.tmpl.file, 'line': s.tmpl.line, 'hole': h, 'position': p, 'why': 'inside macro arguments: emptiness keeps syntax'})
            elif proven:
                rep.ok('TPL-OPT', '%s|%s|guarded' % (where, inst), {'file': s.tmpl.file, 'line': s.tmpl.line, 'hole': h, 'position': p, 'why': 'dominating guard proves Some'})
            else:
                rep.bad('TPL-OPT', where, inst,
                        '`#%s` is an Option that may be None here (it then prints nothing), in %s position: the generated code loses an argument/operand (context: %s)' % (h, p, ctx_s(s.ctx)[:240]),
                        s.tmpl.file, s.tmpl.line, {'template': s.tmpl.text()[:300], 'term': term_s(t)})


def check_arity(cx, fn, s, rep):
    where = fn.qname

    def cb(role, node, extra):
        if role == 'mcall':
            m = node['method']
            if m in CORE_ARITY or m == 'field':
                n = len(node['args'])
                if any(a['k'] == 'Path' and is_marker(a['path']['s']) and cx.gm.hole_class(s.tmpl, marker_name(a['path']['s'])) in ('acc', 'stream') for a in node['args']):
                    return
                if m == 'field':
                    if n in (1, 2):
                        rep.ok('TPL-ARITY', '%s|.field/%d' % (where, n))
                    else:
                        rep.bad('TPL-ARITY', where, '.field/%d' % n, 'builder `.field` called with %d arguments' % n, s.tmpl.file, s.tmpl.line)
                    return
                if n != CORE_ARITY[m]:
                    rep.bad('TPL-ARITY', where, '.%s/%d' % (m, n), '`.%s` expects %d argument(s), the template passes %d' % (m, CORE_ARITY[m], n), s.tmpl.file, s.tmpl.line,
                            {'template': s.tmpl.text()[:300]})
                else:
                    rep.ok('TPL-ARITY', '%s|.%s/%d' % (where, m, n))
        elif role == 'call':
            f = node['func']
            if f['k'] == 'Path':
                p = f['path']['s']
                if p in CORE_ARITY:
                    n = len(node['args'])
                    if any(a['k'] == 'Path' and is_marker(a['path']['s']) and cx.gm.hole_class(s.tmpl, marker_name(a['path']['s'])) in ('acc', 'stream') for a in node['args']):
                        return
                    if n != CORE_ARITY[p]:
                        rep.bad('TPL-ARITY', where, '%s/%d' % (p, n), '`%s` expects %d argument(s), the template passes %d' % (p, CORE_ARITY[p], n), s.tmpl.file, s.tmpl.line,
                                {'template': s.tmpl.text()[:300]})
                    else:
                        rep.ok('TPL-ARITY', '%s|%s/%d' % (where, p, n))
    visit(s.ast, s.cat, cb)


def root_fn_of(site):
    """(root site, name of the generated fn) — approximated by the root template"""
    r = site
    while r.parent is not None:
        r = r.parent
    return r


def check_scope(cx, facts, fn, sites, rep):
    where = fn.qname
    fw = cx.fw(fn)
    binders = []   # (root, term, atoms set, site, hole)
    uses = []
    for s in sites:
        if s.ast is None:
            continue
        root = root_fn_of(s)
        atoms = None
        for (h, pos, node) in find_markers(s.ast, s.cat):
            cls = cx.gm.hole_class(s.tmpl, h)
            if cls != 'scalar':
                continue
            t = s.tmpl.hole_term(h)
            if not ident_like(t):
                continue
            if atoms is None:
                atoms = frozenset(a for a in facts.atoms(facts.effective_ctx(s.ctx, fw), fw))
            if pos in BIND_POS:
                binders.append((root, t, atoms, s, h))
            elif pos in USE_POS:
                uses.append((root, t, atoms, s, h, pos))
    for root, t, atoms, s, h, pos in uses:
        cands = [b for b in binders if b[0] is root and b[1] == t]
        ok = [b for b in cands if b[2] <= atoms]
        inst = 'use=%s' % h
        if ok:
            rep.ok('GEN-SCOPE', '%s|%s|%s' % (where, inst, S_sha(s.tmpl.text())),
                   {'file': s.tmpl.file, 'line': s.tmpl.line, 'use': '#' + h, 'bound_by': ok[0][3].tmpl.loc(), 'term': term_s(t, 100)})
        elif cands:
            missing = sorted(atom_s(a) for a in (cands[0][2] - atoms))
            rep.bad('GEN-SCOPE', where, inst,
                    'generated code uses `#%s` as a variable, but the pattern binding it is emitted only under extra conditions %s — on the other paths the variable is unbound (E0425)' % (h, missing),
                    s.tmpl.file, s.tmpl.line, {'template': s.tmpl.text()[:300], 'binder': cands[0][3].tmpl.loc()})
        else:
            rep.bad('GEN-SCOPE', where, inst,
                    'generated code uses `#%s` as a variable, but no pattern in the same generated item binds that identifier (term %s)' % (h, term_s(t, 120)),
                    s.tmpl.file, s.tmpl.line, {'template': s.tmpl.text()[:300]})
    # injectivity: two different binder terms with the same format prefix in one root would shadow each other — covered by C19 GEN-INJ
