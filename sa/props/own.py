"""Rules that every per-trait behavioural property (C02–C10, C20) re-evaluates for its own handlers: an impl that does not parse, does not
name-resolve, lacks a bound or binds the wrong member does not have the documented behaviour either — it does not compile, or only for
some types.  TPL-PARSE / TPL-OPT / TPL-ARITY / GEN-SCOPE (C01), GEN-MEMBER, BND (C11), TPL-ABS / TPL-ROOT / TPL-RECV / GEN-CLASH (C19)."""
from ..report import Report
from ..facts import Facts
from ..syn import es
from ..walk import ctx_s


def include_generic_rules(cx, rep, needles):
    from . import c01, c11, c19
    from .members import check_members
    sub = Report(rep.prop)
    facts = Facts(cx)
    for fn in cx.handler_fns():
        if not any(x in fn.qname for x in needles):
            continue
        sites, bad = cx.all_sites(fn)
        where = fn.qname
        for lf in bad:
            sub.bad('TPL-PARSE', where, 'emission=%s' % (es(lf.expr)[:80] if lf.expr else lf.kind),
                    'emission whose content is not a template, an accumulator or a crate-local template-returning function', fn.file,
                    lf.event.line if lf.event else fn.line)
        for s in sites:
            if s.ast is None:
                sub.bad('TPL-PARSE', where, 'template-in-%s' % (s.cat or '?'),
                        'template does not parse as %s where it is interpolated (hole `#%s`): %s' % (s.cat, s.hole, s.err), s.tmpl.file, s.tmpl.line)
                continue
            sub.ok('TPL-PARSE', '%s|%s|%s' % (where, c01.S_sha(s.tmpl.text()), s.cat))
            c01.check_opt(cx, facts, fn, s, sub)
            c01.check_arity(cx, fn, s, sub)
            c01.check_separator(cx, fn, s, sub)
        c01.check_scope(cx, facts, fn, sites, sub)
        try:
            c19.analyse_tree(cx, fn, sub)
        except Exception as e:      # fail closed
            sub.bad('UNANALYSABLE', where, 'name-rules', 'name-resolution rules could not be evaluated: %r' % (e,), fn.file, fn.line)
    check_members(cx, sub, facts, needles)
    from .c14 import include_merge
    include_merge(cx, sub)
    from .dispatch import check_shape_dispatch
    check_shape_dispatch(cx, sub, needles)
    from .dispatch import check_output_append
    check_output_append(cx, sub, needles)
    for t_, sh_, fn_ in cx.shape_handlers():
        if any(x in fn_.qname for x in needles):
            c11.check_handler(cx, fn_, t_, sh_, sub, facts)
    for fnd in sub.findings:
        if not any(x.key == fnd.key for x in rep.findings):
            rep.findings.append(fnd)
    for r_, i_, v_ in sub.checked:
        rep.checked.append((r_, i_, v_))
        rep.counts[r_] = rep.counts.get(r_, 0) + 1
