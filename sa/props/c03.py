"""C03 — ordering is lexicographic over non-ignored fields in rank order.

SUM-ORD (on the generated-code model of the four Ord / PartialOrd struct+enum handlers):
  * fields are first collected into an *ordered* map keyed by their rank (BTreeMap<isize, _>), one entry per non-ignored field,
    a repeated rank being rejected; the default rank is `isize::MIN + <declaration index>` of that same field;
  * the comparison statements are emitted by iterating that map in ascending key order, one statement per entry;
  * each statement is *decisive-or-continue*: `match CMP(l, r) { Equal => (), o => return o }` (PartialOrd: the Some-wrapped
    form with `None => return None`), l/r the self/other accesses of that same field, self first; CMP = the field's own method
    iff given, else ::core::cmp::Ord::cmp / ::core::cmp::PartialOrd::partial_cmp; the tail is Equal / Some(Equal);
  * enums: one arm per variant, same-variant patterns, one pattern element per field;
  * consistency: the Ord handler emits the PartialOrd companion `Some(Ord::cmp(self, other))` iff PartialOrd is educed, and the
    PartialOrd handler emits nothing when Ord is educed; Ord's scanners accept PartialOrd(..) metas (SCAN).
"""
from ..report import Report
from ..syn import es, pat_s, ty_s
from ..terms import term_s, subterms
from ..summ import (Summ, access, call_parts, block_stmts, is_return, is_path, marker_stmts, marker_of_pat, marker_of_expr, member_of_loop,
                    pattern_model, pattern_once, FieldStmts, struct_member_resolver, binder_resolver, variant_arms, atoms_after_loop)
from ..facts import Facts, atom_s
from ..genast import is_marker, marker_name

ORDG = '::core::cmp::Ordering::'
SOME = '::core::option::Option::Some'
NONE = '::core::option::Option::None'


def ord_const(e, partial):
    """'Equal'|'Greater'|'Less' if e is that Ordering constant (Some-wrapped for partial), 'None' for Option::None"""
    if partial:
        if e['k'] == 'Path' and e['path']['s'] == NONE:
            return 'None'
        if e['k'] == 'Call' and e['func']['k'] == 'Path' and e['func']['path']['s'] == SOME and len(e['args']) == 1:
            return ord_const(e['args'][0], False)
        return None
    if e['k'] == 'Path' and e['path']['s'].startswith(ORDG):
        return e['path']['s'][len(ORDG):]
    return None


def ord_pat(p, partial):
    if partial:
        if p['k'] in ('Path', 'Ident') and (p.get('path', {}).get('s') == NONE):
            return 'None'
        if p['k'] == 'TupleStruct' and p['path']['s'] == SOME and len(p['elems']) == 1:
            return ord_pat(p['elems'][0], False)
        return None
    if p['k'] == 'Path' and p['path']['s'].startswith(ORDG):
        return p['path']['s'][len(ORDG):]
    return None


def decisive_or_continue(stmt, partial):
    """match CMP(a, b) { Equal => (), X => return X ... } -> (callee kind, callee, a, b) or error string"""
    if stmt['k'] != 'Expr' or stmt['expr']['k'] != 'Match':
        return 'not a `match CMP(l, r) { .. }` statement'
    m = stmt['expr']
    cp = call_parts(m['expr'])
    if cp is None or len(cp[2]) != 2:
        return 'the scrutinee is not a two-argument comparison call'
    seen = {}
    for a in m['arms']:
        if a.get('guard') is not None:
            return 'match arm with a guard'
        k = ord_pat(a['pat'], partial)
        if k is None:
            # binding arm `o => return o`
            if a['pat']['k'] == 'Ident' and not a['pat']['name'][:1].isupper():
                b = a['body']
                if b['k'] == 'Return' and b.get('expr') is not None and b['expr']['k'] == 'Path' and b['expr']['path']['s'] == a['pat']['name']:
                    for x in (('Greater', 'Less', 'None') if partial else ('Greater', 'Less')):
                        seen.setdefault(x, 'return-same')
                    continue
            return 'unrecognised arm pattern `%s`' % pat_s(a['pat'])
        b = a['body']
        if k == 'Equal':
            if b['k'] == 'Tuple' and not b['elems']:
                seen['Equal'] = 'continue'
            elif b['k'] == 'Block' and not b['stmts']:
                seen['Equal'] = 'continue'
            else:
                return 'on Equal the comparison does not fall through to the next field (`%s`)' % es(b)[:50]
        else:
            if b['k'] == 'Return' and b.get('expr') is not None and ord_const(b['expr'], partial) == k:
                seen[k] = 'return-same'
            else:
                return 'on %s the generated code does `%s` instead of returning %s' % (k, es(b)[:60], k)
    need = ['Equal', 'Greater', 'Less'] + (['None'] if partial else [])
    for k in need:
        if k not in seen:
            return 'no arm for %s' % k
    if seen['Equal'] != 'continue':
        return 'Equal does not continue'
    kind, callee, args = cp
    if kind == 'hole':
        return [('method', callee, args)]
    return [('builtin', callee, args)]


class OrdChecker:
    def __init__(self, cx, fn, rep, facts, partial):
        self.S = Summ(cx, fn, rep, facts)
        self.cx = cx
        self.fn = fn
        self.partial = partial
        self.trait = '::core::cmp::PartialOrd' if partial else '::core::cmp::Ord'
        self.fname = 'partial_cmp' if partial else 'cmp'
        self.builtin = '::core::cmp::PartialOrd::partial_cmp' if partial else '::core::cmp::Ord::cmp'

    def header(self):
        S = self.S
        impls = [(s, it) for s, it in S.impl_of(self.trait) if not S.atoms(s)]
        if len(impls) != 1:
            S.bad('SUM-ORD', 'impl', 'expected exactly one unconditional `impl %s` emission, found %d' % (self.trait, len(impls)))
            return None
        site, impl = impls[0]
        fns = S.fns_of(impl)
        if len(fns) != 1 or fns[0]['sig']['name'] != self.fname:
            S.bad('SUM-ORD', 'impl-fns', 'the impl must define exactly `fn %s` (found %s)' % (self.fname, [f['sig']['name'] for f in fns]), site)
            return None
        f = fns[0]
        ins = f['sig']['inputs']
        out = ty_s(f['sig']['output']).replace(' ', '') if f['sig']['output'] else ''
        expout = '::core::option::Option<::core::cmp::Ordering>' if self.partial else '::core::cmp::Ordering'
        if not (len(ins) == 2 and ins[0]['k'] == 'Self' and ins[0]['ref'] and not ins[0]['mut'] and ins[1]['k'] == 'Typed'
                and ins[1]['pat'].get('name') == 'other' and ty_s(ins[1]['ty']).replace(' ', '') == '&Self' and out == expout):
            S.bad('SUM-ORD', 'signature', 'unexpected signature of fn %s' % self.fname, site)
            return None
        return site, f

    # ---- the collect-then-emit discipline -------------------------------------------------------
    def rank_discipline(self, s, atoms, L, label):
        """the statement site must be reached through an ordered map keyed by this field's rank"""
        S = self.S
        vias = [c for c in S.eff_ctx(s.ctx) if c['k'] == 'via']
        vias = [c for c in vias if any(x is c['push'] for x in [c['push']])]
        if len(vias) != 1:
            S.bad('SUM-ORD', label + '-collection', 'comparison statements are not emitted from the rank-ordered collection (found %d collections)' % len(vias), s)
            return False
        v = vias[0]
        d = v['coll']
        info = v['info']
        tytxt = (ty_s(d.ty) if d.ty else '') + ' ' + (es(d.init) if d.init else '')
        good = True
        if 'BTreeMap' not in tytxt:
            S.bad('SUM-ORD', label + '-ordered-map', 'fields are collected in `%s`, which does not iterate in ascending key order (a BTreeMap keyed by rank is required)' % tytxt.strip()[:60], s)
            good = False
        if d.ty is not None and 'BTreeMap<isize' not in ty_s(d.ty).replace(' ', ''):
            S.bad('SUM-ORD', label + '-key-type', 'rank keys are not `isize`', s)
            good = False
        if v['kind'] != 'insert' or info.rev or info.adaptors or info.method not in ('values', 'iter', 'into_iter', 'into_values', None):
            S.bad('SUM-ORD', label + '-iteration', 'the rank map is not iterated in ascending order over all entries (`%s`)' % es(v['loop']['iter']), s)
            good = False
        # key = this field's rank attribute
        kt = S.tm.term(v['key'], v['push'].scope)
        if not S.attr_rec_ok(kt, L, 'rank'):
            S.bad('SUM-ORD', label + '-key', 'the map key is not this field\'s `rank` attribute (term %s)' % term_s(kt, 100), s)
            good = False
        else:
            # builder default rank = isize::MIN + index of the same loop
            rec = kt[1]
            b = S.facts.builder_call(rec)
            default = None
            if b:
                for x in b[0][2:]:
                    if isinstance(x, tuple) and x[0] == 'rank':
                        default = x[1]
            exp = ('bin', '+', ('path', 'isize::MIN'), ('cast', ('idx', L), 'isize'))
            if default != exp:
                S.bad('SUM-ORD', label + '-default-rank', 'the default rank is not `isize::MIN + <declaration index> as isize` of the same field (found %s)' % term_s(default, 100), s)
                good = False
        # duplicate ranks rejected: the insertion is dominated by ¬contains_key(rank)
        mapterm = ('var', d.id, d.name)
        has = [a for a in atoms if a[0] == 'haskey' and a[1] == mapterm and a[3] is False and a[2] == kt]
        if not has:
            S.bad('SUM-ORD', label + '-duplicate-rank', 'two fields with the same rank are not rejected before insertion (the later one would silently replace the earlier)', s)
            good = False
        return good

    def allowed_extra(self, a, L):
        if a[0] == 'haskey':
            return a[3] is False
        return False

    def check_fields(self, sites, label, loop_kind, resolver):
        S = self.S
        fs = FieldStmts(S, 'SUM-ORD')
        partial = self.partial

        def match_stmt(s):
            st = s.ast if s.cat == 'stmts' else None
            if st is None or len(st) != 1:
                return 'a per-field emission is not a single statement'
            return decisive_or_continue(st[0], partial)
        ok = fs.run(sites, label, loop_kind, match_stmt, resolver, allowed_extra=self.allowed_extra, builtin_for={self.builtin})
        for s in sites:
            atoms = S.atoms(s)
            la, lk = S.field_loop(atoms)
            if la is not None:
                ok = self.rank_discipline(s, atoms, la[1], label) and ok
        return ok

    def tail_ok(self, e):
        return ord_const(e, self.partial) == 'Equal'


def check_struct(cx, fn, rep, facts, partial):
    C = OrdChecker(cx, fn, rep, facts, partial)
    S = C.S
    h = C.header()
    if h is None:
        return
    site, f = h
    st = f['block']['stmts']
    if not st or st[-1]['k'] != 'Expr' or st[-1]['semi'] or not C.tail_ok(st[-1]['expr']):
        S.bad('SUM-ORD', 'tail', 'the body does not end in Equal: all-equal fields must compare Equal', site)
        return
    ms = marker_stmts(st[:-1])
    if len(ms) != len(st) - 1:
        S.bad('SUM-ORD', 'body', 'the body contains fixed statements besides the per-field comparisons', site)
        return
    sites = []
    for _, hname in ms:
        sites += S.kids(site, hname)
    ok = C.check_fields(sites, 'struct', 'struct', struct_member_resolver(S, [('self', 1, False), ('other', 1, False)]))
    if ok:
        S.ok('SUM-ORD', 'struct', {'handler': fn.qname, 'statement': sites[0].tmpl.text()[:160]})


def check_enum(cx, fn, rep, facts, partial):
    C = OrdChecker(cx, fn, rep, facts, partial)
    S = C.S
    h = C.header()
    if h is None:
        return
    site, f = h
    st = f['block']['stmts']
    ms = marker_stmts(st)
    if len(ms) != 1 or len(st) != 1:
        S.bad('SUM-ORD', 'enum-body', 'the body is not a single composed expression', site)
        return
    bodies = S.kids(site, ms[0][1])
    allok = True
    general = None
    for b in bodies:
        atoms = S.atoms(b)
        e = b.ast[0]['expr'] if b.cat == 'stmts' and len(b.ast) == 1 and b.ast[0]['k'] == 'Expr' else None
        if e is None:
            S.bad('SUM-ORD', 'enum-body-form', 'unexpected body form', b)
            allok = False
            continue
        if e['k'] != 'Match':
            from ..emptiness import empty_evidence
            if not (len(atoms) == 1 and empty_evidence(atoms, S.cx, S.fw) and C.tail_ok(e)):
                S.bad('SUM-ORD', 'enum-empty', 'constant result emitted outside the empty-enum case or not Equal', b)
                allok = False
            continue
        # match #discriminant_cmp { Equal => .., Greater => Greater, Less => Less }: shape decided by C04 (DISCR-DOM); here the Equal arm
        eq_arms = [a for a in e['arms'] if pat_s(a['pat']) == ORDG + 'Equal']
        if len(eq_arms) != 1:
            S.bad('SUM-ORD', 'enum-equal-arm', 'no single Equal arm in the discriminant match', b)
            allok = False
            continue
        body = eq_arms[0]['body']
        unit_flags = [a for a in atoms if a[0] == 'truth' and isinstance(a[1], tuple) and a[1][0] == 'var']
        if body['k'] != 'Block':
            # all-unit form: Equal => Equal — only valid when no variant has fields
            if not C.tail_ok(body):
                S.bad('SUM-ORD', 'enum-all-unit', 'all-unit form does not yield Equal for equal discriminants', b)
                allok = False
            if not ((len(unit_flags) == 1 and unit_flags[0][2] is True and check_all_unit_flag(C, unit_flags[0][1], b)) or all_unit_predicate_guard(S, b)):
                S.bad('SUM-ORD', 'enum-all-unit-guard',
                      'the form without field comparison is not guarded by a flag that is cleared for every variant with fields', b)
                allok = False
            continue
        general = (b, body)
        bst = body['stmts']
        if not (len(bst) == 2 and bst[0]['k'] == 'Expr' and bst[0]['expr']['k'] == 'Match' and es(bst[0]['expr']['expr']) == 'self'
                and bst[1]['k'] == 'Expr' and not bst[1]['semi'] and C.tail_ok(bst[1]['expr'])):
            S.bad('SUM-ORD', 'enum-equal-body', 'for equal discriminants the code is not `match self { <arms> } Equal`', b)
            allok = False
            continue
        m = bst[0]['expr']
        if len(m['arms']) != 1 or marker_of_pat(m['arms'][0]['pat']) is None:
            S.bad('SUM-ORD', 'enum-arms', '`match self` does not consist of the per-variant arms', b)
            allok = False
            continue
        by_shape = variant_arms(S, 'SUM-ORD', b, marker_of_pat(m['arms'][0]['pat']))
        if by_shape is None:
            allok = False
            continue
        for sh, lst in by_shape.items():
            a, V = lst[0]
            allok = check_arm(C, a, V, sh) and allok
    if general is None:
        S.bad('SUM-ORD', 'enum-general', 'no general (with-fields) form of the comparison is emitted', site)
        allok = False
    if allok:
        S.ok('SUM-ORD', 'enum', {'handler': fn.qname})


def all_unit_predicate_guard(S, site):
    """the site is emitted under `if all_unit` where `all_unit` is an immutable
    `<enum data>.variants.iter().all(|v| matches!(v.fields, Fields::Unit))` (possibly inside `match &ast.data { Data::Enum(data) => .., _ => true }`)"""
    import re
    for c in S.eff_ctx(site.ctx):
        if c['k'] != 'if' or not c['pol'] or c['cond']['k'] != 'Path' or len(c['cond']['path']['segs']) != 1:
            continue
        d = c['scope'].lookup(c['cond']['path']['s']) if c.get('scope') is not None else None
        if d is None or d.kind != 'let' or d.mutable or d.assigns or d.init is None:
            continue
        t = es(d.init).replace(' ', '')
        m = re.match(r'^match&?ast\.data\{Data::Enum\((\w+)\)=>\{?(.*?)\}?,_=>true,?\}$', t)
        if m:
            t = m.group(2)
            dat = m.group(1)
        else:
            dat = 'data'
        if re.match(r'^%s\.variants\.iter\(\)\.all\(\|(\w+)\|matches!\(\1\.fields,(syn::)?Fields::Unit\)\)$' % re.escape(dat), t):
            return True
    return False


def check_all_unit_flag(C, flagterm, site):
    """`let mut all_unit = true;` cleared (= false) unconditionally in the Named and Unnamed variant arms"""
    S = C.S
    d = S.tm.def_by_id(flagterm[1])
    if d is None or d.init is None or es(d.init) != 'true':
        return False
    shapes = set()
    for a in d.assigns:
        if es(a.value) != 'false':
            return False
        atoms = S.facts.atoms(a.ctx, S.fw)
        vl = S.variant_loop(atoms)
        if vl is None:
            return False
        sh = [x for x in atoms if x[0] == 'shape' and x[1] == ('field', ('elem', vl[1]), 'fields') and x[3] is True]
        extra = [x for x in atoms_after_loop(atoms, vl[1]) if x not in sh]
        if len(sh) != 1 or extra:
            return False
        shapes.add(sh[0][2])
    return shapes == {'Named', 'Unnamed'}


def check_arm(C, a, V, sh):
    S = C.S
    arms = a.ast if a.cat == 'arms' else None
    if not arms or len(arms) != 1 or arms[0].get('guard') is not None:
        S.bad('SUM-ORD', 'arm-%s' % sh, 'arm template is not a single unguarded match arm', a)
        return False
    arm = arms[0]
    pself = pattern_model(S, a, arm['pat'], 'self')
    if pself is None or pself.variant_term != ('field', ('elem', V), 'ident'):
        S.bad('SUM-ORD', 'arm-%s-pattern' % sh, 'the arm pattern is not `Self::<this variant> ..`', a)
        return False
    body = block_stmts(arm['body'])
    if sh == 'Unit':
        if not (len(body) == 1 and body[0]['k'] == 'Expr' and is_return(body[0]['expr'], C.tail_ok)) and body:
            S.bad('SUM-ORD', 'arm-Unit-body', 'two values of the same unit variant must compare Equal', a)
            return False
        return True
    if len(body) != 1 or body[0]['k'] != 'Expr' or body[0]['expr']['k'] != 'If' or body[0]['expr']['cond']['k'] != 'Let':
        S.bad('SUM-ORD', 'arm-%s-body' % sh, 'the arm body is not `if let Self::V .. = other { .. }`', a)
        return False
    iff = body[0]['expr']
    if es(iff['cond']['expr']) != 'other':
        S.bad('SUM-ORD', 'arm-%s-scrutinee' % sh, 'the inner pattern is matched against `%s`, not `other`' % es(iff['cond']['expr']), a)
        return False
    pother = pattern_model(S, a, iff['cond']['pat'], 'other')
    if pother is None or pother.variant_term != pself.variant_term:
        S.bad('SUM-ORD', 'arm-%s-other-pattern' % sh, 'the `other` pattern does not name the same variant', a)
        return False
    expkind = {'Named': 'named', 'Unnamed': 'tuple'}[sh]
    if pself.kind != expkind or pother.kind != expkind or pself.problems or pother.problems:
        S.bad('SUM-ORD', 'arm-%s-pattern-kind' % sh, 'pattern kinds %s/%s do not fit (%s)' % (pself.kind, pother.kind, pself.problems + pother.problems), a)
        return False
    then = iff['then']['stmts']
    ms = marker_stmts(then)
    if len(ms) != len(then) or len(ms) != 1:
        S.bad('SUM-ORD', 'arm-%s-then' % sh, 'the same-variant branch is not exactly the per-field comparisons', a)
        return False
    ok = pattern_once(S, pself, 'SUM-ORD', 'arm-%s-self' % sh) and pattern_once(S, pother, 'SUM-ORD', 'arm-%s-other' % sh)
    sites = S.kids(a, ms[0][1])
    ok = C.check_fields(sites, 'arm-%s' % sh, 'variant', binder_resolver(S, [pself, pother])) and ok
    return ok


def check_companion(cx, fn, rep, facts):
    """Ord handlers: PartialOrd companion iff PartialOrd educed, body Some(Ord::cmp(self, other))"""
    S = Summ(cx, fn, rep, facts)
    comps = S.impl_of('::core::cmp::PartialOrd')
    if len(comps) != 1:
        S.bad('SUM-ORD', 'companion', 'expected one PartialOrd companion impl in the Ord handler, found %d' % len(comps))
        return
    site, impl = comps[0]
    atoms = [a for a in S.atoms(site) if a[0] != 'cfg']
    if atoms != [('educed', 'PartialOrd', True)]:
        S.bad('SUM-ORD', 'companion-guard', 'the PartialOrd companion is emitted under %s (expected: iff PartialOrd is educed)' % [atom_s(a) for a in atoms], site)
        return
    fns = S.fns_of(impl)
    ok = False
    if len(fns) == 1 and fns[0]['sig']['name'] == 'partial_cmp':
        st = fns[0]['block']['stmts']
        if len(st) == 1 and st[0]['k'] == 'Expr' and not st[0]['semi']:
            e = st[0]['expr']
            if e['k'] == 'Call' and es(e['func']) == SOME and len(e['args']) == 1:
                c = e['args'][0]
                if c['k'] == 'Call' and es(c['func']) == '::core::cmp::Ord::cmp' and [es(x) for x in c['args']] == ['self', 'other']:
                    ok = True
    if ok:
        S.ok('SUM-ORD', 'companion', {'handler': fn.qname, 'body': 'Some(Ord::cmp(self, other))'})
    else:
        S.bad('SUM-ORD', 'companion-body', 'partial_cmp of the companion is not `Some(::core::cmp::Ord::cmp(self, other))`', site)


def check_partial_ord_top(cx, rep, facts):
    tops = [f for f in cx.handler_fns() if cx.trait_of_module(f.module) == 'PartialOrd' and len(f.module.path) == 2]
    if len(tops) != 1:
        rep.broken.append('PartialOrd top handler not found')
        return
    fn = tops[0]
    S = Summ(cx, fn, rep, facts)
    fw = cx.fw(fn)
    # no emission in the top handler itself; sub-handlers only under ¬educed(Ord)
    em = S.hg.emissions(fw)
    if em:
        S.bad('SUM-ORD', 'top-emits', 'the PartialOrd dispatcher emits code itself')
        return
    good = True
    n = 0
    for ev in fw.events:
        if ev.kind == 'call' and ev.path and ev.path.endswith('trait_meta_handler'):
            n += 1
            at = facts.atoms(ev.ctx, fw)
            if ('educed', 'Ord', False) not in at:
                S.bad('SUM-ORD', 'top-guard', 'a PartialOrd sub-handler runs even when Ord is educed (two PartialOrd impls / inconsistent with Ord)', line=ev.line)
                good = False
    if good and n >= 2:
        S.ok('SUM-ORD', 'partial_ord-dispatch', {'handler': fn.qname, 'sub_handlers_under': '!educed(Ord)'})
    elif n < 2:
        S.bad('SUM-ORD', 'top-calls', 'struct/enum sub-handlers not found in the PartialOrd dispatcher')


def run(cx, tier='quick'):
    rep = Report('C03')
    rep.explanation.append(
        'SUM-ORD: semantic summary of the generated cmp / partial_cmp of the four struct+enum handlers: rank-keyed BTreeMap with '
        'default rank isize::MIN+index and duplicate-rank rejection, ascending iteration, one decisive-or-continue statement per '
        'non-ignored field with self/other accesses of that same field (self first), method iff given, tail Equal; per-variant arms '
        'with same-variant patterns; all-unit shortcut guarded by a flag cleared for every variant with fields; Ord↔PartialOrd '
        'consistency (companion impl, dispatcher guard, synonym scanners). Rank spellings: HELP table of meta_2_isize (C14).')
    facts = Facts(cx)
    n = 0
    for t, sh, fn in cx.shape_handlers():
        if t in ('Ord', 'PartialOrd') and sh in ('struct', 'enum'):
            n += 1
            partial = (t == 'PartialOrd')
            if sh == 'struct':
                check_struct(cx, fn, rep, facts, partial)
            else:
                check_enum(cx, fn, rep, facts, partial)
            if t == 'Ord':
                check_companion(cx, fn, rep, facts)
    if n != 4:
        rep.broken.append('expected 4 Ord/PartialOrd struct+enum handlers, found %d' % n)
    check_partial_ord_top(cx, rep, facts)
    from .c13 import check_scanners
    sub = Report('C03')
    check_scanners(cx, facts, sub)
    for fnd in sub.findings:
        if '::ord::' in fnd.where or '::partial_ord::' in fnd.where:
            rep.findings.append(fnd)
    k = 0
    for r, i, v in sub.checked:
        if '::ord::' in i or '::partial_ord::' in i:
            rep.checked.append((r, i, v))
            k += 1
    rep.counts['SCAN'] = k
    # rank helper table (shared with C14)
    from .c14 import check_help
    sub2 = Report('C03')
    check_help(cx, sub2)
    for fnd in sub2.findings:
        if 'isize' in fnd.where:
            rep.findings.append(fnd)
    k = 0
    for r, i, v in sub2.checked:
        if 'isize' in i:
            rep.checked.append((r, i, v))
            k += 1
    rep.counts['HELP'] = k
    from .helpers import check_ident_or_index
    check_ident_or_index(cx, rep)
    from .scope import check_scopes
    check_scopes(cx, rep, ['::ord::', '::partial_ord::'])
    rep.floor('SUM-ORD', 7)
    rep.floor('SCAN', 16)
    rep.floor('HELP', 6)
    rep.assumptions += ['BTreeMap iterates in ascending key order', 'semantics of match / early return', 'LitInt::base10_parse / str::parse::<isize>']
    rep.not_decided += ['lawfulness of user-supplied comparison methods']
    from .binders import check_binder_injectivity
    check_binder_injectivity(cx, rep, ['::ord::', '::partial_ord::'])
    from .c13 import include_own_parsers as _iop
    from ..facts import Facts as _Fp
    _iop(cx, _Fp(cx), rep, ['::ord::', '::partial_ord::'])
    # the impl headers of this trait's own templates (generics, where-clause, ::core trait path): HDR
    from .c12 import check_headers as _chk_hdr
    _chk_hdr(cx, rep, ['::ord::', '::partial_ord::'])
    from .own import include_generic_rules as _igr
    _igr(cx, rep, ['::ord::', '::partial_ord::'])
    return rep
