"""C13 — contradictory, ambiguous or misplaced attributes are rejected, not guessed.

Each obligation of the statement is tied to a structural rule over the parsers and handlers:
  SCAN      every `build_from_attributes` visits all #[educe(..)] attributes and all metas, rejects unknown traits and
            traits that are not educed, rejects a repeated trait, and hands only its own trait's metas (or the documented
            synonym's) to its parameter parser.
  COUPLE    when trait C's impl is taken over by partner P (Copy→Clone, Eq→PartialEq, PartialOrd→Ord) and C's handler
            therefore skips field/variant scanning, P's scanners must consume or reject C's metas there.
  PARAM     every parameter arm: disabled ⇒ refuse; value conversion; given twice ⇒ parameter_reset; unknown ⇒ refuse.
  FLAGS     the enable_* switches at every builder site equal the documented acceptance table for (trait, position, shape).
  SEL       unique-selection idiom (default variant / union field, Deref/DerefMut/Into field): second hit ⇒ Err before
            assignment; none ⇒ Err; selected item is the same iteration's item.
  SHAPE     unions: `unsafe` test dominates emission for Debug/PartialEq/Hash; PartialOrd/Ord/Deref/DerefMut/Into on a union ⇒
            Err; unit variants under Deref/DerefMut/Into ⇒ Err before emission; Debug with nothing to print ⇒ Err.
  DUP       rank / Into-target uniqueness: `contains_key ⇒ Err` dominates every insertion; duplicate trait at type level.
"""
from ..report import Report
from ..syn import es, pat_s, ty_s
from ..terms import term_s, subterms, analyse_iter, strip_refs
from ..walk import ctx_s
from ..facts import Facts, atom_s
from ..parsers import scanners, meta_parsers, SYNONYMS, TAKEOVER
from ..metafacts import conjuncts, FROM_PATH, contains_sub
from ..cx import TRAIT_DIRS
from ..callgraph import CallGraph


def run(cx, tier='quick'):
    rep = Report('C13')
    rep.explanation.append(
        'Obligation table of the property tied to structural rules over the 24 attribute scanners, the 24+ parameter parsers, the '
        '≈90 builder call sites and the handlers: SCAN, COUPLE, PARAM, FLAGS, SEL, SHAPE, DUP (see module doc). "Never silently '
        'resolved" = on the path of each obligation\'s condition no emission site is reachable (the Err exit dominates).')
    facts = Facts(cx)
    check_scanners(cx, facts, rep)
    check_coupling(cx, facts, rep)
    from . import c13_param, c13_sel
    c13_param.check(cx, facts, rep)
    c13_sel.check(cx, facts, rep)
    check_field_scan_coverage(cx, facts, rep)
    # the type-level parameter list of a trait is refused where its handler parses it: every educed trait's handler must be called with
    # the metas stored under that trait (DISP, shared with C15), else `#[educe(PartialOrd(ignore), Ord)]` is accepted without a look
    from .c15 import check_disp
    check_disp(cx, facts, rep)
    # per-element state: the flags behind "given twice" / "nothing to show" refusals live as long as the element they describe
    from .scope import check_scopes
    check_scopes(cx, rep, None)
    rep.floor('SCAN', 90, '(24 scanners × ≥4 obligations)')
    rep.floor('COUPLE', 3)
    rep.assumptions += ['syn::Attribute/Meta parsing', 'documented acceptance table (README / crate docs) as transcribed in sa/props/c13_param.py']
    rep.not_decided += ['wording and span of the diagnostics']
    return rep


def _continue_in_nonlist_arm(ev):
    """`match &attribute.meta { Meta::List(list) => list, _ => continue }`: the `continue` sits in the catch-all arm of a match whose
    only other arm is `Meta::List(..)`"""
    for c in reversed(ev.ctx):
        if c['k'] == 'arm':
            node = c.get('match') or {}
            pats = [pat_s(a['pat']) for a in (node.get('arms') or [])]
            if pat_s(c['pat']) == '_' and len(pats) == 2 and any(p.startswith('Meta::List(') for p in pats):
                return True
            return False
    return False


def check_scanners(cx, facts, rep):
    scs = scanners(cx)
    if len(scs) < 20:
        rep.broken.append('only %d build_from_attributes scanners found (24 on the pinned tree)' % len(scs))
    for sc in scs:
        where = sc.fn.qname
        f = sc.fn
        X = sc.trait
        # S1: full iteration
        if sc.attr_loop is None:
            rep.bad('SCAN', where, 'attribute-loop', 'no loop over all `attributes`: not every #[educe(..)] attribute of the item is examined', f.file, f.line)
            continue
        if sc.meta_loop is None:
            rep.bad('SCAN', where, 'meta-loop', 'no loop over all metas of an #[educe(..)] list', f.file, f.line)
            continue
        bad_iter = False
        for (ev, info), nm in ((sc.attr_loop, 'attribute'), (sc.meta_loop, 'meta')):
            if info.adaptors or info.rev or info.zipped is not None:
                rep.bad('SCAN', where, '%s-loop-adaptors' % nm, 'the %s loop does not visit every element in order: `%s`' % (nm, es(ev.entry['iter'])), f.file, ev.line)
                bad_iter = True
        if sc.breaks or sc.rawloops:
            ev = (sc.breaks or sc.rawloops)[0]
            rep.bad('SCAN', where, 'early-exit', 'the scan can stop early (`break`/manual loop): later attributes or metas are not examined', f.file, ev.line)
            bad_iter = True
        for ev in sc.continues:
            # guard clauses of the attribute loop (`if !path.is_ident("educe") { continue }`, `let list = match &attribute.meta
            # { Meta::List(l) => l, _ => continue }`) are the nested form written flat; any other `continue` skips part of the scan
            loops_ = [c for c in ev.ctx if c['k'] in ('for', 'while', 'loop')]
            at_ = [a for a in facts.atoms(ev.ctx, sc.fw) if a[0] not in ('loop',)]
            in_attr_loop = bool(loops_) and loops_[-1].get('id') == sc.attr_loop[0].entry['id']

            def _kind(a):
                txt = a[1].replace(' ', '') if a[0] == 'cond' else ''
                while txt.startswith('(') and txt.endswith(')') and txt.count('(') == txt.count(')') and txt[1:-1].count('(') >= 1 and not txt[1:-1].startswith(')'):
                    inner_ = txt[1:-1]
                    depth_, okp_ = 0, True
                    for ch_ in inner_:
                        depth_ += ch_ == '('
                        depth_ -= ch_ == ')'
                        if depth_ < 0:
                            okp_ = False
                            break
                    if not okp_:
                        break
                    txt = inner_
                if a[0] == 'cond' and txt in ('path.is_ident("educe")', 'attribute.path().is_ident("educe")'):
                    return 'neg' if a[2] is False else 'pos'
                if a[0] == 'cond' and txt in ('!path.is_ident("educe")', '!attribute.path().is_ident("educe")'):
                    return 'neg' if a[2] is True else 'pos'
                if a[0] == 'is' and a[2] == 'Meta::List':
                    return 'neg' if a[3] is False else 'pos'
                if a[0] == 'arm-else' and len(a[2]) == 1 and a[2][0].startswith('Meta::List(') and isinstance(a[1], tuple) and a[1][0] == 'field' and a[1][2] == 'meta':
                    return 'neg'
                if a[0] == 'survive' and len(a[2]) == 1 and a[2][0].startswith('Meta::List('):
                    return 'pos'
                return None
            kinds_ = [_kind(a) for a in at_]
            ok_c = in_attr_loop and all(k_ is not None for k_ in kinds_) and 'neg' in kinds_
            if ok_c:
                continue
            rep.bad('SCAN', where, 'continue', 'a `continue` skips part of the scan', f.file, ev.line)
            bad_iter = True
        if not bad_iter:
            rep.ok('SCAN', where + '|visits-all', {'scanner': where, 'attr_loop': es(sc.attr_loop[0].entry['iter']), 'meta_loop': es(sc.meta_loop[0].entry['iter'])[:60]})
        # the meta loop must be nested in: attr loop, `path.is_ident("educe")`, `if let Meta::List(list) = &attribute.meta`
        mctx = sc.meta_loop[0].ctx
        atoms = facts.atoms(mctx, sc.fw)
        conds = [a for a in atoms if a[0] not in ('loop',)]
        okguard = (len([a for a in atoms if a[0] == 'loop']) == 1 and len(conds) == 2
                   and any(a[0] == 'cond' and ('is_ident("educe")' in a[1] and a[2] and not a[1].replace(' ', '').strip('(').startswith('!')
                                               or a[1].replace(' ', '').strip('(').startswith('!') and 'is_ident("educe")' in a[1] and a[2] is False) for a in conds)
                   and any((a[0] == 'is' and a[2] == 'Meta::List' and a[3])
                           or (a[0] == 'survive' and len(a[2]) == 1 and a[2][0].startswith('Meta::List(') and isinstance(a[1], tuple) and a[1][0] == 'field' and a[1][2] == 'meta')
                           for a in conds))
        if okguard:
            rep.ok('SCAN', where + '|educe-list-only')
        else:
            rep.bad('SCAN', where, 'meta-loop-guards', 'metas are examined only under unexpected conditions: %s' % [atom_s(a) for a in conds], f.file, sc.meta_loop[0].line)
        # S1b: an `educe` attribute that is not a list (`#[educe]`, `#[educe = ".."]`) carries nothing the scanner reads: it must be
        # refused (as lib.rs does on the type itself), not skipped
        ok_nl = False
        for ev, c in sc.exits:
            at = [a for a in facts.atoms(ev.ctx, sc.fw) if a[0] != 'loop']
            if not any(x['k'] == 'for' and x.get('id') == sc.attr_loop[0].entry['id'] for x in ev.ctx) or any(x.get('id') == sc.meta_loop[0].entry['id'] for x in ev.ctx):
                continue
            pos_educe = any(a[0] == 'cond' and 'is_ident("educe")' in a[1] and ((a[2] and not a[1].replace(' ', '').strip('(').startswith('!'))
                                                                                  or (a[2] is False and a[1].replace(' ', '').strip('(').startswith('!'))) for a in at)
            neg_list = any((a[0] == 'is' and a[2] == 'Meta::List' and a[3] is False)
                           or (a[0] == 'arm-else' and len(a[2]) == 1 and a[2][0].startswith('Meta::List(')) for a in at)
            if pos_educe and neg_list and len(at) == 2:
                ok_nl = True
        if ok_nl:
            rep.ok('SCAN', where + '|non-list-educe-refused')
        else:
            rep.bad('SCAN', where, 'non-list-accepted', 'an `educe` attribute that is not a list (`#[educe]`, `#[educe = "Trait(..)"]`) on a field or variant is skipped without a diagnostic: '
                    'whatever the user wrote there is silently dropped (the same spelling on the type is refused by lib.rs)', f.file, sc.attr_loop[0].line)
        # S2: rejections
        mid = sc.meta_loop[0].entry['id']
        tm = sc.tm
        unsupported = [(ev, c) for ev, c in sc.exits if c and c.endswith('unsupported_trait')]
        not_used = [(ev, c) for ev, c in sc.exits if c and c.endswith('trait_not_used')]
        ok_unsup = False
        for ev, c in unsupported:
            arms = [x for x in ev.ctx if x['k'] == 'arm' and pat_s(x['pat']) == 'None']
            if arms:
                st = tm.term(arms[-1]['scrut'], arms[-1]['scope'])
                if isinstance(st, tuple) and st[:2] == ('call', FROM_PATH) and st[2] == ('mcall', ('elem', mid), 'path'):
                    ok_unsup = True
        if ok_unsup:
            rep.ok('SCAN', where + '|unknown-trait-rejected')
        else:
            rep.bad('SCAN', where, 'unknown-trait', 'an unknown trait name in a field/variant attribute is not rejected (no `None => return Err(unsupported_trait)` on Trait::from_path(meta.path()))', f.file, f.line)
        ok_nu = False
        for ev, c in not_used:
            at = facts.atoms(ev.ctx, sc.fw)
            for a in at:
                if a[0] == 'cond' and a[2] is False and a[1].replace(' ', '') in ('traits.contains(&t)',):
                    ok_nu = True
                if a[0] == 'cond' and a[2] is True and a[1].replace(' ', '') in ('!traits.contains(&t)',):
                    ok_nu = True
        if ok_nu:
            rep.ok('SCAN', where + '|not-educed-trait-rejected')
        else:
            rep.bad('SCAN', where, 'trait-not-used', 'an attribute for a trait that is not educed on the type is not rejected (`!traits.contains(&t)` ⇒ Err(trait_not_used) missing)', f.file, f.line)
        # S2a: metas of *other* educed traits are none of this scanner's business: every refusal inside the meta loop is either one
        # of the two generic ones or sits in the branch of one named trait (`t == Trait::K`)
        branch_ids = set(b.ev.pos['id'] for b in sc.branches)
        okinert = True
        for ev, c in sc.exits:
            if not any(x.get('id') == mid and x['k'] == 'for' for x in ev.ctx):
                continue
            if any(ev is e2 for e2, _ in unsupported) and any(x['k'] == 'arm' and pat_s(x['pat']) == 'None' for x in ev.ctx):
                continue
            if any(ev is e2 for e2, _ in not_used):
                at = facts.atoms(ev.ctx, sc.fw)
                if any(a[0] == 'cond' and ((a[2] is False and a[1].replace(' ', '') == 'traits.contains(&t)') or (a[2] is True and a[1].replace(' ', '') == '!traits.contains(&t)')) for a in at):
                    continue
            if any(x['k'] == 'if' and x.get('id') in branch_ids and x.get('pol') and not x.get('prior') for x in ev.ctx):
                continue
            okinert = False
            rep.bad('SCAN', where, 'foreign-refusal=%s' % (c or '?').split('::')[-1],
                    'a refusal inside the meta loop that is neither the unknown-trait / not-educed check nor inside the branch of one named trait (`t == Trait::K`): '
                    'an attribute of another educed trait on the same field or variant can make this trait\'s derive fail', f.file, ev.line)
        if okinert:
            rep.ok('SCAN', where + '|foreign-metas-inert')
        # S2b: the result may not be overwritten from one attribute to the next (last attribute wins): every assignment inside a loop
        # must be dominated by the "already set ⇒ Err" check; collections of metas (Into) must live outside the loops
        tail = sc.fw.tail
        res_defs = []
        if tail is not None:
            tt = tm.term(tail, tm.scope_of_node(tail) or sc.fw.root)
            for x in __import__('sa.terms', fromlist=['subterms']).subterms(tt):
                if isinstance(x, tuple) and x[0] == 'var':
                    dd = tm.def_by_id(x[1])
                    if dd is not None:
                        res_defs.append(dd)
        okover = True
        for dd in res_defs:
            for a in dd.assigns:
                loops_ = [c for c in a.ctx if c['k'] in ('for', 'loop')]
                if not loops_:
                    continue
                at = facts.atoms(a.ctx, sc.fw)
                guarded = any(x[0] == 'some' and x[1] == ('var', dd.id, dd.name) and x[2] is False for x in at)
                v_ = a.value
                if not guarded and isinstance(v_, dict) and v_.get('k') == 'Match' and es(v_['expr']).replace(' ', '').lstrip('&') == dd.name and len(v_['arms']) == 2:
                    # `output = match output { Some(_) => return Err(..), None => Some(..) }`: the same check as one expression
                    def _div(b_):
                        while b_.get('k') == 'Block' and len((b_.get('block') or b_).get('stmts') or []) == 1 and (b_.get('block') or b_)['stmts'][0].get('k') == 'Expr':
                            b_ = (b_.get('block') or b_)['stmts'][0]['expr']
                        return b_.get('k') == 'Return' and isinstance(b_.get('expr'), dict) and es(b_['expr']).startswith('Err')
                    pats_ = dict((pat_s(x_['pat']).split('(')[0], x_) for x_ in v_['arms'])
                    guarded = set(pats_) == {'Some', 'None'} and _div(pats_['Some']['body']) and not pats_['Some'].get('guard') and not pats_['None'].get('guard')
                if not guarded:
                    rep.bad('SCAN', where, 'overwrite=%s' % dd.name,
                            'the scan result `%s` is assigned inside the attribute loop without the "already set ⇒ Err" check: with several #[educe(..)] attributes on one item only the last one counts' % dd.name,
                            f.file, a.line)
                    okover = False
        for ev in sc.fw.events:
            if ev.kind == 'mcall' and ev.method == 'push':
                r = __import__('sa.terms', fromlist=['strip_refs']).strip_refs(ev.recv)
                if r['k'] == 'Path':
                    cd = ev.scope.lookup(r['path']['s'])
                    if cd is not None and cd.kind == 'let' and any(c['k'] in ('for', 'loop') for c in cd.ctx):
                        rep.bad('SCAN', where, 'collector-scope=%s' % cd.name,
                                'the metas of this trait are collected in `%s`, which is re-created for every attribute: metas of earlier #[educe(..)] attributes are dropped' % cd.name, f.file, cd.line)
                        okover = False
        if okover:
            rep.ok('SCAN', where + '|result accumulates over all attributes')
        # S3: branches
        slots = {}
        for b in sc.branches:
            if b.trait == X or (X, b.trait) in SYNONYMS:
                pid_ = b.ev.pos['id']
                for ev_ in sc.fw.events:
                    if ev_.kind == 'assign' and any(c_.get('id') == pid_ and c_['k'] == 'if' and c_.get('pol') and not c_.get('prior') for c_ in ev_.ctx) \
                            and 'build_from_' in es(ev_.value):
                        slots.setdefault(es(ev_.target).replace(' ', ''), []).append(b.trait)
        if len(slots) > 1:
            rep.bad('SCAN', where, 'split-result', 'the metas of %s are parsed into different variables %s: each has its own "given twice" check, so one spelling of each is accepted together and one of them is dropped' % (
                ' / '.join(sorted(set(t_ for v_ in slots.values() for t_ in v_))), sorted(slots)), f.file, f.line)
        own = [b for b in sc.branches if b.trait == X]
        if not own:
            rep.bad('SCAN', where, 'own-trait-branch', 'no branch handles this trait\'s own metas (`t == Trait::%s`)' % X, f.file, f.line)
        for b in sc.branches:
            acts = [a[0] for a in b.actions]
            inst = 'branch=%s' % b.trait
            def _contains_established(c):
                # the statements after `if !traits.contains(&t) { return Err(..) }` run under "traits.contains(&t)", however the test is spelled
                if c['k'] != 'if' or not c.get('prior'):
                    return False
                t_ = es(c['cond']).replace(' ', '')
                while t_.startswith('(') and t_.endswith(')'):
                    t_ = t_[1:-1]
                neg_ = t_.startswith('!')
                return 'traits.contains' in t_ and (neg_ != bool(c['pol']))
            dominated = any(c['k'] == 'survive' for c in b.ev.ctx) and any(_contains_established(c) for c in b.ev.ctx)
            if not dominated:
                rep.bad('SCAN', where, inst + '-order', 'the branch for Trait::%s is reachable before the unknown-trait / trait-not-used checks' % b.trait, f.file, b.ev.line)
                continue
            if b.trait == X or (X, b.trait) in SYNONYMS:
                if b.trait != X:
                    # synonym: must be guarded by traits.contains(&Trait::Z) (it is, by the generic not-used check) and be cfg-gated on Z
                    if not any(p == ('feat', b.trait) for p in b.cfg):
                        rep.bad('SCAN', where, inst + '-cfg', 'synonym branch for Trait::%s is not gated on feature "%s"' % (b.trait, b.trait), f.file, b.ev.line)
                        continue
                # the branch condition is the trait test alone (a synonym adds `traits.contains(&Trait::Z)`): any further conjunct lets
                # some metas of this trait pass without being parsed — and the parser is where misplaced parameters are refused
                extra_c = [o for o in b.extra_conds if not (b.trait != X and o.replace(' ', '') == 'traits.contains(&Trait::%s)' % b.trait)]
                if extra_c:
                    rep.bad('SCAN', where, inst + '-condition', 'metas of Trait::%s are only parsed under the further condition `%s`: where it does not hold they are accepted without being looked at' % (b.trait, extra_c[0][:60]),
                            f.file, b.ev.line)
                    continue
                # the own-trait branch exists in every build that has the trait: a `cfg` of another feature on it (an `else if` chained
                # to a cfg-gated `if`) switches the parsing of this trait's parameters off in some feature sets
                foreign_cfg = [p_ for p_ in b.cfg if b.trait == X and p_ != ('feat', X)]
                if foreign_cfg:
                    rep.bad('SCAN', where, inst + '-cfg', 'the branch that parses the metas of Trait::%s is compiled only under %s: without it they are accepted and ignored' % (b.trait, foreign_cfg),
                            f.file, b.ev.line)
                    continue
                builds = [a for a in b.actions if a[0] in ('build', 'push')]
                if not builds:
                    rep.bad('SCAN', where, inst, 'the branch for Trait::%s neither parses nor collects the meta' % b.trait, f.file, b.ev.line)
                    continue
                if X != 'Into':
                    # reuse check: `if output.is_some() { return Err(reuse_a_trait) }` before the build
                    reuse = [a for a in b.actions if a[0] == 'err' and a[1] and a[1].endswith('reuse_a_trait')]
                    okreuse = False
                    for a in reuse:
                        at = facts.atoms(a[2].ctx, sc.fw)
                        if any(x[0] == 'some' and x[2] is True for x in at) and a[2].seq < builds[0][2].seq:
                            okreuse = True
                    if not okreuse:
                        rep.bad('SCAN', where, inst + '-repeat', 'a trait given twice on one field/variant is not rejected before its parameters are parsed (reuse_a_trait)', f.file, b.ev.line)
                        continue
                    # the build result must be stored in `output`
                    bev = builds[0][2]
                    margs = [tm.term(a, bev.scope) for a in bev.args]
                    if not margs or margs[0] != ('elem', mid):
                        rep.bad('SCAN', where, inst + '-arg', 'the parameter parser is not applied to the meta being examined', f.file, bev.line)
                        continue
                if X != 'Into':
                    # what is stored is what the parameter parser returned: `slot = Some(self.build_from_<x>_meta(&meta)?)`, nothing taken
                    # away or replaced on the way (a struct update, a `map`, a second value): a branch that edits the parsed parameters
                    # of one spelling makes `Ord(method(f))` and `PartialOrd(method(f))` mean different things
                    pid_ = b.ev.pos['id']
                    badstore = None
                    nstore = 0
                    for ev_ in sc.fw.events:
                        if ev_.kind == 'assign' and any(c_.get('id') == pid_ and c_['k'] == 'if' and c_.get('pol') and not c_.get('prior') for c_ in ev_.ctx):
                            v_ = ev_.value
                            if isinstance(v_, dict) and v_.get('k') == 'Match' and len(v_.get('arms') or []) == 2:
                                none_ = [x_ for x_ in v_['arms'] if pat_s(x_['pat']) == 'None']
                                if none_:
                                    v_ = none_[0]['body']
                                    while isinstance(v_, dict) and v_.get('k') == 'Block' and len((v_.get('block') or v_).get('stmts') or []) == 1 and (v_.get('block') or v_)['stmts'][0].get('k') == 'Expr':
                                        v_ = (v_.get('block') or v_)['stmts'][0]['expr']
                            try:
                                t_ = tm.term(v_, ev_.scope)
                            except Exception:
                                t_ = None
                            if 'build_from_' not in es(ev_.value):
                                continue
                            nstore += 1
                            while isinstance(t_, tuple) and len(t_) == 2 and t_[0] in ('Some', 'try', 'paren'):
                                t_ = t_[1]
                            if not (isinstance(t_, tuple) and t_[0] == 'mcall' and isinstance(t_[2], str) and t_[2].startswith('build_from_') and t_[1] == ('param', 'self')):
                                badstore = (ev_, t_)
                    if badstore is not None:
                        rep.bad('SCAN', where, inst + '-stored', 'the branch for Trait::%s does not store what the parameter parser returned but something made from it (`%s = %s`): parameters the user wrote under this spelling are dropped or replaced' % (
                            b.trait, es(badstore[0].target)[:30], ' '.join(es(badstore[0].value).split())[:80]), f.file, badstore[0].line)
                        continue
                rep.ok('SCAN', '%s|%s|%s' % (where, inst, 'own' if b.trait == X else 'synonym'), {'scanner': where, 'branch': b.trait, 'actions': acts})
            else:
                # foreign trait: only a rejection is acceptable
                if acts and all(a == 'err' for a in acts):
                    rep.ok('SCAN', '%s|%s|rejects' % (where, inst), {'scanner': where, 'branch': b.trait, 'actions': acts})
                else:
                    rep.bad('SCAN', where, inst + '-foreign', 'a scanner of %s parses or collects metas of the unrelated trait %s' % (X, b.trait), f.file, b.ev.line)


def scan_sites_of_trait(cx, facts, trait):
    """(handler fn, event, accumulated atoms) for every build_from_attributes call reachable from trait's top handler"""
    cg = CallGraph(cx)
    tops = [f for f in cx.handler_fns() if cx.trait_of_module(f.module) == trait and len(f.module.path) == 2]
    out = []
    seen = set()

    def visit_fn(f, pre):
        if (id(f), tuple(map(str, pre))) in seen:
            return
        seen.add((id(f), tuple(map(str, pre))))
        fw = cx.fw(f)
        for ev in fw.events:
            if ev.kind == 'mcall' and ev.method == 'build_from_attributes':
                out.append((f, ev, pre + facts.atoms(ev.ctx, fw)))
            if ev.kind == 'call':
                for c in cg.resolve_call(fw, ev):
                    if c.module.path[:2] == f.module.path[:2] and c is not f:
                        visit_fn(c, pre + facts.atoms(ev.ctx, fw))
    for t in tops:
        visit_fn(t, [])
    return out, tops


def check_coupling(cx, facts, rep):
    scs = scanners(cx)
    for C, P in TAKEOVER.items():
        sites, tops = scan_sites_of_trait(cx, facts, C)
        if not tops:
            rep.broken.append('top handler of %s not found' % C)
            continue
        guarded = [s for s in sites if ('educed', P, False) in s[2]]
        if not sites:
            rep.bad('COUPLE', tops[0].qname, 'no-scan', '%s never scans field/variant attributes' % C, tops[0].file, tops[0].line)
            continue
        if len(guarded) != len(sites):
            # C scans regardless of P: nothing is skipped, no obligation on P
            rep.ok('COUPLE', '%s scans its own attributes even when %s is educed' % (C, P))
            continue
        # C skips scanning when P is educed  ⇒ every scanner of P must have a branch for Trait::C (synonym or rejection)
        for sc in [s for s in scs if s.trait == P]:
            br = [b for b in sc.branches if b.trait == C]
            inst = '%s-metas-under-%s' % (C, P)
            if br:
                rep.ok('COUPLE', '%s|%s' % (sc.fn.qname, inst), {'scanner': sc.fn.qname, 'partner_branch': [a[0] for a in br[0].actions]})
            else:
                rep.bad('COUPLE', sc.fn.qname, inst,
                        'when %s and %s are both educed the %s handler leaves fields and variants to %s, but this %s scanner has no branch for Trait::%s: '
                        'a `#[educe(%s…)]` attribute on a field or variant is silently accepted instead of being rejected (or honoured)' % (C, P, C, P, P, C, C),
                        sc.fn.file, sc.fn.line)


def include_own_scanners(cx, facts, rep, needles, floor=8):
    """the per-field/variant attributes a summary relies on are read by this trait's own scanners: re-evaluate SCAN for them"""
    from ..report import Report as _R
    sub = _R(rep.prop)
    check_scanners(cx, facts, sub)
    for fnd in sub.findings:
        if any(n in fnd.where for n in needles):
            if not any(x.key == fnd.key for x in rep.findings):
                rep.findings.append(fnd)
    k = 0
    for r, i, v in sub.checked:
        if any(n in i for n in needles):
            rep.checked.append((r, i, v))
            k += 1
    rep.counts['SCAN'] = rep.counts.get('SCAN', 0) + k
    rep.floor('SCAN', floor)


def include_own_parsers(cx, facts, rep, needles):
    """the summaries take `field_attribute.ignore / method / rank / name / expression ..` at face value: re-evaluate, for this trait's
    own parameter parsers, the PARAM / FLAGS rules (each documented parameter is parsed by its arm, converted by the right helper,
    stored in its own field, accepted exactly where documented) and the HELP tables of the shared value helpers"""
    from ..report import Report as _R
    from . import c13_param
    from .c14 import check_help
    sub = _R(rep.prop)
    c13_param.check(cx, facts, sub)
    check_help(cx, sub)
    k = {}
    for fnd in sub.findings:
        if fnd.rule in ('PARAM', 'FLAGS') and any(n in fnd.where for n in needles) or fnd.rule == 'HELP':
            if not any(x.key == fnd.key for x in rep.findings):
                rep.findings.append(fnd)
    for r, i, v in sub.checked:
        if r in ('PARAM', 'FLAGS') and any(n in i for n in needles) or r == 'HELP':
            rep.checked.append((r, i, v))
            k[r] = k.get(r, 0) + 1
    for r, n in k.items():
        rep.counts[r] = rep.counts.get(r, 0) + n
    for b in sub.broken:
        if b not in rep.broken and 'floor' not in b:
            rep.broken.append(b)


def check_field_scan_coverage(cx, facts, rep):
    """COVER: every handler passes the attributes of *every* field through its trait's field scanner (that is where attributes of
    unknown, disabled or un-educed traits and misplaced parameters are refused).  Where the handler treats a single-field type /
    variant or the named / tuple shapes in separate branches, each branch needs its own scan."""
    from .c13_flags import builder_sites
    by = {}
    for st in builder_sites(cx):
        if st.level == 'field':
            by.setdefault(id(st.fn), (st.fn, []))[1].append(st)
    for fn in cx.handler_fns():
        if id(fn) in getattr(cx.crate, 'fully_inlined', ()):
            continue
        if id(fn) not in by:
            # dispatchers (mod.rs) that only forward to per-shape handlers have no fields to scan
            fw = cx.fw(fn)
            forwards = any(ev.kind == 'call' and ev.path and ev.path.split('::')[-1] == 'trait_meta_handler' for ev in fw.events)
            if not forwards:
                rep.bad('COVER', fn.qname, 'no-field-scan', 'the handler never passes field attributes to its field scanner: attributes of unknown / disabled / un-educed traits on fields go unnoticed', fn.file, fn.line)
            continue
        fn, sites = by[id(fn)]
        fw = cx.fw(fn)
        infos = []
        for st in sites:
            at = [a for a in facts.atoms(st.ev.ctx, fw) if a[0] in ('len', 'shape')]
            infos.append((st, at))
        ok = True
        for st, at in infos:
            for a in at:
                if a[0] == 'len' and isinstance(a[1], tuple) and a[1][0] == 'field' and a[1][2] in ('fields', 'named', 'unnamed'):
                    rest = [x for x in at if x is not a]
                    opp = a[:-1] + (not a[-1],)
                    if not any(opp in at2 and all(x in at2 for x in rest if x[0] == 'len') for _, at2 in infos):
                        rep.bad('COVER', fn.qname, 'len-branch@%d' % st.ev.line,
                                'field attributes are scanned only when %s: in the other branch the fields are not passed through the field scanner' % atom_s(a)[:80], fn.file, st.ev.line)
                        ok = False
                if a[0] == 'shape' and a[3] is True and a[2] in ('Named', 'Unnamed'):
                    other = 'Unnamed' if a[2] == 'Named' else 'Named'
                    if not any(any(x[0] == 'shape' and x[1] == a[1] and x[2] == other and x[3] is True for x in at2) for _, at2 in infos):
                        rep.bad('COVER', fn.qname, 'shape-branch@%d' % st.ev.line, 'field attributes are scanned for %s fields only' % a[2], fn.file, st.ev.line)
                        ok = False
        if ok:
            rep.ok('COVER', '%s|%d field-scan sites cover every branch' % (fn.qname, len(sites)))
    rep.floor('COVER', 25, '(33 handlers today)')
