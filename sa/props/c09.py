"""C09 — Deref and DerefMut expose exactly the designated field.

SUM-DEREF (generated-code model of the four Deref / DerefMut struct+enum handlers):
  * the designated (index, field) pair is `(0, the only field)` when there is exactly one field, else the payload of a verified
    unique-selection search (SEL) over that same field list, marked by this handler's *own* flag attribute of that very field;
  * struct: body is the place expression `&self.<member>` / `&mut self.<member>` (`self.<member>` for reference-typed fields) with
    <member> built from that same (index, field); Target = that field's type with references stripped;
  * enum: one arm per variant (unit variants refused before any arm), pattern = `index` wildcards then the binder then `..`
    (or `{ ident, .. }`), arm value = that binder; Target from the first variant's designated field.
Address identity follows: the body is a place expression of exactly that field.
"""
from ..report import Report
from ..syn import es, pat_s, ty_s
from ..terms import match_arms, term_s, subterms, analyse_iter
from ..summ import (Summ, access, block_stmts, marker_stmts, marker_of_pat, marker_of_expr, marker_of_type, atoms_after_loop, strip_ref_gen)
from ..facts import Facts, atom_s
from ..genast import is_marker, marker_name
from ..tmpl import MARK


def parse_selection(S, t):
    """t = ite(len(F)==1, (0, first(F)), iflet Some(_) = sel { sel } else { return Err })
    returns (F term, sel var term) or None"""
    if isinstance(t, tuple) and t[0] == 'iflet' and len(t) == 5 and t[1].startswith('Some(') and isinstance(t[2], tuple) and t[2][0] == 'var' \
            and t[3] == ('some_of', t[2]) and t[4] == ('never',):
        # merged form: one search loop that designates "the only field, or the marked one" (validate_sel_var checks that mark)
        d = S.tm.def_by_id(t[2][1])
        somes = [a for a in (d.assigns if d is not None else []) if a.value['k'] == 'Call' and es(a.value['func']) == 'Some']
        if len(somes) == 1:
            loops = [c for c in somes[0].ctx if c['k'] == 'for' and c not in d.ctx]
            if len(loops) == 1:
                info = analyse_iter(loops[0]['iter'])
                return S.tm.term(info.base, loops[0]['scope']), t[2], 'merged'
        return None
    if not (isinstance(t, tuple) and t[0] == 'ite' and len(t) == 4):
        return None
    cond, a, b = t[1], t[2], t[3]
    if not (isinstance(cond, tuple) and cond[0] == 'bin' and cond[1] == '==' and isinstance(cond[2], tuple) and cond[2][0] == 'mcall' and cond[2][2] == 'len'
            and cond[3][0] == 'lit' and str(cond[3][2]) in ('1',)):
        return None
    F = cond[2][1]
    first = ('unwrap', ('mcall', ('mcall', F, 'into_iter'), 'next'))
    first2 = ('unwrap', ('mcall', ('mcall', F, 'iter'), 'next'))
    first3 = ('index', F, ('lit', 'Int', '0'))
    if not (isinstance(a, tuple) and a[0] == 'tuple' and len(a) >= 3 and a[1][0] == 'lit' and str(a[1][2]).startswith('0') and a[2] in (first, first2, first3)):
        return None
    if not (isinstance(b, tuple) and b[0] == 'iflet' and b[1].startswith('Some(') and isinstance(b[2], tuple) and b[2][0] == 'var' and b[3] == ('some_of', b[2]) and b[4] == ('never',)):
        return None
    return F, b[2], a


def validate_sel_var(S, var, F, rule, label, own_member='flag', merged=False):
    """the mutable Option var is assigned `Some((index, field))` of the enumerate loop over F, under exactly the own-flag mark"""
    d = S.tm.def_by_id(var[1])
    if d is None or not d.assigns:
        return 'selection variable not found'
    somes = [a for a in d.assigns if a.value['k'] == 'Call' and es(a.value['func']) == 'Some']
    if len(somes) != 1:
        return '%d assignments of a designated field (expected one)' % len(somes)
    a = somes[0]
    loops = [c for c in a.ctx if c['k'] == 'for' and c not in d.ctx]
    if len(loops) != 1:
        return 'designation assigned outside a single search loop'
    Lc = loops[0]
    info = analyse_iter(Lc['iter'])
    if not info.enumerate or info.rev or info.adaptors or S.tm.term(info.base, Lc['scope']) != F:
        return 'the search loop is not `for (index, field) in <the same field list>.iter().enumerate()`'
    L = Lc['id']
    payload = a.value['args'][0]
    comps = payload['elems'] if payload['k'] == 'Tuple' else [payload]
    terms = [S.tm.term(c, a.scope) for c in comps]
    if len(terms) < 2 or terms[0] != ('idx', L) or terms[1] != ('elem', L):
        return 'the designation is not this iteration\'s (index, field): %s' % [term_s(t, 40) for t in terms]
    atoms = S.facts.atoms(a.ctx, S.fw)
    marks = [x for x in atoms_after_loop(atoms, L) if not (x[0] == 'some' and x[1] == var)]
    ok_mark = len(marks) == 1 and marks[0][0] == 'truth' and marks[0][2] is True and S.attr_rec_ok(marks[0][1], L, own_member)
    if merged:
        # "the list has exactly one field, or this field carries the marker"
        ok_mark = len(marks) == 1 and marks[0][0] == 'or' and marks[0][2] is True and len(marks[0][1]) == 2 \
            and sorted(x[0] for x in marks[0][1]) == ['len', 'truth'] \
            and all((x == ('len', F, 1, True)) if x[0] == 'len' else (x[2] is True and S.attr_rec_ok(x[1], L, own_member)) for x in marks[0][1])
    if not ok_mark:
        return 'the field is designated under %s (expected exactly: its own `%s` marker)' % ([atom_s(m)[:80] for m in marks], own_member)
    return True


def designated(S, site, hole_or_term, rule, label):
    """resolve a term that should be proj(i, SELECTION); returns (i, F, sel) or None (reported)"""
    t = hole_or_term
    if not (isinstance(t, tuple) and t[0] == 'proj'):
        return None
    sel = parse_selection(S, t[2])
    if sel is None:
        return None
    return t[1], sel[0], sel[1], t[2]


def member_from_selection(S, mt):
    """IdentOrIndex::from_ident_with_index(proj(1,SEL).ident, proj(0,SEL)) -> SEL term"""
    if not (isinstance(mt, tuple) and mt[0] == 'call' and str(mt[1]).endswith('IdentOrIndex::from_ident_with_index') and len(mt) == 4):
        return None
    idt, idx = mt[2], mt[3]
    if not (isinstance(idt, tuple) and idt[0] == 'field' and idt[2] == 'ident' and isinstance(idt[1], tuple) and idt[1][0] == 'proj' and idt[1][1] == 1):
        return None
    if not (isinstance(idx, tuple) and idx[0] == 'proj' and idx[1] == 0 and idx[2] == idt[1][2]):
        return None
    return idt[1][2]


def header(S, mutable):
    trait = '::core::ops::DerefMut' if mutable else '::core::ops::Deref'
    impls = [(s, it) for s, it in S.impl_of(trait) if not S.atoms(s)]
    if len(impls) != 1:
        S.bad('SUM-DEREF', 'impl', 'expected exactly one unconditional `impl %s`, found %d' % (trait, len(impls)))
        return None
    site, impl = impls[0]
    fns = S.fns_of(impl)
    name = 'deref_mut' if mutable else 'deref'
    if len(fns) != 1 or fns[0]['sig']['name'] != name:
        S.bad('SUM-DEREF', 'impl-fns', 'the impl must define exactly `fn %s`' % name, site)
        return None
    f = fns[0]
    ins = f['sig']['inputs']
    out = ty_s(f['sig']['output']).replace(' ', '') if f['sig']['output'] else ''
    if not (len(ins) == 1 and ins[0]['k'] == 'Self' and ins[0]['ref'] and ins[0]['mut'] == mutable and out in (('&mutSelf::Target', '&mut<Selfas::core::ops::Deref>::Target') if mutable else ('&Self::Target', '&<Selfas::core::ops::Deref>::Target'))):
        S.bad('SUM-DEREF', 'signature', 'unexpected signature of fn %s' % name, site)
        return None
    tys = [ii for ii in impl['items'] if ii['k'] == 'Type']
    if mutable:
        if tys:
            S.bad('SUM-DEREF', 'target', 'DerefMut must not define Target', site)
            return None
    else:
        if len(tys) != 1 or tys[0]['name'] != 'Target':
            S.bad('SUM-DEREF', 'target', 'Deref must define `type Target`', site)
            return None
    return site, impl, f, (tys[0] if tys else None)


def check_struct(cx, fn, rep, facts, mutable):
    S = Summ(cx, fn, rep, facts)
    h = header(S, mutable)
    if h is None:
        return
    site, impl, f, tyitem = h
    st = f['block']['stmts']
    ms = marker_stmts(st)
    if len(ms) != 1 or len(st) != 1:
        S.bad('SUM-DEREF', 'body', 'the body is not one composed place expression', site)
        return
    bodies = S.kids(site, ms[0][1])
    ok = True
    sel_terms = set()
    pol_seen = set()
    for b in bodies:
        e = b.ast[0]['expr'] if b.cat == 'stmts' and len(b.ast) == 1 and b.ast[0]['k'] == 'Expr' and not b.ast[0]['semi'] else None
        a = access(e) if e is not None else None
        if a is None or a[0] != 'member' or a[1] != 'self':
            S.bad('SUM-DEREF', 'struct-body-form', 'the body is not a place expression `[&[mut]] self.<member>`', b)
            ok = False
            continue
        _, base, hole, refs, mut = a
        mt = S.hole_term(b, hole)
        sel = member_from_selection(S, mt)
        if sel is None or parse_selection(S, sel) is None:
            S.bad('SUM-DEREF', 'struct-member', 'the dereferenced member is not built from the designated (index, field) pair (term %s)' % term_s(mt, 120), b)
            ok = False
            continue
        sel_terms.add(sel)
        F, var, first = parse_selection(S, sel)
        if F != ('field', ('payload', 'Data::Struct', 0, ('field', ('param', 'ast'), 'data')), 'fields'):
            S.bad('SUM-DEREF', 'struct-fields', 'the field list searched is not the struct\'s own fields', b)
            ok = False
        r = validate_sel_var(S, var, F, 'SUM-DEREF', 'struct', merged=(first == 'merged'))
        if r is not True:
            S.bad('SUM-DEREF', 'struct-selection', r, b)
            ok = False
        # guard: is-reference flag
        atoms = [x for x in S.atoms(b) if x[0] != 'data']
        fieldty = ('field', ('proj', 1, sel), 'ty')
        is_ref_atoms = []
        for x in atoms:
            if x[0] == 'truth' and x[1] == ('proj', 1, ('call', 'crate::common::r#type::dereference_changed', fieldty)):
                is_ref_atoms.append(x[2])
            elif x[0] == 'is' and is_ungrouped(x[1], fieldty) and x[2] == 'Type::Reference':
                is_ref_atoms.append(x[3])
            elif x[0] == 'arm-else' and is_ungrouped(x[1], fieldty) and len(x[2]) == 1 and x[2][0].replace('syn::', '').startswith('Type::Reference('):
                # the `_` arm of `match ungroup(ty) { Type::Reference(_) => .., _ => .. }`
                is_ref_atoms.append(False)
            elif x[0] == 'is' and x[1] == fieldty and x[2] == 'Type::Reference':
                S.bad('SUM-DEREF', 'reference-test-sees-group', 'the test "the designated field is a reference" looks at the written type without peeling parentheses / the invisible group of a `$t:ty` fragment', b)
                is_ref_atoms.append(x[3])
                ok = False
            else:
                S.bad('SUM-DEREF', 'struct-guard', 'the body is emitted under an unexpected condition %s' % atom_s(x)[:100], b)
                ok = False
        if len(is_ref_atoms) != 1:
            S.bad('SUM-DEREF', 'struct-ref-guard', 'the body form is not selected by "the designated field is a reference"', b)
            ok = False
            continue
        is_ref = is_ref_atoms[0]
        pol_seen.add(is_ref)
        want_refs = 0 if is_ref else 1
        if refs != want_refs or (refs == 1 and mut != mutable):
            S.bad('SUM-DEREF', 'struct-borrow', 'for a %s field the body must be `%sself.<member>`' % ('reference' if is_ref else 'value', '' if is_ref else ('&mut ' if mutable else '&')), b)
            ok = False
    if pol_seen != {True, False}:
        S.bad('SUM-DEREF', 'struct-cases', 'value-typed and reference-typed designated fields are not both handled', site)
        ok = False
    if len(sel_terms) > 1:
        S.bad('SUM-DEREF', 'struct-one-selection', 'different designations are used in different places', site)
        ok = False
    if not mutable and sel_terms:
        sel = list(sel_terms)[0]
        m = marker_of_type(tyitem['ty'])
        kids = S.kids(site, m) if m else []
        okT = False
        if len(kids) == 1 and kids[0].cat == 'type':
            tm_ = marker_of_type(kids[0].ast)
            if tm_:
                tt = S.hole_term(kids[0], tm_)
                fieldty = ('field', ('proj', 1, sel), 'ty')
                if tt in (('proj', 0, ('call', 'crate::common::r#type::dereference_changed', fieldty)), ('call', 'crate::common::r#type::dereference', fieldty)):
                    okT = not [x for x in S.atoms(kids[0]) if x[0] != 'data']
        if not okT:
            S.bad('SUM-DEREF', 'struct-target', 'Target is not the designated field\'s type with references stripped', site)
            ok = False
    if ok:
        S.ok('SUM-DEREF', 'struct', {'handler': fn.qname, 'bodies': [b.tmpl.text() for b in bodies]})


def check_enum(cx, fn, rep, facts, mutable):
    S = Summ(cx, fn, rep, facts)
    h = header(S, mutable)
    if h is None:
        return
    site, impl, f, tyitem = h
    st = f['block']['stmts']
    e = st[0]['expr'] if len(st) == 1 and st[0]['k'] == 'Expr' and not st[0]['semi'] else None
    if e is None or e['k'] != 'Match' or es(e['expr']) != 'self' or len(e['arms']) != 1 or marker_of_pat(e['arms'][0]['pat']) is None:
        S.bad('SUM-DEREF', 'enum-body', 'the body is not `match self { #arms }`', site)
        return
    arm_sites = S.kids(site, marker_of_pat(e['arms'][0]['pat']))
    ok = True
    seen = set()
    sels = set()
    for a in arm_sites:
        atoms = [x for x in S.atoms(a) if x[0] != 'data']
        vl = S.variant_loop(atoms)
        arms = a.ast if a.cat == 'arms' else None
        if vl is None or not S.loop_in_decl_order(vl) or not arms or len(arms) != 1 or arms[0].get('guard') is not None:
            S.bad('SUM-DEREF', 'enum-arm', 'an arm is not emitted once per variant in declaration order', a)
            ok = False
            continue
        V = vl[1]
        arm = arms[0]
        p = arm['pat']
        path = p.get('path')
        if path is None or len(path['segs']) != 2 or path['segs'][0]['id'] != 'Self' or not is_marker(path['segs'][1]['id']) \
                or S.hole_term(a, marker_name(path['segs'][1]['id'])) != ('field', ('elem', V), 'ident'):
            S.bad('SUM-DEREF', 'enum-arm-variant', 'the arm pattern does not name this variant', a)
            ok = False
            continue
        bm = marker_of_expr(arm['body'])
        if bm is None:
            S.bad('SUM-DEREF', 'enum-arm-value', 'the arm value is not the bound designated field', a)
            ok = False
            continue
        bt = S.hole_term(a, bm)
        # bt = proj(0, match(proj(1,SEL).ident { Some(ident) => (ident, false), None => (format_ident("_{}", proj(0,SEL)), true) }))
        selinfo = binder_of_selection(S, bt)
        if selinfo is None:
            S.bad('SUM-DEREF', 'enum-binder', 'the bound name is not derived from the designated (index, field) pair (term %s)' % term_s(bt, 140), a)
            ok = False
            continue
        sel, name_match = selinfo
        sels.add(sel)
        F, var, first = parse_selection(S, sel)
        if F != ('field', ('elem', V), 'fields'):
            S.bad('SUM-DEREF', 'enum-fields', 'the field list searched is not this variant\'s fields', a)
            ok = False
        r = validate_sel_var(S, var, F, 'SUM-DEREF', 'enum', merged=(first == 'merged'))
        if r is not True:
            S.bad('SUM-DEREF', 'enum-selection', r, a)
            ok = False
        # guards: ¬Unit (prior exit), via(variants) unfiltered, is_tuple flag
        is_tuple_term = ('proj', 1, name_match)
        tup = [x[2] for x in atoms if x[0] == 'truth' and x[1] == is_tuple_term]
        extra = [x for x in atoms_after_loop(atoms, V) if not (x[0] == 'truth' and x[1] == is_tuple_term) and not (x[0] == 'shape' and x[2] == 'Unit' and x[3] is False)]
        if len(tup) != 1 or extra:
            S.bad('SUM-DEREF', 'enum-arm-guard', 'the arm is emitted under %s (expected: the tuple/named flag of the designated field)' % [atom_s(x)[:80] for x in atoms_after_loop(atoms, V)], a)
            ok = False
            continue
        if not any(x[0] == 'shape' and x[2] == 'Unit' and x[3] is False for x in atoms):
            S.bad('SUM-DEREF', 'enum-unit-refusal', 'arms are emitted without unit variants having been refused', a)
            ok = False
        is_tuple = tup[0]
        seen.add(is_tuple)
        if is_tuple:
            okp = p['k'] == 'TupleStruct' and len(p['elems']) == 1 and marker_of_pat(p['elems'][0])
            if not okp:
                S.bad('SUM-DEREF', 'enum-tuple-pattern', 'tuple variant pattern is not `Self::V ( #pattern )`', a)
                ok = False
                continue
            kids = S.kids(a, marker_of_pat(p['elems'][0]))
            wild = [k for k in kids if k.ast is not None and k.cat == 'patelems' and len(k.ast) == 1 and k.ast[0]['k'] == 'Wild']
            bind = [k for k in kids if k not in wild]
            okw = len(wild) == 1
            if okw:
                wa = S.atoms(wild[0])
                rng = [x for x in wa if x[0] == 'loop' and isinstance(x[2], tuple) and x[2][0] == 'opaque']
                # the wildcard loop is `for _ in 0..index` with index = proj(0, SEL)
                okw = False
                for c in S.eff_ctx(wild[0].ctx):
                    if c['k'] == 'for' and c['iter']['k'] == 'Range' and not c['iter']['closed'] and es(c['iter'].get('from')) == '0' and c['iter'].get('to') is not None:
                        it = S.tm.term(c['iter']['to'], c['scope'])
                        if it == ('proj', 0, sel) or it == through_collection_index(S, sel):
                            okw = True
                        else:
                            it2 = it
                            okw = index_equiv(S, it2, sel)
            if not okw:
                S.bad('SUM-DEREF', 'enum-tuple-wildcards', 'the number of leading `_` is not the index of the designated field', a)
                ok = False
            okb = len(bind) == 1 and bind[0].ast is not None and bind[0].cat == 'patelems' and len(bind[0].ast) == 2 and bind[0].ast[1]['k'] == 'Rest' and marker_of_pat(bind[0].ast[0]) \
                and S.hole_term(bind[0], marker_of_pat(bind[0].ast[0])) == bt and not bind[0].ast[0]['by_ref'] and kids and kids[-1] is bind[0]
            if not okb:
                S.bad('SUM-DEREF', 'enum-tuple-binder', 'after the wildcards the pattern is not `<binder>, ..` with the binder returned by the arm', a)
                ok = False
        else:
            okp = p['k'] == 'Struct' and len(p['fields']) == 1 and p['fields'][0]['shorthand'] and marker_of_pat(p['fields'][0]['pat']) and not p['rest']
            if not okp:
                S.bad('SUM-DEREF', 'enum-named-pattern', 'named variant pattern is not `Self::V { #pattern }`', a)
                ok = False
                continue
            kids = S.kids(a, marker_of_pat(p['fields'][0]['pat']))
            okb = len(kids) == 1 and kids[0].ast is not None and kids[0].cat == 'fieldpats' and len(kids[0].ast['fields']) == 1 and kids[0].ast['rest'] and kids[0].ast['fields'][0]['shorthand'] \
                and marker_of_pat(kids[0].ast['fields'][0]['pat']) and S.hole_term(kids[0], marker_of_pat(kids[0].ast['fields'][0]['pat'])) == bt
            if not okb:
                S.bad('SUM-DEREF', 'enum-named-binder', 'the pattern is not `{ <designated field name>, .. }`', a)
                ok = False
    if seen != {True, False}:
        S.bad('SUM-DEREF', 'enum-cases', 'tuple and named variants are not both handled', site)
        ok = False
    if len(sels) > 1:
        S.bad('SUM-DEREF', 'enum-one-selection', 'different designations are used in different places', site)
        ok = False
    if not mutable and sels:
        m = marker_of_type(tyitem['ty'])
        kids = S.kids(site, m) if m else []
        okT = False
        if len(kids) == 1 and kids[0].cat == 'type' and marker_of_type(kids[0].ast):
            tt = S.hole_term(kids[0], marker_of_type(kids[0].ast))
            # call(dereference, index(var variants, 0).4) with pushes (.., &field.ty)
            if isinstance(tt, tuple) and tt[0] == 'call' and str(tt[1]).endswith('r#type::dereference') and isinstance(tt[2], tuple) and tt[2][0] == 'field':
                idx = tt[2][1]
                comp = tt[2][2]
                if isinstance(idx, tuple) and idx[0] == 'index' and idx[1][0] == 'var':
                    ps = S.tm.pushes().get(idx[1][1], [])
                    if len(ps) == 1:
                        pv = S.tm.term(ps[0][3], ps[0][0].scope)
                        ct = None
                        if isinstance(pv, tuple) and pv[0] == 'tuple' and isinstance(comp, int) and 1 + comp < len(pv):
                            ct = pv[1 + comp]
                        elif isinstance(pv, tuple) and pv[0] == 'struct':
                            for mt in pv[2:]:
                                if isinstance(mt, tuple) and len(mt) == 2 and str(mt[0]) == str(comp):
                                    ct = mt[1]
                        if ct == ('field', ('proj', 1, list(sels)[0]), 'ty'):
                            okT = True
        if not okT:
            S.bad('SUM-DEREF', 'enum-target', 'Target is not the (first variant\'s) designated field type with references stripped', site)
            ok = False
    if ok:
        S.ok('SUM-DEREF', 'enum', {'handler': fn.qname, 'arms': [a.tmpl.text() for a in arm_sites]})


def binder_of_selection(S, bt):
    """bt = proj(0, match(proj(1,SEL).ident, ('Some(ident)', tuple(some_of(..ident), false)), ('None', tuple(format_ident('_{}', proj(0,SEL)), true))))"""
    if not (isinstance(bt, tuple) and bt[0] == 'proj' and bt[1] == 0 and match_arms(bt[2]) is not None):
        return None
    m = bt[2]
    scrut, m_arms = match_arms(m)
    if not (isinstance(scrut, tuple) and scrut[0] == 'field' and scrut[2] == 'ident' and isinstance(scrut[1], tuple) and scrut[1][0] == 'proj' and scrut[1][1] == 1):
        return None
    sel = scrut[1][2]
    if parse_selection(S, sel) is None:
        return None
    arms = dict((p, v) for p, v in m_arms)
    some = [v for p, v in arms.items() if p.startswith('Some(')]
    none = [v for p, v in arms.items() if p == 'None']
    if len(some) != 1 or len(none) != 1:
        return None
    a, b = some[0], none[0]
    if not (isinstance(a, tuple) and a[0] == 'tuple' and a[1] == ('some_of', scrut) and a[2] == ('lit', 'Bool', False)):
        return None
    if not (isinstance(b, tuple) and b[0] == 'tuple' and b[1] == ('format_ident', '_{}', ('proj', 0, sel)) and b[2] == ('lit', 'Bool', True)):
        return None
    return sel, m


def through_collection_index(S, sel):
    return ('proj', 0, sel)


def index_equiv(S, it, sel):
    return it == ('proj', 0, sel)


def run(cx, tier='quick'):
    rep = Report('C09')
    rep.explanation.append(
        'SUM-DEREF: semantic summary of the generated deref / deref_mut: the designated (index, field) is (0, only field) or the payload '
        'of a verified unique-selection search over the same field list marked by the handler\'s own flag; struct body is the place '
        'expression of that member (reference fields returned as is); enum arms bind the designated field by `index` wildcards + binder '
        '+ `..` or `{ ident, .. }` and return the binder; Target is the designated field type with references stripped. Own-models '
        'resolution (DerefMut must not read Deref\'s markers) is MODELS-OWN (re-evaluated here).')
    facts = Facts(cx)
    n = 0
    for t, sh, fn in cx.shape_handlers():
        if t in ('Deref', 'DerefMut') and sh in ('struct', 'enum'):
            n += 1
            if sh == 'struct':
                check_struct(cx, fn, rep, facts, t == 'DerefMut')
            else:
                check_enum(cx, fn, rep, facts, t == 'DerefMut')
    if n != 4:
        rep.broken.append('expected 4 Deref/DerefMut struct+enum handlers, found %d' % n)
    # own models + own scanners
    from .c15 import check_models_own
    sub = Report('C09')
    check_models_own(cx, facts, sub)
    for fnd in sub.findings:
        if '::deref' in fnd.where:
            rep.findings.append(fnd)
    k = 0
    for r, i, v in sub.checked:
        if '::deref' in i:
            rep.checked.append((r, i, v))
            k += 1
    rep.counts['MODELS-OWN'] = k
    from .c13_sel import check_selections
    sub = Report('C09')
    check_selections(cx, facts, sub)
    for fnd in sub.findings:
        if '::deref' in fnd.where:
            rep.findings.append(fnd)
    k = 0
    for r, i, v in sub.checked:
        if '::deref' in i:
            rep.checked.append((r, i, v))
            k += 1
    rep.counts['SEL'] = k
    check_dereference_helper(cx, rep)
    from .c13 import include_own_scanners
    include_own_scanners(cx, facts, rep, ['::deref::', '::deref_mut::'])
    from .helpers import check_ident_or_index
    check_ident_or_index(cx, rep)
    from .scope import check_scopes
    check_scopes(cx, rep, ['::deref::', '::deref_mut::'])
    rep.floor('SUM-DEREF', 4)
    rep.floor('MODELS-OWN', 10)
    rep.floor('SEL', 4)
    rep.assumptions += ['a borrow of a place expression `self.f` has the address of field f', 'match ergonomics: binding through &self / &mut self yields & / &mut to the field']
    from .binders import check_binder_injectivity
    check_binder_injectivity(cx, rep, ['::deref::', '::deref_mut::'])
    from .c13 import include_own_parsers as _iop
    from ..facts import Facts as _Fp
    _iop(cx, _Fp(cx), rep, ['::deref::', '::deref_mut::'])
    # the impl headers of this trait's own templates (generics, where-clause, ::core trait path): HDR
    from .c12 import check_headers as _chk_hdr
    _chk_hdr(cx, rep, ['::deref::', '::deref_mut::'])
    from .own import include_generic_rules as _igr
    _igr(cx, rep, ['::deref::', '::deref_mut::'])
    return rep


def dereference_loop_form(f):
    """`let mut t = ty; while let Type::Reference(r) = t { t = r.elem.as_ref(); } t` — the iterative spelling of "strip every leading &" """
    st = f.block.get('stmts', [])
    params = [p_[0] for p_ in f.params()]
    if len(st) != 3 or len(params) != 1:
        return False
    a, w, t = st
    if a.get('k') != 'Local' or a['pat'].get('k') != 'Ident' or not a['pat'].get('mut') or not isinstance(a.get('init'), dict) \
            or a['init'].get('k') != 'Path' or a['init']['path']['s'] != params[0]:
        return False
    v = a['pat']['name']
    if w.get('k') != 'Expr' or w['expr'].get('k') != 'While' or t.get('k') != 'Expr' or t.get('semi') or t['expr'].get('k') != 'Path' or t['expr']['path']['s'] != v:
        return False
    c = w['expr']['cond']
    if c.get('k') != 'Let' or c['pat'].get('k') != 'TupleStruct' or c['pat']['path']['s'] not in ('Type::Reference', 'syn::Type::Reference') \
            or len(c['pat']['elems']) != 1 or c['pat']['elems'][0].get('k') != 'Ident' or es(c['expr']).replace('&', '').replace('*', '').replace(' ', '') not in ('ungroup(%s)' % v, 'crate::common::r#type::ungroup(%s)' % v):
        return False
    r = c['pat']['elems'][0]['name']
    body = w['expr']['body'].get('stmts', [])
    if len(body) != 1 or body[0].get('k') != 'Expr' or body[0]['expr'].get('k') != 'Assign':
        return False
    asg = body[0]['expr']
    return es(asg['l_']) == v and es(asg['r_']).replace(' ', '') in ('%s.elem.as_ref()' % r, '&%s.elem' % r, '&*%s.elem' % r)


UNGROUP = ('crate::common::type::ungroup', 'crate::common::r#type::ungroup', 'ungroup')


def is_ungrouped(x, of=None):
    """x is `ungroup(<of>)`"""
    return isinstance(x, tuple) and len(x) == 3 and x[0] == 'call' and x[1] in UNGROUP and (of is None or x[2] == of)


def check_ungroup_helper(cx, rep, rule='SUM-DEREF'):
    """common::type::ungroup peels every Type::Group / Type::Paren layer and nothing else"""
    from .helpers import fn_term, P
    fs = [f for f in cx.crate.fns if f.qname.endswith('common::type::ungroup')]
    if len(fs) != 1:
        # no helper of that name: every `Type::Reference` test on a written type is then reported where it stands
        return False
    f = fs[0]
    # the iterative spelling: `let mut v = ty; loop { v = match v { Group(g) => g.elem.., Paren(p) => p.elem.., _ => return v }; }`
    st_ = f.block.get('stmts', [])
    params_ = [p_[0] for p_ in f.params()]
    if len(st_) == 2 and len(params_) == 1 and st_[0].get('k') == 'Local' and st_[0]['pat'].get('k') == 'Ident' and isinstance(st_[0].get('init'), dict) \
            and st_[0]['init'].get('k') == 'Path' and st_[0]['init']['path']['s'] == params_[0] and st_[1].get('k') == 'Expr' and st_[1]['expr'].get('k') == 'Loop':
        from .c17 import descent_loop_arms
        da = descent_loop_arms(st_[1]['expr'])
        if da is not None and da[0] == st_[0]['pat']['name']:
            got = dict((k.replace('syn::', ''), v) for k, v in da[1])
            if set(got) == {'Type::Group', 'Type::Paren', '_'} and got['Type::Group'] == ('descend', 'elem') and got['Type::Paren'] == ('descend', 'elem') and got['_'][0] == 'exit':
                rep.ok(rule, f.qname + '|peels groups and parentheses only', {'helper': f.qname, 'form': 'loop'})
                return True
    t = fn_term(cx, f)
    arms = {}
    if isinstance(t, tuple) and t[0] == 'match' and t[1] == P(0):
        for a in t[2:]:
            arms[a[0]] = a[1]
    else:
        x = t
        while isinstance(x, tuple) and x[0] == 'iflet' and x[2] == P(0):
            arms[x[1]] = x[3]
            x = x[4]
        arms['_'] = x
    def peel(k):
        return ('call', None, ('field', ('payload', k, 0, P(0)), 'elem'))
    def is_peel(x, k):
        return isinstance(x, tuple) and len(x) == 3 and x[0] == 'call' and x[1] in UNGROUP and x[2] == peel(k)[2]
    norm = dict((k.replace('syn::', ''), v) for k, v in arms.items())
    ok = set(norm) == {'Type::Group(_)', 'Type::Paren(_)', '_'} and is_peel(norm['Type::Group(_)'], 'Type::Group') \
        and is_peel(norm['Type::Paren(_)'], 'Type::Paren') and norm['_'] == P(0)
    if ok:
        rep.ok(rule, f.qname + '|peels groups and parentheses only', {'helper': f.qname})
    else:
        rep.bad(rule, f.qname, 'helper-shape', '`ungroup` no longer is "peel every Type::Group / Type::Paren layer, return anything else as it is"', f.file, f.line)
    return ok


def check_dereference_helper(cx, rep, rule='SUM-DEREF'):
    """common::type::dereference / dereference_changed strip all leading references (seen through groups and parentheses)"""
    check_ungroup_helper(cx, rep, rule)
    for name in ('dereference', 'dereference_changed'):
        fs = [f for f in cx.crate.fns if f.qname.endswith('common::type::' + name)]
        if len(fs) != 1:
            rep.broken.append('common::type::%s not found' % name)
            continue
        f = fs[0]
        from .helpers import fn_term, P
        t = fn_term(cx, f)
        DEREF = ('crate::common::type::dereference', 'crate::common::r#type::dereference', 'dereference')
        def rec(x):
            return isinstance(x, tuple) and len(x) == 3 and x[0] == 'call' and x[1] in DEREF and isinstance(x[2], tuple) and len(x[2]) == 3 \
                and x[2][0] == 'field' and x[2][2] == 'elem' and isinstance(x[2][1], tuple) and x[2][1][:3] == ('payload', 'Type::Reference', 0) \
                and is_ungrouped(x[2][1][3], P(0))
        if name == 'dereference_changed' and isinstance(t, tuple) and t[0] == 'tuple' and len(t) == 3 and isinstance(t[1], tuple) and len(t[1]) == 3 \
                and t[1][0] == 'call' and t[1][1] in DEREF and t[1][2] == P(0) and isinstance(t[2], tuple) and t[2][0] == 'matches' \
                and t[2][2] in ('Type::Reference(_)', 'syn::Type::Reference(_)'):
            # `(dereference(ty), matches!(ungroup(ty), Type::Reference(_)))`: dereference(ty) is ty itself when ty is no reference
            if is_ungrouped(t[2][1], P(0)):
                rep.ok(rule, f.qname + '|strips all references', {'helper': f.qname, 'form': 'pair'})
            else:
                rep.bad(rule, f.qname, 'reference-test-sees-group',
                        '`%s` tests the written type for `Type::Reference` without peeling parentheses / the invisible group of a `$t:ty` fragment' % name, f.file, f.line)
            continue
        ok = isinstance(t, tuple) and t[0] == 'iflet' and t[1] in ('Type::Reference(_)', 'syn::Type::Reference(_)')
        if ok and t[2] == P(0):
            rep.bad(rule, f.qname, 'reference-test-sees-group',
                    '`%s` tests the written type for `Type::Reference` without peeling parentheses / the invisible group of a `$t:ty` fragment: such a reference field is treated as a value' % name,
                    f.file, f.line)
            continue
        ok = ok and is_ungrouped(t[2], P(0))
        if not ok and name == 'dereference':
            ok_loop = dereference_loop_form(f)
            if ok_loop:
                rep.ok(rule, f.qname + '|strips all references', {'helper': f.qname, 'form': 'loop'})
                continue
        if ok and name == 'dereference':
            ok = rec(t[3]) and t[4] == P(0)
        elif ok:
            ok = (isinstance(t[3], tuple) and t[3][0] == 'tuple' and len(t[3]) == 3 and rec(t[3][1]) and t[3][2] == ('lit', 'Bool', True)
                  and t[4] == ('tuple', P(0), ('lit', 'Bool', False)))
        if ok:
            rep.ok(rule, f.qname + '|strips all references', {'helper': f.qname})
        else:
            rep.bad(rule, f.qname, 'helper-shape', '`%s` no longer is "strip every leading & and report whether one was stripped"' % name, f.file, f.line)
