"""GEN-MEMBER: every field access `self.#m` / `other.#m` / `source.#m` in generated code names a member of the type: the hole is the
member (identifier, else declaration index) of the field being visited by a loop over the *declared* field list — not a position in a
filtered or reordered collection, and not a constant.  Otherwise the generated code touches another field than the one whose
attributes, type and bound it was generated for (and typically does not type-check against the automatic where-clause)."""
from ..genast import visit
from ..summ import Summ, access, member_of_loop
from ..terms import subterms, term_s, analyse_iter
from ..syn import es
from .c07 import idx_aliases
from .c09 import member_from_selection


def loops_in(t):
    return sorted(set(x[1] for x in subterms(t) if isinstance(x, tuple) and len(x) == 2 and x[0] in ('elem', 'idx')))


def declared_fields_loop(S, L):
    fev = S.tm.for_event(L)
    if fev is None:
        return False
    info = analyse_iter(fev.entry['iter'])
    if info.rev or info.adaptors or info.zipped is not None:
        return False
    bt = S.tm.term(info.base, fev.scope)
    return isinstance(bt, tuple) and bt[0] == 'field' and bt[2] == 'fields'


def push_proj(t):
    """proj(i, if-let / match / tuple) -> the i-th component inside every branch"""
    if not isinstance(t, tuple) or not t:
        return t
    if t[0] == 'proj' and isinstance(t[2], tuple):
        i, x = t[1], push_proj(t[2])
        if x[0] == 'tuple' and 1 + i < len(x):
            return push_proj(x[1 + i])
        if x[0] in ('iflet',):
            return ('iflet', x[1], x[2], push_proj(('proj', i, x[3])), push_proj(('proj', i, x[4])))
        if x[0] == 'ite':
            return ('ite', x[1], push_proj(('proj', i, x[2])), push_proj(('proj', i, x[3])))
        if x[0] == 'match':
            return ('match', x[1]) + tuple((p_, push_proj(('proj', i, v_))) for p_, v_ in x[2:])
        return ('proj', i, x)
    return t


def member_ok(S, mt, L, aliases):
    from ..terms import subst_term
    for al in aliases:
        mt = subst_term(mt, ('idx', al), ('idx', L))
    if member_of_loop(mt, L) is not None:
        return True
    if isinstance(mt, tuple) and mt and mt[0] == 'match':
        return len(mt) > 2 and all(member_ok(S, v_, L, aliases) for _, v_ in mt[2:])
    if isinstance(mt, tuple) and mt and mt[0] == 'ite':
        return member_ok(S, mt[2], L, aliases) and member_ok(S, mt[3], L, aliases)
    if isinstance(mt, tuple) and mt and mt[0] == 'iflet':
        # if let Some(ident) = field.ident { from(ident) } else { from(index) }
        ident = ('field', ('elem', L), 'ident')
        if mt[2] == ident and mt[1].startswith('Some('):
            a, b = mt[3], mt[4]
            return (isinstance(a, tuple) and a[0] == 'call' and str(a[1]).split('::')[-1] == 'from' and a[2:] == (('some_of', ident),)
                    and isinstance(b, tuple) and b[0] == 'call' and str(b[1]).split('::')[-1] == 'from' and b[2:] == (('idx', L),))
        return member_ok(S, mt[3], L, aliases) and member_ok(S, mt[4], L, aliases)
    return False


def selection_over_declared_fields(S, sel, depth=0):
    """sel is a term for an (index, field[, ..]) tuple: the payload of a selection variable assigned in loops over the declared field
    list, or the literal (0, the only field)"""
    if depth > 6 or not isinstance(sel, tuple) or not sel:
        return False
    if sel[0] in ('ite', 'iflet'):
        xs = [x for x in sel[-2:] if x is not None and x != ('never',)]
        return bool(xs) and all(selection_over_declared_fields(S, x, depth + 1) for x in xs)
    if sel[0] == 'match':
        xs = [v for _, v in sel[2:] if v != ('never',)]
        return bool(xs) and all(selection_over_declared_fields(S, x, depth + 1) for x in xs)
    if sel[0] in ('some_of', 'unwrap'):
        return selection_over_declared_fields(S, sel[1], depth + 1)
    if sel[0] == 'tuple' and len(sel) >= 3:
        i, f = sel[1], sel[2]
        if isinstance(i, tuple) and i[0] == 'idx' and f == ('elem', i[1]):
            return declared_fields_loop(S, i[1])
        if i in (('lit', 'Int', '0'), ('lit', 'Int', '0usize')):
            return True     # the only field: SUM-DEREF / SUM-INTO check that it is taken under `len() == 1`
        return False
    if sel[0] == 'var':
        d = S.tm.def_by_id(sel[1])
        if d is None or not d.assigns:
            return False
        oks = []
        for a in d.assigns:
            v = a.value
            if v['k'] == 'Path' and es(v) == 'None':
                continue
            if v['k'] == 'Call' and es(v['func']) == 'Some' and len(v['args']) == 1:
                oks.append(selection_over_declared_fields(S, S.tm.term(v['args'][0], a.scope), depth + 1))
            else:
                oks.append(False)
        return bool(oks) and all(oks)
    return False


def check_members(cx, rep, facts, needles=None, rule='GEN-MEMBER'):
    n = 0
    for fn in cx.handler_fns():
        if needles is not None and not any(x in fn.qname for x in needles):
            continue
        try:
            S = Summ(cx, fn, rep, facts)
        except Exception:
            continue
        for s in S.sites:
            if s.ast is None:
                continue
            found = []

            def cb(role, node, extra):
                if role == 'expr' and isinstance(node, dict) and node.get('k') == 'Field':
                    a = access(node)
                    if a is not None and a[0] == 'member':
                        found.append(a)
            try:
                visit(s.ast, s.cat, cb)
            except Exception:
                continue
            for a in found:
                _, base, hole, refs, mut = a
                mt = S.hole_term(s, hole)
                n += 1
                ok = False
                mt = push_proj(mt)
                cand = set(loops_in(mt)) | set(c['id'] for c in S.eff_ctx(s.ctx) if c['k'] == 'for')
                for L in sorted(cand):
                    if not declared_fields_loop(S, L):
                        continue
                    if member_ok(S, mt, L, idx_aliases(S, s, L)):
                        ok = True
                if not ok:
                    # the member of a uniquely designated field (Deref/DerefMut/Into): (index, field) recorded by a search loop over the
                    # declared fields (the recording itself is checked by SEL), or the only field (index 0)
                    sel = member_from_selection(S, mt)
                    if sel is not None:
                        ok = selection_over_declared_fields(S, sel)
                inst = '%s.#%s' % (base, hole)
                if ok:
                    rep.ok(rule, '%s|%s|%s' % (fn.qname, inst, s.tmpl.line))
                else:
                    rep.bad(rule, fn.qname, inst,
                            'the member `#%s` of `%s.#%s` is not "identifier, else declaration index" of the field being visited in the declared field list (%s)' % (hole, base, hole, term_s(mt, 120)),
                            s.tmpl.file, s.tmpl.line)
    return n
