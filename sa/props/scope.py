"""ACC-SCOPE: an accumulator / collection that is filled inside a loop and consumed inside the same loop must be created
inside that loop too — otherwise the content of earlier iterations (other variants, other targets, other fields) leaks into
later ones."""
from ..syn import es
from ..terms import strip_refs, analyse_iter
from .c12 import BOUND_FN

FILL_METHODS = {'extend', 'push', 'insert', 'push_str', 'append', 'push_back'}


def check_scopes(cx, rep, needles=None, rule='ACC-SCOPE'):
    n = 0
    for fn in cx.crate.fns:
        if len(fn.module.path) < 1 or fn.module.path[0] != 'trait_handlers':
            continue
        if needles is not None and not any(x in fn.qname for x in needles):
            continue
        fw = cx.fw(fn)
        fills = {}
        for ev in fw.events:
            if ev.kind == 'mcall' and ev.method in FILL_METHODS:
                r = strip_refs(ev.recv)
                if r['k'] == 'Path' and len(r['path']['segs']) == 1:
                    d = ev.scope.lookup(r['path']['s'])
                    if d is not None and d.kind == 'let':
                        fills.setdefault(d.id, (d, []))[1].append(ev)
        if not fills:
            continue
        consumes = {}
        for ev in fw.events:
            # template holes
            if ev.kind == 'macro' and 'tmpl' in ev.mac:
                t = cx.gm.template_of(ev.mac)
                if t is not None:
                    for h in t.holes:
                        d = t.hole_def(h)
                        if d is not None and d.id in fills:
                            consumes.setdefault(d.id, []).append(ev)
            # loops over the collection, or passing it on
            if ev.kind == 'for':
                base = analyse_iter(ev.entry['iter']).base
                if base['k'] == 'Path' and len(base['path']['segs']) == 1:
                    d = ev.scope.lookup(base['path']['s'])
                    if d is not None and d.id in fills:
                        consumes.setdefault(d.id, []).append(ev)
            # handing it to the bound computation (the where-clause is emitted from it); other calls (lookups, helper predicates)
            # legitimately read running state
            if ev.kind == 'mcall' and ev.method == BOUND_FN:
                for a in ev.args:
                    x = strip_refs(a)
                    if x['k'] == 'Path' and len(x['path']['segs']) == 1:
                        d = ev.scope.lookup(x['path']['s'])
                        if d is not None and d.id in fills and not (ev.kind == 'mcall' and ev.method in FILL_METHODS and strip_refs(ev.recv) is x):
                            consumes.setdefault(d.id, []).append(ev)
        for did, (d, fl) in fills.items():
            cons = consumes.get(did, [])
            if not cons:
                continue
            n += 1
            def_loops = set(c['id'] for c in d.ctx if c['k'] == 'for')
            bad = None
            for f_ev in fl:
                floops = [c for c in f_ev.ctx if c['k'] == 'for']   # a while/loop search carries its state by design
                for c_ev in cons:
                    cloops = set(c['id'] for c in c_ev.ctx if c['k'] == 'for')
                    for L in floops:
                        if L['id'] in cloops and L['id'] not in def_loops:
                            # filled and consumed inside the same loop, created outside it
                            bad = (L, f_ev, c_ev)
            if bad:
                L, f_ev, c_ev = bad
                rep.bad(rule, fn.qname, 'carry-over=%s' % d.name,
                        '`%s` is created outside the loop `for %s in %s` but filled (line %d) and consumed (line %d) inside it: what earlier iterations put into it leaks into later ones' % (
                            d.name, es({'k': 'Path', 'path': {'s': '..', 'segs': [{'id': '..'}], 'global': False}}) if False else __import__('sa.syn', fromlist=['pat_s']).pat_s(L.get('pat')) if L.get('pat') else '..',
                            es(L['iter'])[:50] if L.get('iter') else '..', f_ev.line, c_ev.line),
                        fn.file, d.line)
            else:
                rep.ok(rule, '%s|%s' % (fn.qname, d.name))
    n += check_state_scopes(cx, rep, needles, rule)
    n += check_flag_value_scopes(cx, rep, needles, rule)
    return n


def _lit_value(e):
    """literal / None / unit-variant-like constant of an expression, or None when it is not a constant"""
    if e is None:
        return None
    if e['k'] == 'Lit':
        return ('lit', es(e))
    if e['k'] == 'Path' and es(e) in ('None', 'true', 'false'):
        return ('lit', es(e))
    return None


def check_state_scopes(cx, rep, needles=None, rule='ACC-SCOPE'):
    """A flag (`let mut v = <const>`) that is set to another constant inside a `for` loop and *read later in the same iteration*
    summarises the current element; declared outside that loop (and not reset in it) it also remembers earlier elements, so
    the decision taken for element k depends on elements < k.  (A flag read *before* it is set — duplicate detection,
    first-iteration flags — or only after the loop carries state across iterations by design and is not touched.)"""
    n = 0
    for fn in cx.crate.fns:
        if len(fn.module.path) < 1 or fn.module.path[0] != 'trait_handlers':
            continue
        if needles is not None and not any(x in fn.qname for x in needles):
            continue
        fw = cx.fw(fn)
        uses = {}
        for ev in fw.events:
            if ev.kind == 'use' and ev.node['k'] == 'Path' and len(ev.node['path']['segs']) == 1:
                d = ev.scope.lookup(ev.node['path']['s'])
                if d is not None and d.kind == 'let' and d.mutable:
                    uses.setdefault(d.id, []).append(ev)
        seen = set()
        for ev in fw.events:
            if ev.kind != 'assign' or getattr(ev, 'compound', False):
                continue
            t = ev.target
            if t['k'] != 'Path' or len(t['path']['segs']) != 1:
                continue
            d = ev.scope.lookup(t['path']['s'])
            if d is None or d.kind != 'let' or d.id in seen:
                continue
            init = _lit_value(d.init)
            if init is None:
                continue
            seen.add(d.id)
            assigns = [a for a in d.assigns if not getattr(a, 'compound', False)]
            if any(getattr(a, 'compound', False) for a in d.assigns):
                continue        # a counter
            def_loops = set(c['id'] for c in d.ctx if c['k'] == 'for')
            n += 1
            bad = None
            for a in assigns:
                v = _lit_value(a.value)
                if v is None or v == init:
                    continue
                aloops = [c for c in a.ctx if c['k'] == 'for' and c['id'] not in def_loops]
                for L in aloops:
                    # reset at the level of L before the write?
                    reset = any(_lit_value(r.value) == init and r.seq < a.seq and any(c['id'] == L['id'] for c in r.ctx if c['k'] == 'for') and
                                not [c for c in r.ctx if c['k'] == 'for' and c['id'] not in def_loops and c['id'] != L['id'] and
                                     c['id'] not in set(x['id'] for x in a.ctx if x['k'] == 'for')]
                                for r in assigns)
                    if reset:
                        continue
                    for u in uses.get(d.id, ()):
                        if u.node is t or u.seq <= a.seq:
                            continue
                        if u.node in [x.target for x in assigns]:
                            continue
                        if any(c['k'] == 'for' and c['id'] == L['id'] for c in u.ctx):
                            bad = (L, a, u)
            if bad:
                L, a, u = bad
                rep.bad(rule, fn.qname, 'carry-over=%s' % d.name,
                        '`%s` is declared outside the loop over `%s` but set (line %d) and then read (line %d) inside one iteration of it without being reset: '
                        'what earlier iterations found leaks into the decision for later ones' % (d.name, es(L['iter'])[:50] if L.get('iter') else '..', a.line, u.line),
                        fn.file, d.line)
            else:
                rep.ok(rule, '%s|flag:%s' % (fn.qname, d.name))
    return n


LOOPS = ('for', 'while', 'loop')


def check_flag_value_scopes(cx, rep, needles=None, rule='ACC-SCOPE'):
    """`if x_is_set { return Err(reset) } x_is_set = true; x = v;` — the "already given" flag has to live exactly as long as the
    value it protects: declared outside a loop the value is declared in, it refuses a parameter because *another* element
    (another `Into(T)` list, another variant) had it; declared further in than the value, a repetition slips through."""
    n = 0
    for fn in cx.crate.fns:
        if len(fn.module.path) < 1 or fn.module.path[0] != 'trait_handlers':
            continue
        if needles is not None and not any(x in fn.qname for x in needles):
            continue
        fw = cx.fw(fn)
        assigns = [ev for ev in fw.events if ev.kind == 'assign' and not getattr(ev, 'compound', False)
                   and ev.target['k'] == 'Path' and len(ev.target['path']['segs']) == 1]
        done = set()
        for a in assigns:
            if _lit_value(a.value) != ('lit', 'true'):
                continue
            F = a.scope.lookup(a.target['path']['s'])
            if F is None or F.kind != 'let' or _lit_value(F.init) != ('lit', 'false'):
                continue
            floops = set(c['id'] for c in F.ctx if c['k'] in LOOPS)
            for b in assigns:
                if b is a or len(b.ctx) != len(a.ctx) or any(x is not y and x != y for x, y in zip(b.ctx, a.ctx)):
                    continue
                V = b.scope.lookup(b.target['path']['s'])
                if V is None or V is F or V.kind != 'let' or (F.id, V.id) in done:
                    continue
                if _lit_value(b.value) is not None and _lit_value(V.init) == ('lit', 'false') and _lit_value(b.value) == ('lit', 'true'):
                    continue      # two flags set together
                done.add((F.id, V.id))
                vloops = set(c['id'] for c in V.ctx if c['k'] in LOOPS)
                n += 1
                if floops != vloops:
                    rep.bad(rule, fn.qname, 'flag-scope=%s/%s' % (F.name, V.name),
                            'the flag `%s` (line %d) that records that `%s` (line %d) has been given does not live in the same loop iteration as the value it protects: '
                            'a value given for one element makes the parameter count as repeated (or a repetition go unnoticed) for another' % (F.name, F.line, V.name, V.line),
                            fn.file, F.line)
                else:
                    rep.ok(rule, '%s|flag:%s~%s' % (fn.qname, F.name, V.name))
    return n
