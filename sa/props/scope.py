"""ACC-SCOPE: an accumulator / collection that is filled inside a loop and consumed inside the same loop must be created
inside that loop too — otherwise the content of earlier iterations (other variants, other targets, other fields) leaks into
later ones."""
from ..syn import es
from ..terms import strip_refs, analyse_iter
from .c12 import BOUND_FN

FILL_METHODS = {'extend', 'push', 'insert', 'push_str', 'append', 'push_back'}


def check_scopes(cx, rep, needles=None, rule='ACC-SCOPE'):
    n = 0
    for fn in cx.crate.fns:
        if len(fn.module.path) < 1 or fn.module.path[0] != 'trait_handlers':
            continue
        if needles is not None and not any(x in fn.qname for x in needles):
            continue
        fw = cx.fw(fn)
        fills = {}
        for ev in fw.events:
            if ev.kind == 'mcall' and ev.method in FILL_METHODS:
                r = strip_refs(ev.recv)
                if r['k'] == 'Path' and len(r['path']['segs']) == 1:
                    d = ev.scope.lookup(r['path']['s'])
                    if d is not None and d.kind == 'let':
                        fills.setdefault(d.id, (d, []))[1].append(ev)
        if not fills:
            continue
        consumes = {}
        for ev in fw.events:
            # template holes
            if ev.kind == 'macro' and 'tmpl' in ev.mac:
                t = cx.gm.template_of(ev.mac)
                if t is not None:
                    for h in t.holes:
                        d = t.hole_def(h)
                        if d is not None and d.id in fills:
                            consumes.setdefault(d.id, []).append(ev)
            # loops over the collection, or passing it on
            if ev.kind == 'for':
                base = analyse_iter(ev.entry['iter']).base
                if base['k'] == 'Path' and len(base['path']['segs']) == 1:
                    d = ev.scope.lookup(base['path']['s'])
                    if d is not None and d.id in fills:
                        consumes.setdefault(d.id, []).append(ev)
            # handing it to the bound computation (the where-clause is emitted from it); other calls (lookups, helper predicates)
            # legitimately read running state
            if ev.kind == 'mcall' and ev.method == BOUND_FN:
                for a in ev.args:
                    x = strip_refs(a)
                    if x['k'] == 'Path' and len(x['path']['segs']) == 1:
                        d = ev.scope.lookup(x['path']['s'])
                        if d is not None and d.id in fills and not (ev.kind == 'mcall' and ev.method in FILL_METHODS and strip_refs(ev.recv) is x):
                            consumes.setdefault(d.id, []).append(ev)
        for did, (d, fl) in fills.items():
            cons = consumes.get(did, [])
            if not cons:
                continue
            n += 1
            def_loops = set(c['id'] for c in d.ctx if c['k'] == 'for')
            bad = None
            for f_ev in fl:
                floops = [c for c in f_ev.ctx if c['k'] == 'for']   # a while/loop search carries its state by design
                for c_ev in cons:
                    cloops = set(c['id'] for c in c_ev.ctx if c['k'] == 'for')
                    for L in floops:
                        if L['id'] in cloops and L['id'] not in def_loops:
                            # filled and consumed inside the same loop, created outside it
                            bad = (L, f_ev, c_ev)
            if bad:
                L, f_ev, c_ev = bad
                rep.bad(rule, fn.qname, 'carry-over=%s' % d.name,
                        '`%s` is created outside the loop `for %s in %s` but filled (line %d) and consumed (line %d) inside it: what earlier iterations put into it leaks into later ones' % (
                            d.name, es({'k': 'Path', 'path': {'s': '..', 'segs': [{'id': '..'}], 'global': False}}) if False else __import__('sa.syn', fromlist=['pat_s']).pat_s(L.get('pat')) if L.get('pat') else '..',
                            es(L['iter'])[:50] if L.get('iter') else '..', f_ev.line, c_ev.line),
                        fn.file, d.line)
            else:
                rep.ok(rule, '%s|%s' % (fn.qname, d.name))
    return n
