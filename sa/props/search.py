"""Abstract interpretation of unique-selection search loops (shared by C09/C10/C13)."""
from ..syn import es, pat_s

class Unmodelled(Exception):
    pass


def _mentions(node, name):
    from ..syn import walk_json
    for x in walk_json(node):
        if isinstance(x, dict) and x.get('k') == 'Path' and x.get('path', {}).get('s') == name:
            return True
    return False


def _has_jump(node):
    from ..syn import walk_json
    for x in walk_json(node):
        if isinstance(x, dict) and x.get('k') in ('Break', 'Continue', 'Return'):  # a question-mark operator only adds a refusal exit
            return True
    return False


def _opt_value(e, name, st):
    """abstract value ('N' / 'S') of an expression assigned to the selection variable"""
    k = e['k']
    if k == 'Path' and es(e) == 'None':
        return 'N'
    if k == 'Call' and es(e['func']) == 'Some':
        return 'S'
    if k == 'Match' and es(e['expr']) == name:
        for arm in e['arms']:
            ps = pat_s(arm['pat'])
            if arm.get('guard') is not None:
                raise Unmodelled('guarded arm in a match over the selection')
            hit = (ps == 'None' and st == 'N') or (ps.startswith('Some(') and st == 'S') or ps == '_'
            if hit:
                b = arm['body']
                while b['k'] == 'Block' and len(b['stmts']) == 1 and b['stmts'][0]['k'] == 'Expr' and not b['stmts'][0]['semi']:
                    b = b['stmts'][0]['expr']
                if b['k'] == 'Path' and es(b) == name:
                    return st
                return _opt_value(b, name, st)
        raise Unmodelled('non-exhaustive model of a match over the selection')
    if k == 'Paren':
        return _opt_value(e['expr'], name, st)
    raise Unmodelled('value assigned to the selection: %s' % es(e)[:60])


def search_automaton(body, name):
    """Abstract interpretation of one search-loop body over the selection variable's state {N(one), S(ome)}.
    Every condition that does not test the selection is a *field condition* (its outcome depends on the visited field only).  A
    field kind K is an assignment of outcomes to all field conditions; for each K and each state the body has exactly one path.
    Returns (conds, {K: {state: (state', exit, touched)}}) with exit in fall|break|err."""
    conds = []

    def cid(c):
        for i_, x in enumerate(conds):
            if x is c:
                return i_
        conds.append(c)
        return len(conds) - 1

    def block(stmts, st):
        outs = [(st, 'fall', {}, False)]
        for s_ in stmts:
            nxt = []
            for (cur, ex, dec, touched) in outs:
                if ex != 'fall':
                    nxt.append((cur, ex, dec, touched))
                    continue
                for (c2, e2, d2, t2) in stmt(s_, cur):
                    if any(k_ in dec and dec[k_] != v_ for k_, v_ in d2.items()):
                        continue
                    nd = dict(dec); nd.update(d2)
                    nxt.append((c2, e2, nd, touched or t2))
            outs = nxt
        return outs

    def stmt(s_, st):
        k = s_['k']
        if k == 'Local':
            if s_.get('init') is not None and (_mentions(s_['init'], name) or _has_jump(s_['init'])):
                raise Unmodelled('let with the selection or a jump in a search loop')
            return [(st, 'fall', {}, False)]
        if k == 'Item':
            return [(st, 'fall', {}, False)]
        if k != 'Expr':
            raise Unmodelled('statement ' + k)
        return expr(s_['expr'], st)

    def blk_or_expr(b, st):
        return block(b['stmts'], st) if b['k'] == 'Block' else expr(b, st)

    def expr(e, st):
        k = e['k']
        if k == 'Block':
            return block(e['stmts'], st)
        if k == 'If':
            c = e['cond']
            els = e.get('else')
            def run_else():
                if els is None:
                    return [(st, 'fall', {}, False)]
                return blk_or_expr(els, st)
            neg = False
            cc = c
            while cc['k'] == 'Unary' and cc.get('op') == '!':
                neg = not neg
                cc = cc['expr']
                while cc['k'] == 'Paren':
                    cc = cc['expr']
            cs = es(cc) if cc['k'] != 'Let' else None
            if cs in (name + '.is_some()', name + '.is_none()'):
                truth = ((st == 'S') == (cs.endswith('is_some()'))) != neg
                return block(e['then']['stmts'], st) if truth else run_else()
            if c['k'] == 'Let' and es(c['expr']).lstrip('&') in (name, name + '.as_ref()') and (pat_s(c['pat']).startswith('Some(') or pat_s(c['pat']) == 'None'):
                truth = (st == 'S') == pat_s(c['pat']).startswith('Some(')
                return block(e['then']['stmts'], st) if truth else run_else()
            if _mentions(c, name):
                raise Unmodelled('condition over the selection: %s' % es(c)[:60])
            if _has_jump(c):
                raise Unmodelled('jump inside a condition')
            i_ = cid(c)
            pos = [(a, b, {**d_, i_: True}, t) for (a, b, d_, t) in block(e['then']['stmts'], st) if d_.get(i_, True) is True]
            ng = [(a, b, {**d_, i_: False}, t) for (a, b, d_, t) in run_else() if d_.get(i_, False) is False]
            return pos + ng
        if k == 'Match':
            sc = es(e['expr']).lstrip('&')
            if sc in (name, name + '.as_ref()', name + '.is_some()', name + '.is_none()'):
                for arm in e['arms']:
                    if arm.get('guard') is not None:
                        raise Unmodelled('guarded arm in a match over the selection')
                    ps = pat_s(arm['pat'])
                    if sc.endswith('is_some()') or sc.endswith('is_none()'):
                        truth = (st == 'S') == sc.endswith('is_some()')
                        hit = ps == '_' or ps == ('true' if truth else 'false')
                    else:
                        hit = ps == '_' or (ps == 'None' and st == 'N') or (ps.startswith('Some(') and st == 'S')
                    if hit:
                        return blk_or_expr(arm['body'], st)
                raise Unmodelled('non-exhaustive model of a match over the selection')
            if _mentions(e, name) or _has_jump(e):
                raise Unmodelled('match involving the selection or a jump')
            return [(st, 'fall', {}, False)]
        if k == 'Assign':
            if es(e['l_']) == name:
                return [(_opt_value(e['r_'], name, st), 'fall', {}, True)]
            if _mentions(e, name) or _has_jump(e):
                raise Unmodelled('assignment involving the selection')
            return [(st, 'fall', {}, False)]
        if k == 'Break':
            if e.get('label') or e.get('expr'):
                raise Unmodelled('labelled break')
            return [(st, 'break', {}, False)]
        if k == 'Continue':
            if e.get('label'):
                raise Unmodelled('labelled continue')
            return [(st, 'next', {}, False)]
        if k == 'Return':
            v = e.get('expr')
            if v is not None and v['k'] == 'Call' and es(v['func']) == 'Err':
                return [(st, 'err', {}, False)]
            raise Unmodelled('return of a non-error inside a search loop')
        if _mentions(e, name) or _has_jump(e):
            raise Unmodelled('expression %s involving the selection or a jump' % k)
        return [(st, 'fall', {}, False)]

    paths = {st: block(body['stmts'], st) for st in ('N', 'S')}
    n = len(conds)
    if n > 8:
        raise Unmodelled('more than 8 field conditions in one search loop')
    import itertools
    kinds = {}
    for K in itertools.product((True, False), repeat=n):
        row = {}
        for st in ('N', 'S'):
            m = [p_ for p_ in paths[st] if all(K[i_] == v_ for i_, v_ in p_[2].items())]
            if len(m) != 1:
                raise Unmodelled('%d paths for one field kind' % len(m))
            c2, ex, _, touched = m[0]
            row[st] = (c2, 'fall' if ex == 'next' else ex, touched)
        kinds[K] = row
    return conds, kinds


def check_search_loops(S, d, var):
    """every search loop designates a field iff it is the ONLY field meeting the loop's condition:
    no hit: selection untouched; first hit: None -> Some; a further hit: refusal (Err) or reset to None and stop searching"""
    loops = {}
    for a in d.assigns:
        for c in a.ctx:
            if c['k'] == 'for' and c not in d.ctx:
                loops[c['id']] = c
    out = []
    for L, Lc in sorted(loops.items()):
        fe = [ev for ev in S.fw.events if ev.kind == 'for' and ev.entry['id'] == L]
        if not fe:
            return 'search loop body not found'
        try:
            r = search_automaton(fe[0].node['body'], d.name)
        except Unmodelled as u:
            return 'UNANALYSABLE search loop at line %d: %s' % (Lc['line'], u)
        conds, kinds = r
        hits = []
        for K, row in kinds.items():
            n_, s_ = row['N'], row['S']
            if n_ == ('N', 'fall', False) and s_ == ('S', 'fall', False):
                continue            # a field of this kind leaves the selection alone
            if n_[0] == 'S' and n_[1] == 'fall' and (s_[1] == 'err' or (s_[0] == 'N' and s_[1] == 'break')):
                hits.append((K, s_))
                continue            # first hit designates; a further hit refuses, or resets and stops
            kdesc = ', '.join('%s`%s`' % ('' if v_ else 'not ', es(conds[i_])[:40]) for i_, v_ in enumerate(K)) or 'any field'
            if n_[1] == 'err' or s_[1] == 'err':
                if n_[1] == 'err' and s_[1] == 'err':
                    continue        # a field of this kind is refused outright
            if n_ == ('N', 'fall', False) or n_[0] == 'N' and n_[1] == 'fall':
                return ('search loop at line %d: for a field with %s an existing designation is changed or the loop is left (Some -> %s, %s) although such a field is never designated'
                        % (Lc['line'], kdesc, s_[0], s_[1]))
            if n_[0] == 'S' and n_[1] != 'fall':
                return 'search loop at line %d: the search stops at the first matching field (%s), a second one is never seen' % (Lc['line'], kdesc)
            return ('search loop at line %d: for a field with %s a further matching field neither refuses nor resets-and-stops (None -> %s/%s, Some -> %s/%s): with more '
                    'matching fields the ambiguity is resolved silently' % (Lc['line'], kdesc, n_[0], n_[1], s_[0], s_[1]))
        if not hits:
            return 'search loop at line %d: no kind of field is ever designated' % Lc['line']
        out.append((L, sorted(set(h[1] for h in hits))))
    return out

