"""Abstract interpretation of unique-selection search loops (shared by C09/C10/C13)."""
from ..syn import es, pat_s

class Unmodelled(Exception):
    pass


def _mentions(node, name):
    from ..syn import walk_json
    for x in walk_json(node):
        if isinstance(x, dict) and x.get('k') == 'Path' and x.get('path', {}).get('s') == name:
            return True
    return False


def _has_jump(node):
    from ..syn import walk_json
    for x in walk_json(node):
        if isinstance(x, dict) and x.get('k') in ('Break', 'Continue', 'Return'):  # a question-mark operator only adds a refusal exit
            return True
    return False


def _opt_value(e, name, st):
    """abstract value ('N' / 'S') of an expression assigned to the selection variable"""
    k = e['k']
    if k == 'Path' and es(e) == 'None':
        return 'N'
    if k == 'Call' and es(e['func']) == 'Some':
        return 'S'
    if k == 'Match' and es(e['expr']) == name:
        for arm in e['arms']:
            ps = pat_s(arm['pat'])
            if arm.get('guard') is not None:
                raise Unmodelled('guarded arm in a match over the selection')
            hit = (ps == 'None' and st == 'N') or (ps.startswith('Some(') and st == 'S') or ps == '_'
            if hit:
                b = arm['body']
                while b['k'] == 'Block' and len(b['stmts']) == 1 and b['stmts'][0]['k'] == 'Expr' and not b['stmts'][0]['semi']:
                    b = b['stmts'][0]['expr']
                if b['k'] == 'Path' and es(b) == name:
                    return st
                return _opt_value(b, name, st)
        raise Unmodelled('non-exhaustive model of a match over the selection')
    if k == 'Paren':
        return _opt_value(e['expr'], name, st)
    raise Unmodelled('value assigned to the selection: %s' % es(e)[:60])


def search_automaton(body, name):
    """Abstract interpretation of one search-loop body over the selection variable's state {N(one), S(ome)}.
    Returns {state: {'hit': set((state', exit)), 'miss': set((state', exit, touched))}} where a hit is the path taking every
    field-dependent condition positively, exit in fall|break|err."""
    def block(stmts, st):
        outs = [(st, 'fall', True, False, 0)]
        for s_ in stmts:
            nxt = []
            for (cur, ex, allpos, touched, npos) in outs:
                if ex != 'fall':
                    nxt.append((cur, ex, allpos, touched, npos))
                    continue
                for (c2, e2, a2, t2, n2) in stmt(s_, cur):
                    nxt.append((c2, e2, allpos and a2, touched or t2, npos + n2))
            outs = nxt
        return outs

    def stmt(s_, st):
        k = s_['k']
        if k == 'Local':
            if s_.get('init') is not None and (_mentions(s_['init'], name) or _has_jump(s_['init'])):
                raise Unmodelled('let with the selection or a jump in a search loop')
            return [(st, 'fall', True, False, 0)]
        if k == 'Item':
            return [(st, 'fall', True, False, 0)]
        if k != 'Expr':
            raise Unmodelled('statement ' + k)
        return expr(s_['expr'], st)

    def expr(e, st):
        k = e['k']
        if k == 'Block':
            return block(e['stmts'], st)
        if k == 'If':
            c = e['cond']
            els = e.get('else')
            def run_else():
                if els is None:
                    return [(st, 'fall', True, False, 0)]
                return block(els['stmts'], st) if els['k'] == 'Block' else expr(els, st)
            cs = es(c) if c['k'] != 'Let' else None
            if cs in (name + '.is_some()', name + '.is_none()'):
                truth = (st == 'S') == (cs.endswith('is_some()'))
                return block(e['then']['stmts'], st) if truth else run_else()
            if c['k'] == 'Let' and es(c['expr']) in (name, '&' + name) and pat_s(c['pat']).startswith('Some('):
                return block(e['then']['stmts'], st) if st == 'S' else run_else()
            if _mentions(c, name):
                raise Unmodelled('condition over the selection: %s' % es(c)[:60])
            if _has_jump(c):
                raise Unmodelled('jump inside a condition')
            pos = [(a, b, ap, t, n + 1) for (a, b, ap, t, n) in block(e['then']['stmts'], st)]
            neg = [(a, b, False, t, n) for (a, b, ap, t, n) in run_else()]
            return pos + neg
        if k == 'Assign':
            if es(e['l_']) == name:
                return [(_opt_value(e['r_'], name, st), 'fall', True, True, 0)]
            if _mentions(e, name) or _has_jump(e):
                raise Unmodelled('assignment involving the selection')
            return [(st, 'fall', True, False, 0)]
        if k == 'Break':
            if e.get('label') or e.get('expr'):
                raise Unmodelled('labelled break')
            return [(st, 'break', True, False, 0)]
        if k == 'Continue':
            return [(st, 'next', True, False, 0)]
        if k == 'Return':
            v = e.get('expr')
            if v is not None and v['k'] == 'Call' and es(v['func']) == 'Err':
                return [(st, 'err', True, False, 0)]
            raise Unmodelled('return of a non-error inside a search loop')
        if _mentions(e, name) or _has_jump(e):
            raise Unmodelled('expression %s involving the selection or a jump' % k)
        return [(st, 'fall', True, False, 0)]

    res = {}
    for st in ('N', 'S'):
        outs = block(body['stmts'], st)
        maxpos = max(n for (_, _, _, _, n) in outs)
        hit = set(); miss = set()
        for (c2, ex, allpos, touched, n) in outs:
            ex = 'fall' if ex == 'next' else ex
            if allpos and n == maxpos and n > 0:
                hit.add((c2, ex))
            else:
                miss.add((c2, ex, touched))
        res[st] = {'hit': hit, 'miss': miss}
    return res


def check_search_loops(S, d, var):
    """every search loop designates a field iff it is the ONLY field meeting the loop's condition:
    no hit: selection untouched; first hit: None -> Some; a further hit: refusal (Err) or reset to None and stop searching"""
    loops = {}
    for a in d.assigns:
        for c in a.ctx:
            if c['k'] == 'for' and c not in d.ctx:
                loops[c['id']] = c
    out = []
    for L, Lc in sorted(loops.items()):
        fe = [ev for ev in S.fw.events if ev.kind == 'for' and ev.entry['id'] == L]
        if not fe:
            return 'search loop body not found'
        try:
            r = search_automaton(fe[0].node['body'], d.name)
        except Unmodelled as u:
            return 'UNANALYSABLE search loop at line %d: %s' % (Lc['line'], u)
        for st in ('N', 'S'):
            for (c2, ex, touched) in r[st]['miss']:
                if c2 != st or ex != 'fall' or touched:
                    return 'search loop at line %d: a field that does not meet the condition changes the selection or leaves the loop (%s -> %s, %s)' % (Lc['line'], st, c2, ex)
        if r['N']['hit'] != {('S', 'fall')}:
            return 'search loop at line %d: the first matching field is not designated (None -> %s)' % (Lc['line'], sorted(r['N']['hit']))
        bad = [h for h in r['S']['hit'] if not (h[1] == 'err' or h == ('N', 'break'))]
        if bad or not r['S']['hit']:
            return ('search loop at line %d: a further matching field neither refuses nor resets-and-stops (Some -> %s): with more matching '
                    'fields the ambiguity is resolved silently' % (Lc['line'], sorted(r['S']['hit'])))
        out.append((L, sorted(r['S']['hit'])))
    return out

