"""Structural model of educe's attribute parsers: the `build_from_attributes` scanners and the
`build_from_*_meta` parameter parsers in every `models` module."""
from .syn import es, pat_s, ty_s, path_s
from .terms import analyse_iter, subterms, term_s, strip_refs
from .metafacts import conjuncts, disjuncts, pat_lits, FROM_PATH, contains_sub
from .walk import ctx_s
from .cx import TRAIT_DIRS

SYNONYMS = {('PartialEq', 'Eq'), ('Ord', 'PartialOrd')}   # (scanner's trait, accepted partner)
TAKEOVER = {'Copy': 'Clone', 'Eq': 'PartialEq', 'PartialOrd': 'Ord'}   # C's impl is emitted by P's handler when both are educed


class TraitBranch:
    def __init__(self, trait, ev, extra_conds, cfg, actions):
        self.trait = trait
        self.ev = ev
        self.extra_conds = extra_conds
        self.cfg = cfg
        self.actions = actions    # list of ('build', method) | ('push', coll) | ('err', ctor) | ('other', text)


class Scanner:
    def __init__(self, cx, fn):
        self.cx = cx
        self.fn = fn
        self.fw = cx.fw(fn)
        self.tm = cx.gm.terms_of(self.fw)
        self.trait = cx.trait_of_module(fn.module)
        self.kind = 'field' if (fn.self_ty or '').startswith('Field') else 'type'
        self.problems = []
        self.analyse()

    def err_ctor(self, ev):
        """constructor path of `return Err(X(..))` / `Err(X(..))`"""
        v = ev.value
        if v is None:
            return None
        if v['k'] == 'Call' and v['func']['k'] == 'Path' and v['func']['path']['s'] == 'Err' and v['args']:
            a = v['args'][0]
            if a['k'] == 'Call' and a['func']['k'] == 'Path':
                return a['func']['path']['s']
            return es(a)[:40]
        return None

    def analyse(self):
        fw, tm = self.fw, self.tm
        self.loops = [ev for ev in fw.events if ev.kind == 'for']
        self.breaks = [ev for ev in fw.events if ev.kind == 'exit' and ev.how in ('break',)]
        self.continues = [ev for ev in fw.events if ev.kind == 'exit' and ev.how == 'continue']
        self.rawloops = [ev for ev in fw.events if ev.kind == 'loop']
        self.exits = [(ev, self.err_ctor(ev)) for ev in fw.events if ev.kind == 'exit' and ev.how == 'return']
        # the meta loop: for meta in <parse_args_with(..)?> ; the attribute loop: for attribute in attributes.iter()
        self.attr_loop = None
        self.meta_loop = None
        for ev in self.loops:
            info = analyse_iter(ev.entry['iter'])
            bt = tm.term(info.base, ev.scope)
            if bt == ('param', 'attributes'):
                self.attr_loop = (ev, info)
            elif isinstance(bt, tuple) and bt[0] == 'try' and isinstance(bt[1], tuple) and bt[1][0] == 'mcall' and bt[1][2] == 'parse_args_with':
                self.meta_loop = (ev, info)
        # trait branches
        self.branches = []
        for ev in fw.events:
            if ev.kind != 'branch' or ev.pos['k'] != 'if':
                continue
            cs = conjuncts(ev.node['cond'])
            hit = None
            others = []
            for c in cs:
                this = None
                if c['k'] == 'Binary' and c['op'] == '==':
                    for a, b in ((c['l_'], c['r_']), (c['r_'], c['l_'])):
                        if b['k'] == 'Path' and b['path']['s'].startswith('Trait::') and self.is_t(a, ev.scope):
                            this = b['path']['s'].split('::')[-1]
                if this is not None and hit is None:
                    hit = this
                else:
                    others.append(c)
            if hit is None:
                continue
            cfg = [p for c in ev.ctx if c['k'] == 'cfg' for p in c.get('preds') or []]
            actions = self.actions_in(ev)
            self.branches.append(TraitBranch(hit, ev, [es(o) for o in others], cfg, actions))

    def is_t(self, e, scope):
        t = self.tm.term(e, scope)
        return contains_sub(t, lambda x: isinstance(x, tuple) and x[:2] == ('call', FROM_PATH))

    def actions_in(self, bev):
        """events inside the then-branch of a trait branch"""
        pid = bev.pos['id']
        out = []
        for ev in self.fw.events:
            if not any(c.get('id') == pid and c['k'] == 'if' and c.get('pol') and not c.get('prior') for c in ev.ctx):
                continue
            if ev.kind == 'mcall' and ev.method.startswith('build_from_') and ev.method.endswith('_meta'):
                out.append(('build', ev.method, ev))
            elif ev.kind == 'mcall' and ev.method == 'push':
                out.append(('push', es(ev.recv), ev))
            elif ev.kind == 'exit' and ev.how == 'return':
                out.append(('err', self.err_ctor(ev), ev))
        return out


def scanners(cx):
    out = []
    for f in cx.crate.fns:
        if f.name == 'build_from_attributes' and len(f.module.path) >= 3 and f.module.path[0] == 'trait_handlers' and f.module.path[2] == 'models':
            out.append(Scanner(cx, f))
    return out


class ParamArm:
    def __init__(self, names, arm_ctx, events):
        self.names = names
        self.ctx = arm_ctx
        self.events = events


class MetaParser:
    """model of one `build_from_<trait>_meta` function"""

    def __init__(self, cx, fn):
        self.cx = cx
        self.fn = fn
        self.fw = cx.fw(fn)
        self.tm = cx.gm.terms_of(self.fw)
        self.trait = cx.trait_of_module(fn.module)
        self.kind = 'field' if (fn.self_ty or '').startswith('Field') else 'type'


def meta_parsers(cx):
    out = []
    for f in cx.crate.fns:
        if f.name.startswith('build_from_') and f.name.endswith('_meta') and len(f.module.path) >= 3 and f.module.path[0] == 'trait_handlers' and f.module.path[2] == 'models':
            out.append(MetaParser(cx, f))
    return out
