"""Structural model of educe's attribute parsers: the `build_from_attributes` scanners and the
`build_from_*_meta` parameter parsers in every `models` module."""
from .syn import es, pat_s, ty_s, path_s
from .terms import analyse_iter, subterms, term_s, strip_refs
from .metafacts import conjuncts, disjuncts, pat_lits, FROM_PATH, contains_sub
from .walk import ctx_s
from .cx import TRAIT_DIRS

SYNONYMS = {('PartialEq', 'Eq'), ('Ord', 'PartialOrd')}   # (scanner's trait, accepted partner)
TAKEOVER = {'Copy': 'Clone', 'Eq': 'PartialEq', 'PartialOrd': 'Ord'}   # C's impl is emitted by P's handler when both are educed


class TraitBranch:
    def __init__(self, trait, ev, extra_conds, cfg, actions):
        self.trait = trait
        self.ev = ev
        self.extra_conds = extra_conds
        self.cfg = cfg
        self.actions = actions    # list of ('build', method) | ('push', coll) | ('err', ctor) | ('other', text)


class Scanner:
    def __init__(self, cx, fn):
        self.cx = cx
        self.fn = fn
        self.fw = cx.fw(fn)
        self.tm = cx.gm.terms_of(self.fw)
        self.trait = cx.trait_of_module(fn.module)
        self.kind = 'field' if (fn.self_ty or '').startswith('Field') else 'type'
        self.problems = []
        self.analyse()

    def err_ctor(self, ev):
        """constructor path of `return Err(X(..))` / `Err(X(..))`"""
        v = ev.value
        if v is None:
            return None
        if v['k'] == 'Call' and v['func']['k'] == 'Path' and v['func']['path']['s'] == 'Err' and v['args']:
            a = v['args'][0]
            if a['k'] == 'Call' and a['func']['k'] == 'Path':
                return a['func']['path']['s']
            return es(a)[:40]
        return None

    def analyse(self):
        fw, tm = self.fw, self.tm
        self.loops = [ev for ev in fw.events if ev.kind == 'for']
        self.breaks = [ev for ev in fw.events if ev.kind == 'exit' and ev.how in ('break',)]
        self.continues = [ev for ev in fw.events if ev.kind == 'exit' and ev.how == 'continue']
        self.rawloops = [ev for ev in fw.events if ev.kind == 'loop']
        self.exits = [(ev, self.err_ctor(ev)) for ev in fw.events if ev.kind == 'exit' and ev.how == 'return']
        # the meta loop: for meta in <parse_args_with(..)?> ; the attribute loop: for attribute in attributes.iter()
        self.attr_loop = None
        self.meta_loop = None
        for ev in self.loops:
            info = analyse_iter(ev.entry['iter'])
            bt = tm.term(info.base, ev.scope)
            if bt == ('param', 'attributes'):
                self.attr_loop = (ev, info)
            elif isinstance(bt, tuple) and bt[0] == 'try' and isinstance(bt[1], tuple) and bt[1][0] == 'mcall' and bt[1][2] == 'parse_args_with':
                self.meta_loop = (ev, info)
        # trait branches
        self.branches = []
        for ev in fw.events:
            if ev.kind != 'branch' or ev.pos['k'] != 'if':
                continue
            cs = conjuncts(ev.node['cond'])
            hit = None
            others = []
            for c in cs:
                this = None
                if c['k'] == 'Binary' and c['op'] == '==':
                    for a, b in ((c['l_'], c['r_']), (c['r_'], c['l_'])):
                        if b['k'] == 'Path' and b['path']['s'].startswith('Trait::') and self.is_t(a, ev.scope):
                            this = b['path']['s'].split('::')[-1]
                if this is not None and hit is None:
                    hit = this
                else:
                    others.append(c)
            if hit is None:
                continue
            cfg = [p for c in ev.ctx if c['k'] == 'cfg' for p in c.get('preds') or []]
            actions = self.actions_in(ev)
            self.branches.append(TraitBranch(hit, ev, [es(o) for o in others], cfg, actions))

    def is_t(self, e, scope):
        t = self.tm.term(e, scope)
        return contains_sub(t, lambda x: isinstance(x, tuple) and x[:2] == ('call', FROM_PATH))

    def actions_in(self, bev):
        """events inside the then-branch of a trait branch"""
        pid = bev.pos['id']
        out = []
        for ev in self.fw.events:
            if not any(c.get('id') == pid and c['k'] == 'if' and c.get('pol') and not c.get('prior') for c in ev.ctx):
                continue
            if ev.kind == 'mcall' and ev.method.startswith('build_from_') and ev.method.endswith('_meta'):
                out.append(('build', ev.method, ev))
            elif ev.kind == 'mcall' and ev.method == 'push':
                out.append(('push', es(ev.recv), ev))
            elif ev.kind == 'exit' and ev.how == 'return':
                out.append(('err', self.err_ctor(ev), ev))
        return out


def scanners(cx):
    out = []
    for f in cx.crate.fns:
        if f.name == 'build_from_attributes' and len(f.module.path) >= 3 and f.module.path[0] == 'trait_handlers' and f.module.path[2] == 'models':
            out.append(Scanner(cx, f))
    return out


class ParamArm:
    def __init__(self, names, arm_ctx, events):
        self.names = names
        self.ctx = arm_ctx
        self.events = events


class MetaParser:
    """model of one `build_from_<trait>_meta` function"""

    def __init__(self, cx, fn):
        self.cx = cx
        self.fn = fn
        self.fw = cx.fw(fn)
        self.tm = cx.gm.terms_of(self.fw)
        self.trait = cx.trait_of_module(fn.module)
        self.kind = 'field' if (fn.self_ty or '').startswith('Field') else 'type'


def meta_parsers(cx):
    out = []
    for f in cx.crate.fns:
        if f.name.startswith('build_from_') and f.name.endswith('_meta') and len(f.module.path) >= 3 and f.module.path[0] == 'trait_handlers' and f.module.path[2] == 'models':
            out.append(MetaParser(cx, f))
    return out


# ------------------------------------------------------------------------------------------
# parameter parsers
# ------------------------------------------------------------------------------------------

def _under(ev, entry_id, idx=None, pol=None):
    for c in ev.ctx:
        if c.get('id') == entry_id and not c.get('prior'):
            if idx is not None and c.get('idx') != idx:
                continue
            if pol is not None and c.get('pol') != pol:
                continue
            return True
    return False


def ret_value_kind(ev):
    """'ok_true' | 'ok_false' | ('err', ctor) | other text for a `return X` exit"""
    v = ev.value
    if v is None:
        return 'unit'
    if v['k'] == 'Call' and v['func']['k'] == 'Path':
        p = v['func']['path']['s']
        if p == 'Ok' and v['args'] and v['args'][0]['k'] == 'Lit' and v['args'][0]['lit']['k'] == 'Bool':
            return 'ok_true' if v['args'][0]['lit']['v'] else 'ok_false'
        if p == 'Err' and v['args']:
            a = v['args'][0]
            if a['k'] == 'Call' and a['func']['k'] == 'Path':
                return ('err', a['func']['path']['s'])
            return ('err', es(a)[:40])
    return es(v)[:60]


class ParamModel:
    def __init__(self, names, entry_id, idx, pol, line):
        self.names = names
        self.entry_id = entry_id
        self.idx = idx
        self.pol = pol
        self.line = line
        self.enable = None          # name of the enable_* field tested first, or None
        self.enable_ok = False
        self.conv = None            # (callee path, arg text)
        self.conv_terms = []
        self.conv_ev = None
        self.reset_flag = None
        self.reset_ok = False
        self.flag_set = None
        self.sets = []              # (target name, value expr json, event)
        self.returns_true = False
        self.other_exits = []
        self.order_ok = True


class MetaParserModel:
    def __init__(self, cx, mp):
        self.cx = cx
        self.mp = mp
        self.fn = mp.fn
        self.fw = mp.fw
        self.tm = mp.tm
        self.problems = []
        self.top = None
        self.arms = {}       # 'Path'|'NameValue'|'List' -> (arm ctx entry idx, events)
        self.params = []
        self.closure = None
        self.tail_loop_ok = False
        self.default_false = False
        self.analyse()

    def analyse(self):
        fw, tm = self.fw, self.tm
        # top-level match on the meta
        for ev in fw.events:
            if ev.kind == 'match':
                pats = [pat_s(a['pat']) for a in ev.node['arms']]
                if any('Meta::Path' in p for p in pats) and any('Meta::List' in p for p in pats):
                    st = tm.term(ev.node['expr'], ev.scope)
                    if st == ('param', 'meta') or (isinstance(st, tuple) and st[0] == 'elem'):
                        self.top = ev
                        break
        if self.top is None:
            self.problems.append('no `match meta { Meta::Path / NameValue / List }`')
            return
        mid = self.top.id
        for idx, a in enumerate(self.top.node['arms']):
            ps = pat_s(a['pat'])
            kinds = [k for k in ('Path', 'NameValue', 'List') if ('Meta::' + k + '(') in ps or ps == 'Meta::' + k]
            evs = [e for e in fw.events if _under(e, mid, idx=idx)]
            for k in kinds:
                self.arms[k] = (idx, evs, a)
        # the handler closure inside the List arm
        if 'List' in self.arms:
            idx, evs, a = self.arms['List']
            clos = [e for e in evs if e.kind == 'closure']
            if clos:
                self.closure = clos[0]
                cid = self.closure.entry['id']
                cevs = [e for e in fw.events if any(c.get('id') == cid for c in e.ctx)]
                self.analyse_closure(cevs, cid)
                # after the closure: for p in result { if !handler(p)? { return Err(attribute_incorrect_format..) } }
                for e in evs:
                    if e.kind == 'exit' and e.how == 'return' and not any(c.get('id') == cid for c in e.ctx):
                        rk = ret_value_kind(e)
                        if isinstance(rk, tuple) and rk[1].endswith('attribute_incorrect_format'):
                            loops = [c for c in e.ctx if c['k'] == 'for']
                            cname = None
                            for le in fw.events:
                                if le.kind == 'let' and le.init is self.closure.node and le.defs:
                                    cname = le.defs[0].name
                            # `if !handler(p)? { return Err }` or `if handler(p)? { } else { return Err }`
                            conds = [c for c in e.ctx if c['k'] == 'if' and cname and (
                                (c['pol'] and es(c['cond']).replace(' ', '').startswith('!%s(' % cname))
                                or (not c['pol'] and es(c['cond']).replace(' ', '').startswith('%s(' % cname)))]
                            if loops and conds:
                                info = analyse_iter(loops[-1]['iter'])
                                # every parameter of the list is handed to the handler: no adaptor on the iteration, and nothing leaves
                                # or cuts short the loop except the refusal itself
                                lid_ = loops[-1].get('id')
                                cut = [x for x in fw.events if x.kind == 'exit' and x.how in ('break', 'continue')
                                       and any(c.get('id') == lid_ and c['k'] == 'for' for c in x.ctx) and not any(c.get('id') == cid for c in x.ctx)]
                                if not info.adaptors and not info.rev and not cut:
                                    self.tail_loop_ok = True

    def closure_result_exits(self, cevs):
        """the closure's value written in tail position (`Ok(true)` / `Ok(false)` at the end of a branch) as synthetic `return` exits,
        so that `.. ; Ok(true)` in tail position and `..; return Ok(true);` are the same thing"""
        from .walk import Event
        by_node = {}
        for e in cevs + [self.closure]:
            if e.kind in ('tail', 'armval', 'closureval'):
                by_node[id(e.node)] = e
        out = []

        def tails(x, hint):
            if x is None:
                return
            k = x['k']
            if k == 'Block':
                st = x['stmts']
                if st and st[-1]['k'] == 'Expr' and not st[-1]['semi']:
                    tails(st[-1]['expr'], by_node.get(id(st[-1]['expr'])) or hint)
                return
            if k == 'If':
                tails(x['then'], hint)
                if x.get('else') is not None:
                    tails(x['else'], hint)
                return
            if k == 'Match':
                for a in x['arms']:
                    tails(a['body'], by_node.get(id(a['body'])) or hint)
                return
            if k in ('Return', 'Break', 'Continue'):
                return
            ev = by_node.get(id(x)) or hint
            if ev is not None and ev.kind != 'closure':
                out.append(Event('exit', x, ev.ctx, ev.scope, ev.fn, how='return', value=x, synthetic=True))
        body = self.closure.node['body']
        cv = [e for e in cevs if e.kind == 'closureval']
        tails(body, cv[0] if cv else None)
        return out

    def analyse_closure(self, cevs, cid):
        fw, tm = self.fw, self.tm
        cevs = sorted(cevs + self.closure_result_exits(cevs), key=lambda e: e.seq)
        # parameter selection: match on ident string, or `if ident == "name"`
        sel = None
        for e in cevs:
            if e.kind == 'match':
                pats = [a['pat'] for a in e.node['arms']]
                if any(pat_lits(p) for p in pats):
                    sel = ('match', e)
                    break
        def name_tests(c):
            """string literals of `x == "a"` / `x == "a" || x == "b"` (same x), else None"""
            if c['k'] == 'Paren':
                return name_tests(c['expr'])
            if c['k'] == 'Binary' and c['op'] == '==' and c['r_']['k'] == 'Lit' and c['r_']['lit']['k'] == 'Str':
                return (es(c['l_']), [c['r_']['lit']['v']])
            if c['k'] == 'Binary' and c['op'] == '||':
                a, b = name_tests(c['l_']), name_tests(c['r_'])
                if a is not None and b is not None and a[0] == b[0]:
                    return (a[0], a[1] + b[1])
            return None
        if sel is None:
            ifs = []
            for e in cevs:
                if e.kind == 'branch' and e.pos['k'] == 'if':
                    nt = name_tests(e.node['cond'])
                    if nt is not None and not any(_under(e, x.pos['id'], pol=True) for x, _ in ifs):
                        ifs.append((e, nt))
            if ifs:
                sel = ('if', ifs)
        if sel is None:
            self.problems.append('no parameter selection found in the handler closure')
            return
        groups = []
        if sel[0] == 'match':
            e = sel[1]
            for idx, a in enumerate(e.node['arms']):
                lits = pat_lits(a['pat'])
                if lits:
                    groups.append(ParamModel(lits, e.id, idx, None, a['l']))
                elif a['pat']['k'] != 'Wild':
                    self.problems.append('unexpected parameter arm pattern `%s`' % pat_s(a['pat']))
            # wildcard arm must do nothing
            for idx, a in enumerate(e.node['arms']):
                if a['pat']['k'] == 'Wild':
                    inner = [x for x in cevs if _under(x, e.id, idx=idx) and x.kind in ('exit', 'assign', 'mcall')]
                    if inner:
                        self.problems.append('the fallback arm for unknown parameters is not empty')
        else:
            for e, nt in sel[1]:
                groups.append(ParamModel(list(nt[1]), e.pos['id'], None, True, e.line))
        for g in groups:
            evs = [x for x in cevs if _under(x, g.entry_id, idx=g.idx, pol=g.pol)]
            self.fill_param(g, evs)
            self.params.append(g)
        # closure result when no arm matched: Ok(false) on every way out that is not inside a parameter arm
        outside = [x for x in cevs if x.kind == 'exit' and x.how == 'return' and getattr(x, 'synthetic', False)
                   and not any(_under(x, g.entry_id, idx=g.idx, pol=g.pol) for g in groups)]
        if outside and all(ret_value_kind(x) == 'ok_false' for x in outside):
            self.default_false = True

    def fill_param(self, g, evs):
        seq = []
        for e in evs:
            if e.kind == 'exit' and e.how == 'return':
                rk = ret_value_kind(e)
                conds = [c for c in e.ctx if c['k'] == 'if' and c['pol'] and not c.get('prior') and c.get('id') != g.entry_id]
                inner = [c for c in conds if _is_after(c, g, e)]
                if rk == 'ok_false' and inner:
                    ce = es(inner[-1]['cond']).replace(' ', '')
                    sc_ = switch_of_cond(ce, bool_fields_of_self(self.cx, self.fw.fn))
                    if sc_ is not None and sc_[1]:
                        g.enable = sc_[0]
                        seq.append(('enable', e.seq))
                        continue
                if isinstance(rk, tuple) and rk[1].endswith('parameter_reset') and inner:
                    g.reset_flag = es(inner[-1]['cond']).replace(' ', '')
                    seq.append(('reset', e.seq))
                    continue
                if rk == 'ok_true' and not inner:
                    g.returns_true = True
                    seq.append(('ret', e.seq))
                    continue
                g.other_exits.append((rk, [es(c['cond']) for c in inner], e))
            elif e.kind == 'let' and e.init is not None and e.init['k'] == 'Try':
                x = e.init['expr']
                if x['k'] == 'Call' and x['func']['k'] == 'Path':
                    g.conv = (x['func']['path']['s'], [es(a) for a in x['args']])
                    g.conv_terms = [self.tm.term(a, e.scope) for a in x['args']]
                    g.conv_ev = e
                    g.conv_def = e.defs[0] if e.defs else None
                    seq.append(('conv', e.seq))
            elif e.kind == 'assign':
                t = e.target
                if t['k'] == 'Path':
                    nm = t['path']['s']
                    d_ = e.scope.lookup(nm)
                    is_flag = nm.endswith('_is_set') or (d_ is not None and d_.kind == 'let' and d_.init is not None and es(d_.init) == 'false'
                                                         and es(e.value) == 'true' and g.reset_flag == nm)
                    if is_flag:
                        if es(e.value) == 'true':
                            g.flag_set = nm
                            seq.append(('flag', e.seq))
                        else:
                            g.other_exits.append(('flag-assign', [es(e.value)], e))
                    else:
                        g.sets.append((nm, e.value, e))
                        seq.append(('set', e.seq))
                else:
                    g.sets.append((es(t), e.value, e))
        order = [k for k, s_ in sorted(seq, key=lambda z: z[1])]
        # expected relative order: enable < conv < reset < (flag,set) < ret
        rank = {'enable': 0, 'conv': 1, 'reset': 2, 'flag': 3, 'set': 3, 'ret': 4}
        last = -1
        for k in order:
            if rank[k] < last:
                g.order_ok = False
            last = max(last, rank[k])
        g.order = order


def _is_after(c, g, e):
    return True


def bool_fields_of_self(cx, fn):
    """names of the `bool` fields of the struct `fn` is a method of (the acceptance switches of an attribute builder)"""
    out = set()
    if fn.self_ty is None:
        return out
    for (mp, name), it in cx.crate.types.items():
        if name == fn.self_ty and tuple(mp) == tuple(fn.module.path) and it['k'] == 'Struct':
            for f in it['fields']['fields']:
                if f.get('name') and ty_s(f['ty']).strip() == 'bool':
                    out.add(f['name'])
    return out


def switch_of_cond(text, switches):
    """`self.<switch>` / `!self.<switch>` -> (switch name, negated) if <switch> is a bool field of the builder; else None"""
    t = text.replace(' ', '')
    neg = False
    while t.startswith('!'):
        neg = not neg
        t = t[1:]
    if t.startswith('self.') and t[5:] in switches:
        return t[5:], neg
    return None
