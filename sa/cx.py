"""Shared analysis context: crate model + walks + generated-code model + dispatch table."""
import os, time
from .model import Crate, FEATURES, cfgs_of_attrs
from .walk import Walks, ctx_s
from .tmpl import GenModel
from .gen import HandlerGen, Site, Leaf
from .syn import es, path_s, pat_s

TRAIT_DIRS = {
    'Debug': 'debug', 'Clone': 'clone', 'Copy': 'copy', 'PartialEq': 'partial_eq', 'Eq': 'eq',
    'PartialOrd': 'partial_ord', 'Ord': 'ord', 'Hash': 'hash', 'Default': 'default', 'Deref': 'deref',
    'DerefMut': 'deref_mut', 'Into': 'into',
}


class Cx:
    def __init__(self, repo='/repo'):
        self.repo = repo
        self.t0 = time.time()
        self.crate = Crate(repo)
        self.walks = Walks(self.crate)
        self.gm = GenModel(self.crate, self.walks)
        self._hg = {}
        self._dispatch = None

    def hg(self, fn):
        if id(fn) not in self._hg:
            self._hg[id(fn)] = HandlerGen(self.gm, self.walks.of(fn))
        return self._hg[id(fn)]

    def fw(self, fn):
        return self.walks.of(fn)

    def where(self, fn):
        return fn.qname

    # ----------------------------------------------------------------------------------
    def handler_fns(self):
        """all `trait_meta_handler` fns, with (trait dir, shape guess) from their module path."""
        out = []
        for fn in self.crate.fns:
            if fn.name == 'trait_meta_handler' and fn.trait is not None and len(fn.module.path) >= 2 and fn.module.path[0] == 'trait_handlers':
                out.append(fn)
        return out

    def trait_of_module(self, module):
        if len(module.path) >= 2 and module.path[0] == 'trait_handlers':
            for t, d in TRAIT_DIRS.items():
                if d == module.path[1]:
                    return t
        return None

    def dispatch_shapes(self):
        """{id(handler fn): shape} read off the per-trait dispatchers: `match ast.data { Data::Struct(_) => X::trait_meta_handler(..), .. }`"""
        if getattr(self, '_dshapes', None) is not None:
            return self._dshapes
        from .syn import walk_json
        out = {}
        for fn in self.handler_fns():
            fw = self.fw(fn)
            for ev in fw.events:
                if ev.kind == 'match' and es(ev.node['expr']).replace('&', '') == 'ast.data':
                    for arm in ev.node['arms']:
                        ps = pat_s(arm['pat'])
                        shape = None
                        for sh in ('Struct', 'Enum', 'Union'):
                            if ps.startswith('Data::' + sh):
                                shape = sh.lower()
                        if shape is None:
                            continue
                        for x in walk_json(arm['body']):
                            if isinstance(x, dict) and x.get('k') == 'Call' and x['func']['k'] == 'Path' and x['func']['path']['segs'][-1]['id'] == 'trait_meta_handler':
                                for callee in self.crate.find_fn(fn.module, [s_['id'] for s_ in x['func']['path']['segs']], fn.self_ty):
                                    if callee is not fn:
                                        out.setdefault(id(callee), set()).add(shape)
        self._dshapes = out
        return out

    def shape_of_handler(self, fn):
        """struct|enum|union|top: from the trait's dispatcher (which Data:: arm calls this handler); else from the Data:: pattern the
        handler destructures (not from its name)."""
        ds = self.dispatch_shapes().get(id(fn))
        if ds and len(ds) == 1:
            return next(iter(ds))
        fw = self.fw(fn)
        shapes = set()
        for ev in fw.events:
            if ev.kind == 'branch' and ev.pos['k'] == 'iflet':
                p = ev.pos['pat']
                if p['k'] == 'TupleStruct' and p['path']['s'] in ('Data::Struct', 'Data::Enum', 'Data::Union'):
                    if es(ev.pos['expr']).replace('&', '') == 'ast.data':
                        shapes.add(p['path']['s'].split('::')[1].lower())
            if ev.kind == 'match' and es(ev.node['expr']).replace('&', '') == 'ast.data':
                return 'top'
        if len(shapes) == 1:
            return shapes.pop()
        return 'top' if not shapes else 'mixed'

    def shape_handlers(self):
        """list of (trait, shape, fn) for handlers that build code for exactly one shape, plus the
        all-shape handlers of Copy / Eq (shape 'top')."""
        out = []
        for fn in self.handler_fns():
            t = self.trait_of_module(fn.module)
            out.append((t, self.shape_of_handler(fn), fn))
        return out

    def all_sites(self, fn):
        """every template site reachable from the handler's output, depth-first, with parent links."""
        hg = self.hg(fn)
        out = []
        bad_leaves = []

        def expand(site):
            if isinstance(site, Leaf):
                if site.kind != 'empty':
                    bad_leaves.append(site)
                return
            out.append(site)
            if site.ast is None:
                return
            site.kids = {}
            for (h, pos, node) in hg.markers(site):
                ch = hg.children(site, h, pos)
                if ch is None:
                    continue
                site.kids.setdefault(h, (pos, ch))
                for s in ch:
                    expand(s)
        for r in hg.root_sites():
            expand(r)
        return out, bad_leaves
