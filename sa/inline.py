"""N8: inlining of private same-module helper functions at `helper(args)?` call statements.

Extracting a stretch of a function into a private helper (the most common structural refactoring) must not change what the rules
see.  A call `let x = helper(a, &b, &mut c)?;` / `helper(..)?;` of a free function that
  * is declared without any visibility in the same module as the caller,
  * returns through a tail `Ok(E)` only (no `return Ok(..)`; `return Err(..)` and `?` inside are fine: they leave the caller the same
    way they left the helper, because the call is followed by `?`),
  * is not recursive,
is replaced by the block `{ let <param> = <arg>; ...; <body statements>; E }` (a deep copy, so that every copy has its own nodes).
Arguments that are plain variables (after `&` / `&mut`) are substituted for the parameter name instead of being bound, so that pushes
into `&mut acc` are still pushes into the caller's `acc`.  The helper itself stays in the crate and is analysed like any other function.
"""
import copy
from .syn import walk_json


def _strip_refs(e):
    while isinstance(e, dict) and e.get('k') == 'Ref':
        e = e['expr']
    return e


def _binder_names(node, out):
    for x in walk_json(node):
        if isinstance(x, dict) and x.get('k') == 'Ident' and 'name' in x and 'by_ref' in x:
            out.add(x['name'])


def _count_uses(node, name):
    n = 0
    for x in walk_json(node):
        if isinstance(x, dict) and x.get('k') == 'Path' and 'path' in x and len(x['path'].get('segs', [])) == 1 and x['path']['s'] == name and 'qself' in x:
            n += 1
    return n


def _hole_uses(node, name):
    n = 0
    for x in walk_json(node):
        if isinstance(x, dict) and x.get('t') == 'h' and x.get('s') == name:
            n += 1
    return n


def _rename(node, mapping):
    if isinstance(node, list):
        return [_rename(x, mapping) for x in node]
    if not isinstance(node, dict):
        return node
    if node.get('t') == 'h' and node.get('s') in mapping and isinstance(mapping[node['s']], str):
        n2 = dict(node)
        n2['s'] = mapping[node['s']]
        return n2
    if node.get('k') == 'Path' and 'path' in node and len(node['path'].get('segs', [])) == 1 and node['path']['s'] in mapping and not node['path'].get('global'):
        if isinstance(mapping[node['path']['s']], dict):
            return copy.deepcopy(mapping[node['path']['s']])      # an argument expression used exactly once
        n2 = dict(node)
        p2 = dict(node['path'])
        p2['s'] = mapping[node['path']['s']]
        p2['segs'] = [{'id': p2['s']}]
        n2['path'] = p2
        return n2
    return {k: (_rename(v, mapping) if not (isinstance(k, str) and k.startswith('_')) else v) for k, v in node.items()}


def inlinable(g, with_try):
    """(params, statements, value expression) of a helper that can be substituted for a call; with_try: the call is `g(..)?`
    (the helper must end in `Ok(E)`; `return Err(..)` and `?` inside are fine); otherwise the helper must not return early or use `?`
    and its tail expression is the value"""
    it = g.item
    if it.get('vis') not in ('', None) and not (it.get('vis') or '').startswith('pub(super)'):
        return None
    if g.self_ty is not None:
        return None
    blk = it['block']
    st = blk.get('stmts', [])
    if not st or st[-1]['k'] != 'Expr' or st[-1]['semi']:
        return None
    tail = st[-1]['expr']
    if with_try:
        if not (tail['k'] == 'Call' and tail['func']['k'] == 'Path' and tail['func']['path']['s'] == 'Ok' and len(tail['args']) == 1):
            return None
        value = tail['args'][0]
    else:
        value = tail
    for x in walk_json(blk):
        if isinstance(x, dict):
            if x.get('k') == 'Return':
                v = x.get('expr')
                if not with_try or not (isinstance(v, dict) and v.get('k') == 'Call' and v['func'].get('k') == 'Path' and v['func']['path']['s'] == 'Err'):
                    return None
            if x.get('k') == 'Try' and not with_try:
                return None
            if x.get('k') == 'Call' and x['func'].get('k') == 'Path' and x['func']['path']['s'].split('::')[-1] == g.name:
                return None       # recursive
            if x.get('k') == 'Item':
                return None
    params = []
    for a in it['sig']['inputs']:
        if a['k'] != 'Typed':
            return None
        pt = a['pat']
        if pt['k'] == 'Wild':
            params.append(None)
        elif pt['k'] == 'Ident':
            params.append(pt['name'])
        else:
            return None
    return params, st[:-1], value


def _candidates(crate, caller, call):
    f = call['func']
    if f['k'] != 'Path':
        return []
    segs = [x['id'] for x in f['path']['segs']]
    name = segs[-1]
    if len(segs) == 1:
        mods = [caller.module]
    elif len(segs) == 2 and segs[0] == 'super':
        mods = [m for m in crate.modules.values() if tuple(m.path) == tuple(caller.module.path[:-1])]
    else:
        return []
    return [g for g in crate.fns if g.name == name and g.module in mods and g.self_ty is None and g is not caller]


def expand_call(crate, caller, call, with_try, stmt_position):
    gs = _candidates(crate, caller, call)
    if not gs:
        return None
    l = call.get('l', 0)
    if len(gs) > 1:
        # cfg twins of one helper: each twin must be a pure expression; the call becomes
        #   { #[cfg(a)] let __v = <body a>; #[cfg(not(a))] let __v = <body b>; __v }
        parts = []
        for g in gs:
            inf = inlinable(g, with_try)
            if inf is None or inf[1] or len(inf[0]) != len(call['args']) or not (g.item.get('attrs')):
                return None
            parts.append((g, inf))
        stmts = []
        for g, (params, _, value) in parts:
            mapping = {}
            for p_, a_ in zip(params, call['args']):
                if p_ is not None:
                    mapping[p_] = a_ if not (_strip_refs(a_)['k'] == 'Path' and len(_strip_refs(a_)['path']['segs']) == 1) else _strip_refs(a_)['path']['s']
            cfg_attrs = [a for a in g.item.get('attrs', []) if a.get('name') == 'cfg']
            if not cfg_attrs:
                return None
            crate.inlined_into[id(g)] = crate.inlined_into.get(id(g), 0) + 1
            stmts.append({'k': 'Local', 'pat': {'k': 'Ident', 'name': '__inlined_value', 'by_ref': False, 'mut': False, 'sub': None, 'l': l}, 'ty': None,
                          'init': copy.deepcopy(_rename(value, mapping)), 'else': None, 'attrs': copy.deepcopy(cfg_attrs), 'l': l})
        return {'k': 'Block', 'l': l, 'inlined': gs[0].qname,
                'stmts': stmts + [{'k': 'Expr', 'expr': {'k': 'Path', 'path': {'segs': [{'id': '__inlined_value'}], 's': '__inlined_value', 'global': False}, 'qself': None, 'l': l},
                                   'semi': False, 'l': l}]}
    g = gs[0]
    inf = inlinable(g, with_try)
    if inf is None:
        return None
    params, stmts, value = inf
    if stmts and not stmt_position:
        return None          # a helper with statements is only substituted where a block may stand (let initialiser / statement)
    if len(params) != len(call['args']):
        return None
    mapping = {}
    lets = []
    for p, a in zip(params, call['args']):
        if p is None:
            continue
        x = _strip_refs(a)
        if x['k'] == 'Path' and len(x['path']['segs']) == 1:
            if x['path']['s'] != p:
                mapping[p] = x['path']['s']
        elif _count_uses(stmts, p) + _count_uses(value, p) == 1 and not (_hole_uses(stmts, p) + _hole_uses(value, p)):
            mapping[p] = a
        else:
            lets.append({'k': 'Local', 'pat': {'k': 'Ident', 'name': p, 'by_ref': False, 'mut': False, 'sub': None, 'l': l}, 'ty': None,
                         'init': a, 'else': None, 'attrs': [], 'l': l})
    if mapping:
        bn = set()
        for s_ in stmts:
            _binder_names(s_, bn)
        if bn & set(v for v in mapping.values() if isinstance(v, str)):
            return None       # a local of the helper would capture the caller's variable
    crate.inlined_into[id(g)] = crate.inlined_into.get(id(g), 0) + 1
    body = copy.deepcopy([_rename(s_, mapping) for s_ in stmts])
    val = copy.deepcopy(_rename(value, mapping))
    if not lets and not body:
        return dict(val, inlined_expr=g.qname) if isinstance(val, dict) else val
    return {'k': 'Block', 'l': l, 'inlined': g.qname,
            'stmts': lets + body + [{'k': 'Expr', 'expr': val, 'semi': False, 'l': l}]}


def _call_sites(crate):
    """{id(helper fn): number of call expressions naming it in its module} before inlining"""
    cnt = {}
    for f in crate.fns:
        for x in walk_json(f.item.get('block')):
            if isinstance(x, dict) and x.get('k') == 'Call' and isinstance(x.get('func'), dict) and x['func'].get('k') == 'Path':
                for g in _candidates(crate, f, x):
                    cnt[id(g)] = cnt.get(id(g), 0) + 1
    return cnt


def inline_helpers(crate):
    before = _call_sites(crate)
    crate.inlined_into = {}      # id(helper) -> number of inlined call sites
    n = 0
    for f in list(crate.fns):
        n += _inline_in(crate, f, f.item.get('block'), 0)
    crate.fully_inlined = set(g for g, k in crate.inlined_into.items() if k >= before.get(g, 0) and k > 0)
    return n


def origin_chains(f):
    """{id(node): tuple of qnames of the helper functions whose inlined body the node belongs to (outermost first)}"""
    out = {}

    def go(node, chain):
        if isinstance(node, list):
            for x in node:
                go(x, chain)
            return
        if not isinstance(node, dict):
            return
        if node.get('k') == 'Block' and node.get('inlined'):
            chain = chain + (node['inlined'],)
        if chain:
            out[id(node)] = chain
        for k, v in node.items():
            if isinstance(k, str) and k.startswith('_'):
                continue
            if isinstance(v, (dict, list)):
                go(v, chain)
    go(f.item.get('block'), ())
    return out


def _inline_in(crate, f, node, depth):
    if depth > 3:
        return 0
    n = 0
    if isinstance(node, list):
        for x in node:
            n += _inline_in(crate, f, x, depth)
        return n
    if not isinstance(node, dict):
        return 0
    if node.get('k') == 'Block' and isinstance(node.get('stmts'), list):
        for st in node['stmts']:
            slot = None
            if st['k'] == 'Local' and isinstance(st.get('init'), dict):
                slot = ('init', st)
            elif st['k'] == 'Expr' and isinstance(st.get('expr'), dict):
                slot = ('expr', st)
            if slot is not None:
                key, holder = slot
                e = holder[key]
                with_try = e.get('k') == 'Try'
                call = e['expr'] if with_try else e
                if isinstance(call, dict) and call.get('k') == 'Call':
                    blk = expand_call(crate, f, call, with_try, True)
                    if blk is not None:
                        holder[key] = blk
                        n += 1 + _inline_in(crate, f, blk, depth + 1)
                        continue
    # expression positions: pure-expression helpers (and cfg twins of them)
    for k, v in list(node.items()):
        if isinstance(k, str) and k.startswith('_'):
            continue
        if isinstance(v, dict):
            if v.get('k') == 'Call' and k not in ('func',):
                rep_ = expand_call(crate, f, v, False, False)
                if rep_ is not None:
                    node[k] = rep_
                    n += 1 + _inline_in(crate, f, rep_, depth + 1)
                    continue
            n += _inline_in(crate, f, v, depth)
        elif isinstance(v, list):
            for idx, x in enumerate(v):
                if isinstance(x, dict) and x.get('k') == 'Call' and k in ('args',):
                    rep_ = expand_call(crate, f, x, False, False)
                    if rep_ is not None:
                        v[idx] = rep_
                        n += 1 + _inline_in(crate, f, rep_, depth + 1)
                        continue
                n += _inline_in(crate, f, x, depth)
    return n
