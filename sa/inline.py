"""N8: inlining of private same-module helper functions at `helper(args)?` call statements.

Extracting a stretch of a function into a private helper (the most common structural refactoring) must not change what the rules
see.  A call `let x = helper(a, &b, &mut c)?;` / `helper(..)?;` of a free function that
  * is declared without any visibility in the same module as the caller,
  * returns through a tail `Ok(E)` only (no `return Ok(..)`; `return Err(..)` and `?` inside are fine: they leave the caller the same
    way they left the helper, because the call is followed by `?`),
  * is not recursive,
is replaced by the block `{ let <param> = <arg>; ...; <body statements>; E }` (a deep copy, so that every copy has its own nodes).
Arguments that are plain variables (after `&` / `&mut`) are substituted for the parameter name instead of being bound, so that pushes
into `&mut acc` are still pushes into the caller's `acc`.  The helper itself stays in the crate and is analysed like any other function.
"""
import copy
from .syn import walk_json


def _strip_refs(e):
    while isinstance(e, dict) and e.get('k') == 'Ref':
        e = e['expr']
    return e


def _binder_names(node, out):
    for x in walk_json(node):
        if isinstance(x, dict) and x.get('k') == 'Ident' and 'name' in x and 'by_ref' in x:
            out.add(x['name'])


def _count_uses(node, name):
    n = 0
    for x in walk_json(node):
        if isinstance(x, dict) and x.get('k') == 'Path' and 'path' in x and len(x['path'].get('segs', [])) == 1 and x['path']['s'] == name and 'qself' in x:
            n += 1
    return n


def _hole_uses(node, name):
    n = 0
    for x in walk_json(node):
        if isinstance(x, dict) and x.get('t') == 'h' and x.get('s') == name:
            n += 1
    return n


def _rename(node, mapping):
    if isinstance(node, list):
        return [_rename(x, mapping) for x in node]
    if not isinstance(node, dict):
        return node
    if node.get('t') == 'h' and node.get('s') in mapping and isinstance(mapping[node['s']], str):
        n2 = dict(node)
        n2['s'] = mapping[node['s']]
        return n2
    if node.get('k') == 'Path' and 'path' in node and len(node['path'].get('segs', [])) == 1 and node['path']['s'] in mapping and not node['path'].get('global'):
        if isinstance(mapping[node['path']['s']], dict):
            return copy.deepcopy(mapping[node['path']['s']])      # an argument expression used exactly once
        n2 = dict(node)
        p2 = dict(node['path'])
        p2['s'] = mapping[node['path']['s']]
        p2['segs'] = [{'id': p2['s']}]
        n2['path'] = p2
        return n2
    return {k: (_rename(v, mapping) if not (isinstance(k, str) and k.startswith('_')) else v) for k, v in node.items()}


def _option_chain(it, st):
    """An `Option`-returning helper of the form `let P1 = E1?; let P2 = E2?; ..; Some(R)` / `..; TAIL` is the expression
    `if let Some(P1) = E1 { if let Some(P2) = E2 { TAIL } else { None } } else { None }` (the `?`s leave the helper with `None`)."""
    out = it['sig'].get('output')
    if not (isinstance(out, dict) and (out.get('text') or '').replace(' ', '').startswith('Option<')):
        return None
    body = st[:-1]
    tail = st[-1]['expr']
    if not body:
        return None
    for s_ in body:
        if s_.get('k') != 'Local' or s_.get('else') is not None or not isinstance(s_.get('init'), dict) or s_['init'].get('k') != 'Try' or s_.get('attrs'):
            return None
    for x in walk_json(tail):
        if isinstance(x, dict) and x.get('k') in ('Try', 'Return'):
            return None
    for s_ in body:
        for x in walk_json(s_['init']['expr']):
            if isinstance(x, dict) and x.get('k') in ('Try', 'Return'):
                return None
    l = it.get('l', 0)
    none = {'k': 'Path', 'l': l, 'qself': None, 'path': {'global': False, 'l': l, 's': 'None', 'segs': [{'id': 'None'}]}}
    expr = tail
    for s_ in reversed(body):
        pat = s_['pat']
        while pat.get('k') == 'Type':
            pat = pat['pat']
        some = {'k': 'TupleStruct', 'l': l, 'qself': False, 'path': {'global': False, 'l': l, 's': 'Some', 'segs': [{'id': 'Some'}]}, 'elems': [pat]}
        expr = {'k': 'If', 'l': s_.get('l', l), 'desugared': 'option-?',
                'cond': {'k': 'Let', 'l': l, 'pat': some, 'expr': s_['init']['expr']},
                'then': {'k': 'Block', 'l': l, 'stmts': [{'k': 'Expr', 'expr': expr, 'semi': False, 'l': l}]},
                'else': {'k': 'Block', 'l': l, 'stmts': [{'k': 'Expr', 'expr': copy.deepcopy(none), 'semi': False, 'l': l}]}}
    return expr


def _unself(node, ty):
    """`Self::X` -> `<ty>::X` in a copy that moves out of the impl block"""
    if isinstance(node, list):
        return [_unself(x, ty) for x in node]
    if not isinstance(node, dict):
        return node
    out = {k: (_unself(v, ty) if not (isinstance(k, str) and k.startswith('_')) else v) for k, v in node.items()}
    if 'segs' in out and isinstance(out.get('segs'), list) and out['segs'] and out['segs'][0].get('id') == 'Self' and isinstance(out.get('s'), str):
        segs = [dict(x) for x in out['segs']]
        segs[0]['id'] = ty
        out['segs'] = segs
        out['s'] = ty + out['s'][4:]
    return out


def _result_value(e):
    """a `Result` expression all of whose leaves are `Ok(v)` / `Err(x)` (through match arms, if/else, blocks) as the value of
    `<that expression>?` inside a function returning the same Result: `Ok(v)` -> `v`, `Err(x)` -> `return Err(x)`; None if not of that form"""
    k = e.get('k')
    if k == 'Call' and e['func'].get('k') == 'Path' and len(e['args']) == 1:
        fn = e['func']['path']['s']
        if fn == 'Ok':
            return e['args'][0]
        if fn == 'Err':
            return {'k': 'Return', 'l': e.get('l', 0), 'expr': e}
        return None
    if k == 'Match':
        arms = []
        for a in e['arms']:
            b = _result_value(a['body'])
            if b is None:
                return None
            arms.append(dict(a, body=b))
        return dict(e, arms=arms)
    if k == 'If' and e.get('else') is not None:
        t, f = _result_value(e['then']), _result_value(e['else'])
        if t is None or f is None:
            return None
        if t.get('k') != 'Block':
            t = {'k': 'Block', 'l': e.get('l', 0), 'stmts': [{'k': 'Expr', 'expr': t, 'semi': False, 'l': e.get('l', 0)}]}
        return dict(e, then=t, **{'else': f})
    if k == 'Block':
        st = e.get('stmts') or []
        if not st or st[-1].get('k') != 'Expr' or st[-1].get('semi'):
            return None
        v = _result_value(st[-1]['expr'])
        if v is None:
            return None
        return dict(e, stmts=st[:-1] + [dict(st[-1], expr=v)])
    return None


def inlinable(g, with_try):
    """(params, statements, value expression) of a helper that can be substituted for a call; with_try: the call is `g(..)?`
    (the helper must end in `Ok(E)`; `return Err(..)` and `?` inside are fine); otherwise the helper must not return early or use `?`
    and its tail expression is the value"""
    it = g.item
    if it.get('vis') not in ('', None) and not (it.get('vis') or '').startswith('pub(super)'):
        return None
    if g.self_ty is not None and (it['sig']['inputs'] and it['sig']['inputs'][0].get('k') == 'Self'):
        return None
    blk = it['block']
    st = blk.get('stmts', [])
    if not st or st[-1]['k'] != 'Expr' or st[-1]['semi']:
        return None
    tail = st[-1]['expr']
    oc = None if with_try else _option_chain(it, st)
    if oc is not None:
        params = []
        for a in it['sig']['inputs']:
            if a['k'] != 'Typed' or a['pat']['k'] not in ('Wild', 'Ident'):
                return None
            params.append(None if a['pat']['k'] == 'Wild' else a['pat']['name'])
        return params, [], oc
    if with_try:
        if tail['k'] == 'Call' and tail['func']['k'] == 'Path' and tail['func']['path']['s'] == 'Ok' and len(tail['args']) == 1:
            value = tail['args'][0]
        else:
            # `match E { P => Ok(v), _ => Err(x) }?`  ==  `match E { P => v, _ => return Err(x) }`
            value = _result_value(tail) if tail['k'] in ('Match', 'If') else None
            if value is None:
                return None
            blk = dict(blk, stmts=st[:-1] + [dict(st[-1], expr=value)])
    else:
        value = tail
    for x in walk_json(blk):
        if isinstance(x, dict):
            if x.get('k') == 'Return':
                v = x.get('expr')
                if not with_try or not (isinstance(v, dict) and v.get('k') == 'Call' and v['func'].get('k') == 'Path' and v['func']['path']['s'] == 'Err'):
                    return None
            if x.get('k') == 'Try' and not with_try:
                return None
            if x.get('k') == 'Call' and x['func'].get('k') == 'Path' and x['func']['path']['s'].split('::')[-1] == g.name:
                return None       # recursive
            if x.get('k') == 'Item':
                return None
    params = []
    for a in it['sig']['inputs']:
        if a['k'] != 'Typed':
            return None
        pt = a['pat']
        if pt['k'] == 'Wild':
            params.append(None)
        elif pt['k'] == 'Ident':
            params.append(pt['name'])
        else:
            return None
    return params, st[:-1], value


def _candidates(crate, caller, call):
    f = call['func']
    if f['k'] != 'Path':
        return []
    segs = [x['id'] for x in f['path']['segs']]
    name = segs[-1]
    if len(segs) == 1:
        mods = [caller.module]
    elif len(segs) == 2 and segs[0] == 'super':
        mods = [m for m in crate.modules.values() if tuple(m.path) == tuple(caller.module.path[:-1])]
    elif len(segs) == 2 and (segs[0] == 'Self' and caller.self_ty or segs[0][:1].isupper()):
        # a private associated function without receiver (`Self::helper(..)` / `Type::helper(..)`) of a type of the same module
        ty = caller.self_ty if segs[0] == 'Self' else segs[0]
        return [g for g in crate.fns if g.name == name and g.module is caller.module and g.self_ty == ty and g is not caller
                and not (g.item['sig']['inputs'] and g.item['sig']['inputs'][0].get('k') == 'Self')]
    else:
        return []
    return [g for g in crate.fns if g.name == name and g.module in mods and g.self_ty is None and g is not caller]


def expand_call(crate, caller, call, with_try, stmt_position):
    gs = _candidates(crate, caller, call)
    if not gs:
        return None
    l = call.get('l', 0)
    if len(gs) > 1:
        # cfg twins of one helper: each twin must be a pure expression; the call becomes
        #   { #[cfg(a)] let __v = <body a>; #[cfg(not(a))] let __v = <body b>; __v }
        parts = []
        for g in gs:
            inf = inlinable(g, with_try)
            if inf is None or inf[1] or len(inf[0]) != len(call['args']) or not (g.item.get('attrs')):
                return None
            parts.append((g, inf))
        stmts = []
        for g, (params, _, value) in parts:
            mapping = {}
            for p_, a_ in zip(params, call['args']):
                if p_ is not None:
                    mapping[p_] = a_ if not (_strip_refs(a_)['k'] == 'Path' and len(_strip_refs(a_)['path']['segs']) == 1) else _strip_refs(a_)['path']['s']
            cfg_attrs = [a for a in g.item.get('attrs', []) if a.get('name') == 'cfg']
            if not cfg_attrs:
                return None
            crate.inlined_into[id(g)] = crate.inlined_into.get(id(g), 0) + 1
            stmts.append({'k': 'Local', 'pat': {'k': 'Ident', 'name': '__inlined_value', 'by_ref': False, 'mut': False, 'sub': None, 'l': l}, 'ty': None,
                          'init': copy.deepcopy(_rename(value, mapping)), 'else': None, 'attrs': copy.deepcopy(cfg_attrs), 'l': l})
        return {'k': 'Block', 'l': l, 'inlined': gs[0].qname,
                'stmts': stmts + [{'k': 'Expr', 'expr': {'k': 'Path', 'path': {'segs': [{'id': '__inlined_value'}], 's': '__inlined_value', 'global': False}, 'qself': None, 'l': l},
                                   'semi': False, 'l': l}]}
    g = gs[0]
    inf = inlinable(g, with_try)
    if inf is None:
        return None
    params, stmts, value = inf
    if stmts and not stmt_position:
        return None          # a helper with statements is only substituted where a block may stand (let initialiser / statement)
    if len(params) != len(call['args']):
        return None
    mapping = {}
    lets = []
    for p, a in zip(params, call['args']):
        if p is None:
            continue
        x = _strip_refs(a)
        if x['k'] == 'Path' and len(x['path']['segs']) == 1:
            if x['path']['s'] != p:
                mapping[p] = x['path']['s']
        elif _count_uses(stmts, p) + _count_uses(value, p) == 1 and not (_hole_uses(stmts, p) + _hole_uses(value, p)):
            mapping[p] = a
        else:
            lets.append({'k': 'Local', 'pat': {'k': 'Ident', 'name': p, 'by_ref': False, 'mut': False, 'sub': None, 'l': l}, 'ty': None,
                         'init': a, 'else': None, 'attrs': [], 'l': l})
    if mapping:
        bn = set()
        for s_ in stmts:
            _binder_names(s_, bn)
        if bn & set(v for v in mapping.values() if isinstance(v, str)):
            return None       # a local of the helper would capture the caller's variable
    crate.inlined_into[id(g)] = crate.inlined_into.get(id(g), 0) + 1
    body = copy.deepcopy([_rename(s_, mapping) for s_ in stmts])
    val = copy.deepcopy(_rename(value, mapping))
    if g.self_ty is not None and caller.self_ty != g.self_ty:
        body = [_unself(s_, g.self_ty) for s_ in body]
        val = _unself(val, g.self_ty)
    if not lets and not body:
        return dict(val, inlined_expr=g.qname) if isinstance(val, dict) else val
    return {'k': 'Block', 'l': l, 'inlined': g.qname,
            'stmts': lets + body + [{'k': 'Expr', 'expr': val, 'semi': False, 'l': l}]}


def _call_sites(crate):
    """{id(helper fn): number of call expressions naming it in its module} before inlining"""
    cnt = {}
    for f in crate.fns:
        for x in walk_json(f.item.get('block')):
            if isinstance(x, dict) and x.get('k') == 'Call' and isinstance(x.get('func'), dict) and x['func'].get('k') == 'Path':
                for g in _candidates(crate, f, x):
                    cnt[id(g)] = cnt.get(id(g), 0) + 1
    return cnt


def _free_names(node, out):
    for x in walk_json(node):
        if isinstance(x, dict):
            if x.get('k') == 'Path' and 'path' in x and len(x['path'].get('segs', [])) == 1 and 'qself' in x and not x['path'].get('global'):
                out.add(x['path']['s'])
            elif x.get('t') == 'h' and 's' in x:
                out.add(x['s'])


def _binder_count(node, name):
    n = 0
    for x in walk_json(node):
        if isinstance(x, dict) and x.get('k') == 'Ident' and x.get('name') == name and 'by_ref' in x:
            n += 1
    return n


def _pat_binders(p):
    out = set()
    _binder_names(p, out)
    return out


def _shadowed_call(node, name, free, shadowed):
    """is there a call of `name` in a region where one of the names in `free` has been re-bound?"""
    if isinstance(node, list):
        # a statement list: `let` extends the shadowed set for what follows
        sh = shadowed
        for x in node:
            if isinstance(x, dict) and x.get('k') == 'Local':
                if _shadowed_call(x.get('init'), name, free, sh) or _shadowed_call(x.get('else'), name, free, sh):
                    return True
                sh = sh | (_pat_binders(x.get('pat')) & free)
            elif _shadowed_call(x, name, free, sh):
                return True
        return False
    if not isinstance(node, dict):
        return False
    k = node.get('k')
    if k == 'Call' and isinstance(node.get('func'), dict) and node['func'].get('k') == 'Path' and node['func']['path'].get('s') == name:
        if shadowed:
            return True
    if k == 'Block' and isinstance(node.get('stmts'), list):
        return _shadowed_call(node['stmts'], name, free, shadowed)
    if k == 'If':
        c = node.get('cond')
        sh_then = shadowed
        if isinstance(c, dict) and c.get('k') == 'Let':
            if _shadowed_call(c.get('expr'), name, free, shadowed):
                return True
            sh_then = shadowed | (_pat_binders(c.get('pat')) & free)
        elif _shadowed_call(c, name, free, shadowed):
            return True
        return _shadowed_call(node.get('then'), name, free, sh_then) or _shadowed_call(node.get('else'), name, free, shadowed)
    if k == 'Match':
        if _shadowed_call(node.get('expr'), name, free, shadowed):
            return True
        for a in node.get('arms') or []:
            sh = shadowed | (_pat_binders(a.get('pat')) & free)
            if _shadowed_call(a.get('guard'), name, free, sh) or _shadowed_call(a.get('body'), name, free, sh):
                return True
        return False
    if k in ('ForLoop', 'For'):
        if _shadowed_call(node.get('iter') or node.get('expr'), name, free, shadowed):
            return True
        return _shadowed_call(node.get('body'), name, free, shadowed | (_pat_binders(node.get('pat')) & free))
    if k == 'While':
        c = node.get('cond')
        sh = shadowed
        if isinstance(c, dict) and c.get('k') == 'Let':
            sh = shadowed | (_pat_binders(c.get('pat')) & free)
        return _shadowed_call(c, name, free, shadowed) or _shadowed_call(node.get('body'), name, free, sh)
    if k == 'Closure':
        sh = shadowed
        for pp in node.get('params') or []:
            sh = sh | (_pat_binders(pp) & free)
        return _shadowed_call(node.get('body'), name, free, sh)
    for kk, v in node.items():
        if isinstance(kk, str) and kk.startswith('_'):
            continue
        if isinstance(v, (dict, list)) and _shadowed_call(v, name, free, shadowed):
            return True
    return False


def inline_closures(crate):
    """N14: a local, immutable, non-`move` closure that is only ever *called* (`let f = |a, b| BODY; .. f(x, y) ..`) is a local
    function: each call is replaced by `{ let a = x; let b = y; BODY }` (parameters that receive a plain variable are renamed to
    it).  Only closures whose body neither returns nor uses `?` (both would leave the closure, not the function) and whose captured
    variables are bound exactly once in the enclosing function (so a call site sees the same variables as the definition)."""
    n = 0
    for f in crate.fns:
        blk = f.item.get('block')
        if not isinstance(blk, dict):
            continue
        cands = []
        for x in walk_json(blk):
            if isinstance(x, dict) and x.get('k') == 'Block' and isinstance(x.get('stmts'), list):
                for st in x['stmts']:
                    if st.get('k') == 'Local' and isinstance(st.get('init'), dict) and st['init'].get('k') == 'Closure' and st.get('else') is None:
                        p = st['pat']
                        if p.get('k') == 'Ident' and not p.get('mut') and not p.get('by_ref') and not st['init'].get('move') and not st['init'].get('capture'):
                            cands.append((x, st))
        for holder, st in cands:
            name = st['pat']['name']
            clo = st['init']
            params = []
            okp = True
            for pp in clo['params']:
                q = pp
                while q.get('k') in ('Type',):
                    q = q['pat']
                if q.get('k') != 'Ident' or q.get('by_ref') or q.get('sub'):
                    okp = False
                    break
                params.append(q['name'])
            if not okp:
                continue
            body = clo['body']
            if any(isinstance(x, dict) and x.get('k') in ('Return', 'Try', 'Await', 'Yield') for x in walk_json(body)):
                continue
            calls = [x for x in walk_json(blk) if isinstance(x, dict) and x.get('k') == 'Call' and isinstance(x.get('func'), dict)
                     and x['func'].get('k') == 'Path' and x['func']['path'].get('s') == name and len(x['args']) == len(params)]
            # `let _ = f;` ("avoid unused warnings" under some cfg) is not a use that matters
            discards = []
            for x in walk_json(blk):
                if isinstance(x, dict) and x.get('k') == 'Block' and isinstance(x.get('stmts'), list):
                    for s2 in x['stmts']:
                        if s2.get('k') == 'Local' and s2['pat'].get('k') == 'Wild' and isinstance(s2.get('init'), dict) and s2['init'].get('k') == 'Path' \
                                and s2['init']['path'].get('s') == name:
                            discards.append((x, s2))
            if not calls or _count_uses(blk, name) != len(calls) + len(discards) or _binder_count(blk, name) != 1:
                continue
            free = set()
            _free_names(body, free)
            free -= set(params)
            inner = set()
            _binder_names(body, inner)
            # every call must see the captured variables the definition saw: none of them re-bound on the way to a call
            after = holder['stmts'][holder['stmts'].index(st) + 1:]
            if _shadowed_call(after, name, set(v for v in free if v not in inner), frozenset()):
                continue
            if any(c_ is not x_ for c_, x_ in zip(calls, calls)) or len([x for x in walk_json(after) if isinstance(x, dict) and x.get('k') == 'Call'
                   and isinstance(x.get('func'), dict) and x['func'].get('k') == 'Path' and x['func']['path'].get('s') == name]) != len(calls):
                continue      # a call outside the rest of the defining block
            l = st.get('l', 0)
            for c in calls:
                mapping = {}
                lets = []
                for p_, a in zip(params, c['args']):
                    xx = _strip_refs(a)
                    if xx['k'] == 'Path' and len(xx['path']['segs']) == 1 and xx['path']['s'] not in inner:
                        if xx['path']['s'] != p_:
                            mapping[p_] = xx['path']['s']
                    else:
                        lets.append({'k': 'Local', 'pat': {'k': 'Ident', 'name': p_, 'by_ref': False, 'mut': False, 'sub': None, 'l': l}, 'ty': None,
                                     'init': a, 'else': None, 'attrs': [], 'l': c.get('l', l)})
                b2 = copy.deepcopy(_rename(body, mapping))
                new = {'k': 'Block', 'l': c.get('l', l), 'inlined_closure': name,
                       'stmts': lets + [{'k': 'Expr', 'expr': b2, 'semi': False, 'l': c.get('l', l)}]}
                keep = {k_: v_ for k_, v_ in c.items() if isinstance(k_, str) and k_.startswith('_')}
                c.clear()
                c.update(new)
                c.update(keep)
                n += 1
            holder['stmts'] = [s_ for s_ in holder['stmts'] if s_ is not st]
            for hx, s2 in discards:
                hx['stmts'] = [s_ for s_ in hx['stmts'] if s_ is not s2]
    return n


def _replace_derefs(node, names):
    """`*name` -> `name` for the given names (a `&mut T` parameter that becomes a captured variable)"""
    if isinstance(node, list):
        return [_replace_derefs(x, names) for x in node]
    if not isinstance(node, dict):
        return node
    if node.get('k') == 'Unary' and node.get('op') == '*' and isinstance(node.get('expr'), dict) and node['expr'].get('k') == 'Path' \
            and len(node['expr']['path'].get('segs', [])) == 1 and node['expr']['path']['s'] in names:
        return node['expr']
    return {k: (_replace_derefs(v, names) if not (isinstance(k, str) and k.startswith('_')) else v) for k, v in node.items()}


def methods_to_closures(crate):
    """N16: a private `&self` method of the same impl that is called exactly once, as `self.m(x, &mut a, &mut b)`, with every
    `&mut` parameter receiving a local variable, is the closure `let mut m = |x| { .. a .. b .. }` it was extracted from (the parameter
    handler of an attribute parser): the call becomes `m(x)` and the closure is declared just before the loop (or statement) that
    contains the call.  `return` keeps its meaning (it leaves the method / the closure), `*a` becomes `a`."""
    n = 0
    for f in list(crate.fns):
        blk = f.item.get('block')
        if not isinstance(blk, dict) or not f.self_ty:
            continue
        calls = [x for x in walk_json(blk) if isinstance(x, dict) and x.get('k') == 'MethodCall' and isinstance(x.get('recv'), dict)
                 and x['recv'].get('k') == 'Path' and x['recv']['path'].get('s') == 'self']
        for c in calls:
            gs = [g for g in crate.fns if g is not f and g.name == c['method'] and g.self_ty == f.self_ty and g.module is f.module and not g.item.get('vis')]
            if len(gs) != 1:
                continue
            g = gs[0]
            ins = g.item['sig']['inputs']
            if not ins or ins[0].get('k') != 'Self' or not ins[0].get('ref') or ins[0].get('mut') or len(ins) - 1 != len(c['args']):
                continue
            # the only call of g in the crate
            total = 0
            for h in crate.fns:
                for x in walk_json(h.item.get('block')):
                    if isinstance(x, dict) and x.get('k') == 'MethodCall' and x.get('method') == g.name:
                        total += 1
            if total != 1:
                continue
            mapping, cparams, cargs, derefs = {}, [], [], set()
            ok = True
            for inp, a in zip(ins[1:], c['args']):
                if inp.get('k') != 'Typed' or inp['pat'].get('k') != 'Ident':
                    ok = False
                    break
                pname = inp['pat']['name']
                ty = inp['ty']
                if ty.get('k') == 'Ref' and ty.get('mut'):
                    if a.get('k') == 'Ref' and a.get('mut') and a['expr'].get('k') == 'Path' and len(a['expr']['path']['segs']) == 1:
                        mapping[pname] = a['expr']['path']['s']
                        derefs.add(pname)
                    else:
                        ok = False
                        break
                else:
                    cparams.append({'k': 'Type', 'l': inp['pat'].get('l', 0), 'pat': dict(inp['pat']), 'ty': ty})
                    cargs.append(a)
            if not ok or not derefs:
                continue
            inner = set()
            _binder_names(g.item['block'], inner)
            if inner & set(mapping.values()):
                continue
            body = copy.deepcopy(g.item['block'])
            body = _replace_derefs(body, derefs)
            body = _rename(body, mapping)
            cname = '__' + g.name
            l = c.get('l', 0)
            clo = {'k': 'Closure', 'l': g.item.get('l', l), 'move': False, 'params': cparams, 'body': body, 'from_method': g.qname}
            local = {'k': 'Local', 'l': l, 'attrs': [], 'else': None, 'ty': None, 'init': clo,
                     'pat': {'k': 'Ident', 'name': cname, 'by_ref': False, 'mut': True, 'sub': None, 'l': l}}
            # where: before the statement of the innermost block that (transitively) contains the call and is a loop, else the statement itself
            place = _placement(blk, c)
            if place is None:
                continue
            holder, idx = place
            keep = {k_: v_ for k_, v_ in c.items() if isinstance(k_, str) and k_.startswith('_')}
            c.clear()
            c.update({'k': 'Call', 'l': l, 'func': {'k': 'Path', 'l': l, 'qself': None, 'path': {'global': False, 'l': l, 's': cname, 'segs': [{'id': cname}]}},
                      'args': cargs})
            c.update(keep)
            holder['stmts'].insert(idx, local)
            crate.inlined_into[id(g)] = crate.inlined_into.get(id(g), 0) + 1
            crate.method_closures = getattr(crate, 'method_closures', set()) | {id(g)}
            n += 1
    return n


def _contains(node, target):
    for x in walk_json(node):
        if x is target:
            return True
    return False


def _placement(blk, call):
    """(block, index): the statement list position just before the outermost loop statement that contains the call within the
    innermost block holding all of that loop; falls back to the statement containing the call"""
    best = None

    def go(b):
        nonlocal best
        for i, st in enumerate(b.get('stmts') or []):
            if _contains(st, call):
                e = st.get('expr') if st.get('k') == 'Expr' else None
                if isinstance(e, dict) and e.get('k') in ('For', 'While', 'Loop', 'ForLoop'):
                    best = (b, i)
                    return
                if best is None:
                    best = (b, i)
                # descend into nested blocks of this statement
                for x in walk_json(st):
                    if isinstance(x, dict) and x.get('k') == 'Block' and x is not b and _contains(x, call):
                        best = None
                        go(x)
                        return
                return
    go(blk)
    return best


def _some_arms(m):
    """for `match S { P => Some(V), .., Q => None }` (block-wrapped values allowed): [(arm, V or None)], else None"""
    if not isinstance(m, dict) or m.get('k') != 'Match':
        return None
    out = []
    for a in m['arms']:
        if a.get('guard') is not None:
            return None
        b = a['body']
        while isinstance(b, dict) and b.get('k') == 'Block' and len(b.get('stmts', [])) == 1 and b['stmts'][0].get('k') == 'Expr' and not b['stmts'][0].get('semi'):
            b = b['stmts'][0]['expr']
        if isinstance(b, dict) and b.get('k') == 'Call' and b['func'].get('k') == 'Path' and b['func']['path'].get('s') == 'Some' and len(b['args']) == 1:
            out.append((a, b['args'][0]))
        elif isinstance(b, dict) and b.get('k') == 'Path' and b['path'].get('s') == 'None':
            out.append((a, None))
        else:
            return None
    return out


def case_of_case(crate):
    """after inlining a classification helper (`fn kind(x) -> Option<T> { match x { A => Some(..), B => Some(..), _ => None } }`):
      `if let Some(p) = match S { A => Some(V1), _ => None } { BODY }`    ->  `match S { A => { let p = V1; BODY }, _ => {} }`
      `(match S { A => Some(V1), _ => None }).unwrap_or_else(|| E)`        ->  `match S { A => V1, _ => E }`      (also `unwrap_or(E)`)"""
    n = 0

    def split_prefix(e):
        """`{ let a = ..; let b = ..; match .. }` -> ([lets], match)"""
        if isinstance(e, dict) and e.get('k') == 'Block' and e.get('stmts') and all(s_.get('k') == 'Local' for s_ in e['stmts'][:-1]) \
                and e['stmts'][-1].get('k') == 'Expr' and not e['stmts'][-1].get('semi'):
            return e['stmts'][:-1], e['stmts'][-1]['expr']
        return [], e

    def wrap(lets, new, l):
        if not lets:
            return new
        return {'k': 'Block', 'l': l, 'stmts': lets + [{'k': 'Expr', 'expr': new, 'semi': False, 'l': l}]}

    def rewrite(node):
        nonlocal n
        if isinstance(node, list):
            for x in node:
                rewrite(x)
            return
        if not isinstance(node, dict):
            return
        for k, v in list(node.items()):
            if isinstance(k, str) and k.startswith('_'):
                continue
            if isinstance(v, (dict, list)):
                rewrite(v)
        if node.get('k') == 'If' and node.get('else') is None and isinstance(node.get('cond'), dict) and node['cond'].get('k') == 'Let':
            c = node['cond']
            lets, mexpr = split_prefix(c['expr'])
            sa = _some_arms(mexpr)
            p = c['pat']
            if sa is not None and p.get('k') == 'TupleStruct' and p['path']['s'] == 'Some' and len(p['elems']) == 1 and any(v is not None for _, v in sa):
                l = node.get('l', 0)
                arms = []
                for a, v in sa:
                    a2 = dict(a)
                    if v is None:
                        a2['body'] = {'k': 'Block', 'l': l, 'stmts': []}
                    else:
                        a2['body'] = {'k': 'Block', 'l': l, 'stmts': [
                            {'k': 'Local', 'l': l, 'attrs': [], 'else': None, 'ty': None, 'pat': copy.deepcopy(p['elems'][0]), 'init': v}] + copy.deepcopy(node['then']['stmts'])}
                    arms.append(a2)
                new = wrap(lets, {'k': 'Match', 'l': l, 'expr': mexpr['expr'], 'arms': arms, 'desugared': 'case-of-case'}, l)
                keep = {k_: v_ for k_, v_ in node.items() if isinstance(k_, str) and k_.startswith('_')}
                node.clear()
                node.update(new)
                node.update(keep)
                n += 1
                return
        if node.get('k') == 'MethodCall' and node.get('method') in ('unwrap_or_else', 'unwrap_or') and len(node.get('args', [])) == 1:
            lets, mexpr = split_prefix(node['recv'])
            sa = _some_arms(mexpr)
            if sa is not None:
                e = node['args'][0]
                if node['method'] == 'unwrap_or_else':
                    if e.get('k') != 'Closure' or e.get('params'):
                        return
                    e = e['body']
                l = node.get('l', 0)
                arms = []
                for a, v in sa:
                    a2 = dict(a)
                    a2['body'] = v if v is not None else copy.deepcopy(e)
                    arms.append(a2)
                new = wrap(lets, {'k': 'Match', 'l': l, 'expr': mexpr['expr'], 'arms': arms, 'desugared': 'case-of-case'}, l)
                keep = {k_: v_ for k_, v_ in node.items() if isinstance(k_, str) and k_.startswith('_')}
                node.clear()
                node.update(new)
                node.update(keep)
                n += 1
    for f in crate.fns:
        rewrite(f.item.get('block'))
    return n


def _is_quote(e):
    return isinstance(e, dict) and e.get('k') == 'Macro' and isinstance(e.get('mac'), dict) and isinstance(e['mac'].get('tmpl'), list)


def _float_into(e, name, follow, l):
    """E is `if c { ..; quote!(A) } else { ..; quote!(B) }` (nested `if`s in the branches allowed): the same `if` with
    `let name = quote!(..); <follow>` at the end of every branch; None if E has another shape"""
    while isinstance(e, dict) and e.get('k') == 'Block' and len(e.get('stmts', [])) == 1 and e['stmts'][0].get('k') == 'Expr' and not e['stmts'][0].get('semi'):
        e = e['stmts'][0]['expr']
    if not (isinstance(e, dict) and ((e.get('k') == 'If' and e.get('else') is not None) or (e.get('k') == 'Match' and e.get('arms')))):
        return None

    def branch(b):
        if b.get('k') not in ('Block', 'If', 'Match'):
            # an arm whose value is the bare `quote!(..)`
            b = {'k': 'Block', 'l': l, 'stmts': [{'k': 'Expr', 'expr': b, 'semi': False, 'l': l}]}
        if b.get('k') == 'Match':
            r = _float_into(b, name, follow, l)
            return None if r is None else {'k': 'Block', 'l': l, 'stmts': [{'k': 'Expr', 'expr': r, 'semi': False, 'l': l}]}
        if b.get('k') == 'If':
            r = _float_into(b, name, follow, l)
            return None if r is None else {'k': 'Block', 'l': l, 'stmts': [{'k': 'Expr', 'expr': r, 'semi': False, 'l': l}]}
        if b.get('k') != 'Block' or not b.get('stmts') or b['stmts'][-1].get('k') != 'Expr' or b['stmts'][-1].get('semi'):
            return None
        tail = b['stmts'][-1]['expr']
        if tail.get('k') in ('If', 'Match') or (tail.get('k') == 'Block'):
            r = _float_into(tail, name, follow, l)
            if r is None:
                return None
            return {'k': 'Block', 'l': b.get('l', l), 'stmts': b['stmts'][:-1] + [{'k': 'Expr', 'expr': r, 'semi': False, 'l': l}]}
        if isinstance(name, dict):
            # `let (a, b) = match .. { .. => (X, Y) }`: every branch ends in a tuple of streams (templates, stream variables, empty streams)
            def _stream(x_):
                return _is_quote(x_) or (x_.get('k') == 'Path' and len(x_['path'].get('segs', [])) == 1) \
                    or (x_.get('k') == 'Call' and x_['func'].get('k') == 'Path' and x_['func']['path']['s'].split('::')[-2:] == ['TokenStream', 'new'] and not x_['args'])
            if tail.get('k') != 'Tuple' or len(tail['elems']) != len(name['elems']) or not all(_stream(x_) for x_ in tail['elems']):
                return None
            names_ = [q_['name'] for q_ in name['elems']]
            sequential = all(not (_count_uses(tail['elems'][j_], names_[i_]) + _hole_uses(tail['elems'][j_], names_[i_]))
                             for i_ in range(len(names_)) for j_ in range(i_ + 1, len(names_)))
            if sequential:
                # one `let` per component (a later component does not mention an earlier name, so the shadowing is harmless); a
                # component that is just the variable of the same name needs no `let` at all
                lets = []
                for q_, x_ in zip(name['elems'], tail['elems']):
                    if x_.get('k') == 'Path' and x_['path']['s'] == q_['name']:
                        continue
                    lets.append({'k': 'Local', 'l': l, 'attrs': [], 'else': None, 'ty': None, 'init': x_, 'pat': copy.deepcopy(q_)})
                return {'k': 'Block', 'l': b.get('l', l), 'stmts': b['stmts'][:-1] + lets + [copy.deepcopy(follow)]}
            let = {'k': 'Local', 'l': l, 'attrs': [], 'else': None, 'ty': None, 'init': tail, 'pat': copy.deepcopy(name)}
            return {'k': 'Block', 'l': b.get('l', l), 'stmts': b['stmts'][:-1] + [let, copy.deepcopy(follow)]}
        if not _is_quote(tail):
            return None
        let = {'k': 'Local', 'l': l, 'attrs': [], 'else': None, 'ty': None, 'init': tail,
               'pat': {'k': 'Ident', 'name': name, 'by_ref': False, 'mut': False, 'sub': None, 'l': l}}
        return {'k': 'Block', 'l': b.get('l', l), 'stmts': b['stmts'][:-1] + [let, copy.deepcopy(follow)]}
    if e.get('k') == 'Match':
        arms = []
        for a_ in e['arms']:
            if a_.get('guard') is not None:
                return None
            b_ = branch(a_['body'])
            if b_ is None:
                return None
            arms.append(dict(a_, body=b_))
        out = dict(e, arms=arms)
        out['floated'] = name
        return out
    t, el = branch(e['then']), branch(e['else'])
    if t is None or el is None:
        return None
    out = dict(e)
    out['then'], out['else'] = t, el
    out['floated'] = name
    return out


def float_conditional_streams(crate):
    """N23: `let v = if c { ..; quote!(A) } else { ..; quote!(B) }; acc.extend(quote!(.. #v ..));` (v used by that one statement only;
    typically an inlined helper that returns the piece to interpolate) is `if c { ..; acc.extend(quote!(.. A ..)) } else { ..;
    acc.extend(quote!(.. B ..)) }` — the statement that consumes the stream is moved into the branches that produce it"""
    n = 0
    for f in crate.fns:
        for x in walk_json(f.item.get('block')):
            if not (isinstance(x, dict) and x.get('k') == 'Block' and isinstance(x.get('stmts'), list)):
                continue
            changed = True
            while changed:
                changed = False
                st = x['stmts']
                for i in range(len(st) - 1):
                    a = st[i]
                    if a.get('k') != 'Local' or a.get('else') is not None or not isinstance(a.get('init'), dict) or a.get('attrs'):
                        continue
                    p = a['pat']
                    while p.get('k') == 'Type':
                        p = p['pat']
                    tuple_pat = None
                    if p.get('k') == 'Tuple' and p.get('elems') and all(q_.get('k') == 'Ident' and not q_.get('mut') and not q_.get('by_ref') and not q_.get('sub') for q_ in p['elems']) \
                            and a['init'].get('k') == 'Match':
                        tuple_pat = p
                    elif p.get('k') != 'Ident' or p.get('mut') or p.get('by_ref'):
                        continue
                    if tuple_pat is not None:
                        names_ = [q_['name'] for q_ in p['elems']]
                        b = st[i + 1] if i + 1 < len(st) else None
                        if b is None or b.get('k') != 'Expr' or not all((_count_uses(b, n_) + _hole_uses(b, n_)) for n_ in names_) \
                                or any((_count_uses(st[i + 2:], n_) + _hole_uses(st[i + 2:], n_)) for n_ in names_):
                            continue
                        r = _float_into(a['init'], tuple_pat, b, a.get('l', 0))
                        if r is None:
                            continue
                        x['stmts'] = st[:i] + [{'k': 'Expr', 'expr': r, 'semi': True, 'l': a.get('l', 0)}] + st[i + 2:]
                        n += 1
                        changed = True
                        break
                    name = p['name']
                    # the consumer is the next statement, or follows after `let`s that do not mention the stream (then the conditional
                    # stream must be free of effects: a test of values and `quote!`s only, so that it may be computed later)
                    j = i + 1
                    def _skippable(s_):
                        if _count_uses(s_, name) + _hole_uses(s_, name):
                            return False
                        if s_.get('k') == 'Local':
                            return True
                        # a statement that only appends templates to streams (also under a test of values) does not change anything the
                        # conditional stream reads
                        if s_.get('k') != 'Expr':
                            return False
                        for y in walk_json(s_):
                            if isinstance(y, dict) and (y.get('k') in ('Call', 'Try', 'Return', 'Assign', 'Break', 'Continue', 'For', 'While', 'Loop', 'Match')
                                                        or (y.get('k') == 'MethodCall' and y.get('method') not in ('extend', 'is_none', 'is_some', 'is_empty'))
                                                        or (y.get('k') == 'Macro' and isinstance(y.get('mac'), dict) and y['mac'].get('name', '').split('::')[-1] not in ('quote', 'quote_spanned'))):
                                return False
                        return True
                    while j < len(st) and _skippable(st[j]):
                        j += 1
                    if j >= len(st):
                        continue
                    if j > i + 1:
                        eff = []
                        for y in walk_json(a['init']):
                            if isinstance(y, dict) and (y.get('k') in ('Call', 'Try', 'Return', 'Assign') or (y.get('k') == 'MethodCall' and y.get('method') not in ('is_none', 'is_some', 'is_empty'))
                                                        or (y.get('k') == 'Macro' and isinstance(y.get('mac'), dict) and y['mac'].get('name', '').split('::')[-1] not in ('quote', 'quote_spanned'))):
                                eff.append(1)
                        if eff:
                            continue
                    b = st[j]
                    if b.get('k') != 'Expr' or not (_count_uses(b, name) + _hole_uses(b, name)) or (_count_uses(st[j + 1:], name) + _hole_uses(st[j + 1:], name)):
                        continue
                    # prefix lets of an inlined block stay in front
                    e = a['init']
                    prefix = []
                    if e.get('k') == 'Block' and e.get('stmts') and all(s_.get('k') == 'Local' for s_ in e['stmts'][:-1]) \
                            and e['stmts'][-1].get('k') == 'Expr' and not e['stmts'][-1].get('semi') and len(e['stmts']) > 1:
                        prefix = e['stmts'][:-1]
                        e = e['stmts'][-1]['expr']
                    r = _float_into(e, name, b, a.get('l', 0))
                    if r is None:
                        continue
                    x['stmts'] = st[:i] + prefix + st[i + 1:j] + [{'k': 'Expr', 'expr': r, 'semi': True, 'l': a.get('l', 0)}] + st[j + 1:]
                    n += 1
                    changed = True
                    break
    return n


def fold_format_literals(crate):
    """`format_ident!("{}{}", "_s_", x)` (a literal argument, typically after a helper `fn binder(prefix: &str, ..)` has been inlined)
    is `format_ident!("_s_{}", x)`: positional `{}` placeholders that receive a string literal are filled in"""
    import re
    n = 0
    for f in crate.fns:
        for x in walk_json(f.item.get('block')):
            if not (isinstance(x, dict) and x.get('k') == 'Macro' and isinstance(x.get('mac'), dict)):
                continue
            m = x['mac']
            if m.get('name', '').split('::')[-1] not in ('format_ident', 'format') or not m.get('args'):
                continue
            a0 = m['args'][0]
            if a0.get('k') != 'Lit' or a0['lit'].get('k') != 'Str':
                continue
            fmt = a0['lit']['v']
            parts = re.split(r'(\{\{|\}\}|\{[^}]*\})', fmt)
            holes = [p_ for p_ in parts if p_.startswith('{') and p_ not in ('{{', '}}')]
            if not holes or any(h != '{}' for h in holes) or len(holes) != len(m['args']) - 1:
                continue
            rest = m['args'][1:]
            lits = []
            for a in rest:
                y = _strip_refs(a)
                lits.append(y['lit']['v'] if y.get('k') == 'Lit' and y['lit'].get('k') == 'Str' and isinstance(y['lit'].get('v'), str) else None)
            if not any(v is not None for v in lits):
                continue
            out, keep, i = [], [], 0
            for p_ in parts:
                if p_ == '{}':
                    if lits[i] is not None:
                        out.append(lits[i].replace('{', '{{').replace('}', '}}'))
                    else:
                        out.append('{}')
                        keep.append(rest[i])
                    i += 1
                else:
                    out.append(p_)
            a0 = copy.deepcopy(a0)
            a0['lit']['v'] = ''.join(out)
            m['args'] = [a0] + keep
            m['folded'] = True
            n += 1
    return n


def inline_helpers(crate):
    crate.inlined_into = getattr(crate, 'inlined_into', {})
    n00 = methods_to_closures(crate)
    n0 = inline_closures(crate)
    before = _call_sites(crate)
    crate.inlined_into = dict(getattr(crate, 'inlined_into', {}))      # id(helper) -> number of inlined call sites
    n = 0
    for f in list(crate.fns):
        n += _inline_in(crate, f, f.item.get('block'), 0)
    fold_format_literals(crate)
    case_of_case(crate)
    float_conditional_streams(crate)
    crate.fully_inlined = set(g for g, k in crate.inlined_into.items() if k >= before.get(g, 0) and k > 0) | getattr(crate, 'method_closures', set())
    return n


def origin_chains(f):
    """{id(node): tuple of qnames of the helper functions whose inlined body the node belongs to (outermost first)}"""
    out = {}

    def go(node, chain):
        if isinstance(node, list):
            for x in node:
                go(x, chain)
            return
        if not isinstance(node, dict):
            return
        if node.get('k') == 'Block' and node.get('inlined'):
            chain = chain + (node['inlined'],)
        if chain:
            out[id(node)] = chain
        for k, v in node.items():
            if isinstance(k, str) and k.startswith('_'):
                continue
            if isinstance(v, (dict, list)):
                go(v, chain)
    go(f.item.get('block'), ())
    return out


def _inline_in(crate, f, node, depth):
    if depth > 3:
        return 0
    n = 0
    if isinstance(node, list):
        for x in node:
            n += _inline_in(crate, f, x, depth)
        return n
    if not isinstance(node, dict):
        return 0
    if node.get('k') == 'Block' and isinstance(node.get('stmts'), list):
        for st in node['stmts']:
            slot = None
            if st['k'] == 'Local' and isinstance(st.get('init'), dict):
                slot = ('init', st)
            elif st['k'] == 'Expr' and isinstance(st.get('expr'), dict):
                slot = ('expr', st)
            if slot is not None:
                key, holder = slot
                e = holder[key]
                with_try = e.get('k') == 'Try'
                call = e['expr'] if with_try else e
                if isinstance(call, dict) and call.get('k') == 'Call':
                    blk = expand_call(crate, f, call, with_try, True)
                    if blk is not None:
                        holder[key] = blk
                        n += 1 + _inline_in(crate, f, blk, depth + 1)
                        continue
    # expression positions: pure-expression helpers (and cfg twins of them)
    for k, v in list(node.items()):
        if isinstance(k, str) and k.startswith('_'):
            continue
        if isinstance(v, dict):
            if v.get('k') == 'Call' and k not in ('func',):
                rep_ = expand_call(crate, f, v, False, False)
                if rep_ is not None:
                    node[k] = rep_
                    n += 1 + _inline_in(crate, f, rep_, depth + 1)
                    continue
            n += _inline_in(crate, f, v, depth)
        elif isinstance(v, list):
            for idx, x in enumerate(v):
                if isinstance(x, dict) and x.get('k') == 'Call' and k in ('args',):
                    rep_ = expand_call(crate, f, x, False, False)
                    if rep_ is not None:
                        v[idx] = rep_
                        n += 1 + _inline_in(crate, f, rep_, depth + 1)
                        continue
                n += _inline_in(crate, f, x, depth)
    return n
