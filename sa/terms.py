"""Terms: canonical, hashable descriptions of *where a value comes from*, obtained by following
let-bindings, pattern bindings, loop variables and collect-then-iterate collections.

Two expressions denote the same datum of the derive input iff their terms are equal; e.g. the
`field` of the second (emission) loop over a BTreeMap built in a first loop resolves to the
`('elem', <first loop id>)` term of the field that was inserted."""
from .syn import es, pat_s, pat_shape, path_s, ty_s

TRANSPARENT_METHODS = {'as_ref', 'clone', 'as_deref', 'borrow', 'to_owned', 'as_mut', 'cloned', 'copied', 'as_str', 'into'}
ITER_METHODS = {'iter', 'into_iter', 'iter_mut'}


def strip_refs(e):
    while e is not None and (e['k'] == 'Ref' or (e['k'] == 'Unary' and e['op'] == '*')):
        e = e['expr']
    return e


class IterInfo:
    """analysis of a `for PAT in EXPR` header."""

    def __init__(self, base, enumerate_, method, adaptors, zipped=None, rev=False):
        self.base = base            # expression of the collection being iterated
        self.enumerate = enumerate_
        self.method = method        # iter | into_iter | values | keys | None (direct)
        self.adaptors = adaptors    # other adaptor method names, outermost last
        self.zipped = zipped
        self.rev = rev


def analyse_iter(expr):
    adaptors = []
    enum = False
    method = None
    zipped = None
    rev = False
    e = expr
    while True:
        e = strip_refs(e)
        if e['k'] == 'MethodCall':
            m = e['method']
            if m == 'enumerate' and not e['args']:
                if adaptors:
                    adaptors.append('enumerate-inner')
                enum = True
                e = e['recv']
                continue
            if m in ('iter', 'into_iter', 'iter_mut', 'values', 'keys', 'values_mut', 'into_values', 'into_keys') and not e['args']:
                method = m
                e = e['recv']
                break
            if m == 'zip' and len(e['args']) == 1:
                zipped = e['args'][0]
                adaptors.append('zip')
                e = e['recv']
                continue
            if m == 'rev':
                rev = True
            adaptors.append(m)
            e = e['recv']
            continue
        break
    return IterInfo(strip_refs(e), enum, method, [a for a in adaptors if a != 'zip'], zipped, rev)


class Terms:
    def __init__(self, crate, fw):
        self.crate = crate
        self.fw = fw
        self._for_by_id = {}
        for ev in fw.events:
            if ev.kind == 'for':
                self._for_by_id[ev.entry['id']] = ev
        self._pushes = None
        self._memo = {}

    # -- collections ---------------------------------------------------------------------
    def pushes(self):
        """def.id -> list of (event, kind, key_expr, value_expr)"""
        if self._pushes is None:
            self._pushes = {}
            for ev in self.fw.events:
                if ev.kind == 'mcall' and ev.method in ('push', 'insert', 'push_back', 'extend'):
                    r = strip_refs(ev.recv)
                    if r['k'] == 'Path' and len(r['path']['segs']) == 1:
                        d = ev.scope.lookup(r['path']['s'])
                        if d is None:
                            continue
                        if ev.method == 'push' and len(ev.args) == 1:
                            self._pushes.setdefault(d.id, []).append((ev, 'push', None, ev.args[0]))
                        elif ev.method == 'insert' and len(ev.args) == 2:
                            self._pushes.setdefault(d.id, []).append((ev, 'insert', ev.args[0], ev.args[1]))
        return self._pushes

    def for_event(self, for_id):
        return self._for_by_id.get(for_id)

    # -- main entry ----------------------------------------------------------------------
    def term(self, e, scope, depth=0):
        return _post_canon(self._term(e, scope, depth))

    def _term(self, e, scope, depth=0):
        if e is None:
            return ('none',)
        if depth > 40:
            return ('deep', es(e))
        k = e['k']
        T = lambda x, s=scope: self.term(x, s, depth + 1)
        if k == 'Path':
            p = e['path']
            if len(p['segs']) == 1 and not p['global'] and 'args' not in p['segs'][0]:
                name = p['s']
                d = scope.lookup(name)
                if d is not None:
                    return self.def_term(d, depth + 1)
                if name == 'None':
                    return ('None',)
                return ('path', name)
            return ('path', p['s'])
        if k == 'Ref':
            return T(e['expr'])
        if k == 'Unary':
            if e['op'] == '*':
                return T(e['expr'])
            return ('unary', e['op'], T(e['expr']))
        if k == 'Field':
            bt = T(e['base'])
            # a field of a struct value built in this function (e.g. an element pushed into a collection) is that component
            if isinstance(bt, tuple) and bt and bt[0] == 'struct':
                for mt in bt[2:]:
                    if isinstance(mt, tuple) and len(mt) == 2 and str(mt[0]) == str(e['member']):
                        return mt[1]
            if isinstance(bt, tuple) and bt and bt[0] == 'tuple' and isinstance(e['member'], int) and 1 + e['member'] < len(bt):
                return bt[1 + e['member']]
            return ('field', bt, e['member'])
        if k == 'Lit':
            l = e['lit']
            return ('lit', l['k'], l.get('v', l.get('text', l.get('digits'))))
        if k == 'MethodCall':
            m = e['method']
            if m in TRANSPARENT_METHODS and not e['args']:
                return T(e['recv'])
            if m == 'unwrap' and not e['args']:
                return ('unwrap', T(e['recv']))
            # Option combinators are the `if let` they abbreviate: X.and_then(|p| B) = if let Some(p) = X { B } else { None }
            if m in ('and_then', 'map') and len(e['args']) == 1 and e['args'][0]['k'] == 'Closure' and len(e['args'][0]['params']) == 1 \
                    and e['args'][0]['params'][0]['k'] == 'Ident' and '_ctx_entry' in e['args'][0]:
                clo = e['args'][0]
                rt = T(e['recv'])
                optional_src = isinstance(rt, tuple) and (rt[0] == 'iflet' or (rt[0] == 'mcall' and rt[2] in ('get', 'get_key_value', 'first', 'last', 'next', 'find', 'get_ident', 'get_mut')))
                if m == 'and_then' or optional_src:
                    body = clo['body']
                    bt = self.block_value_term(body, depth + 1) if body['k'] == 'Block' else self.value_in_recorded_scope(body, depth + 1)
                    if not (isinstance(bt, tuple) and bt[0] == 'opaque'):
                        pname = clo['params'][0]['name']
                        cp = ('cparam', clo['_ctx_entry']['id'], pname)
                        if rt[0] == 'iflet' and rt[4] == ('None',) and rt[1].startswith('Some('):
                            # associativity: (if let P1 = A { B } else { None }).and_then(|p| C)  =  if let P1 = A { B.and_then(|p| C) } else { None }
                            inner = subst_term(bt, cp, ('some_of', rt[3]))
                            return ('iflet', rt[1], rt[2], ('iflet', 'Some(_)', rt[3], inner if m == 'and_then' else ('Some', inner), ('None',)), ('None',))
                        bt = subst_term(bt, cp, ('some_of', rt))
                        return ('iflet', 'Some(_)', rt, bt if m == 'and_then' else ('Some', bt), ('None',))
            # X.map(path_fn) on an optional source = if let Some(v) = X { Some(path_fn(v)) } else { None }
            if m == 'map' and len(e['args']) == 1 and e['args'][0]['k'] == 'Path':
                rt = T(e['recv'])
                optional_src = isinstance(rt, tuple) and (rt[0] == 'iflet' or (rt[0] == 'field' and rt[2] == 'ident')
                                                          or (rt[0] == 'mcall' and rt[2] in ('get', 'get_key_value', 'first', 'last', 'next', 'find', 'get_ident', 'get_mut')))
                if optional_src:
                    ft = T(e['args'][0])
                    fname = ft[1] if isinstance(ft, tuple) and ft[0] == 'path' else None
                    if fname:
                        r = self.crate.resolve(self.fw.fn.module, [s_['id'] for s_ in e['args'][0]['path']['segs']])
                        if r[0] == 'crate':
                            fname = 'crate::' + '::'.join(r[1])
                        return ('iflet', 'Some(_)', rt, ('Some', ('call', fname, ('some_of', rt))), ('None',))
            # <optional>.unwrap_or_else(|| E) / .unwrap_or(E): the value, else E
            if m in ('unwrap_or_else', 'unwrap_or') and len(e['args']) == 1:
                rt = T(e['recv'])
                if isinstance(rt, tuple) and rt[0] == 'iflet' and rt[4] == ('None',) and isinstance(rt[3], tuple) and rt[3][0] == 'Some' and len(rt[3]) == 2:
                    a0 = e['args'][0]
                    alt = None
                    if m == 'unwrap_or':
                        alt = T(a0)
                    elif a0['k'] == 'Closure' and not a0['params']:
                        body = a0['body']
                        alt = self.block_value_term(body, depth + 1) if body['k'] == 'Block' else self.value_in_recorded_scope(body, depth + 1)
                    if alt is not None and not (isinstance(alt, tuple) and alt[0] == 'opaque'):
                        return ('iflet', rt[1], rt[2], rt[3][1], alt)
            args = []
            for a in e['args']:
                if a['k'] == 'Closure':
                    args.append(('closure', a['_ctx_entry']['id'] if '_ctx_entry' in a else a['l']))
                else:
                    args.append(T(a))
            return ('mcall', T(e['recv']), m) + tuple(args)
        if k == 'Call':
            f = e['func']
            # Ident::new(&format!("pre{}", <number>), span): the identifier format_ident!("pre{}", <number>) builds (for identifier
            # arguments the two differ: format_ident! drops a raw `r#` prefix, Display keeps it)
            if f['k'] == 'Path' and f['path']['s'].split('::')[-1] == 'new' and f['path']['s'].split('::')[-2:-1] == ['Ident'] and len(e['args']) == 2:
                a0 = e['args'][0]
                while a0['k'] in ('Ref', 'Paren'):
                    a0 = a0['expr']
                if a0['k'] == 'MethodCall' and a0['method'] == 'as_str' and not a0['args']:
                    a0 = a0['recv']
                if a0['k'] == 'Macro' and a0['mac']['name'].split('::')[-1] == 'format' and a0['mac'].get('args'):
                    fa = a0['mac']['args']
                    if fa[0]['k'] == 'Lit' and fa[0]['lit']['k'] == 'Str':
                        import re as _re
                        ats = [T(x) for x in fa[1:]]
                        holes_ = _re.findall(r'\{([^{}]*)\}', fa[0]['lit']['v'])
                        if ats and holes_ and all(h_ == '' for h_ in holes_) and len(holes_) == len(ats) and all(self.is_numeric(t_) for t_ in ats):
                            return ('format_ident', fa[0]['lit']['v']) + tuple(ats)
            if f['k'] == 'Path':
                name = f['path']['s']
                r = self.crate.resolve(self.fw.fn.module, [s['id'] for s in f['path']['segs']])
                if r[0] == 'crate':
                    name = 'crate::' + '::'.join(r[1])
                if name in ('Some', 'Option::Some', 'core::option::Option::Some'):
                    return ('Some',) + tuple(T(a) for a in e['args'])
                return ('call', name) + tuple(T(a) for a in e['args'])
            return ('callx', T(f)) + tuple(T(a) for a in e['args'])
        if k == 'Macro':
            m = e['mac']
            name = m['name'].split('::')[-1]
            if 'tmpl' in m:
                return ('tmpl', id(m))
            if name == 'format_ident':
                args = m.get('args') or []
                if args and args[0]['k'] == 'Lit':
                    return ('format_ident', args[0]['lit'].get('v')) + tuple(T(a) for a in args[1:])
            if name == 'matches' and 'matches' in m:
                mm = m['matches']
                if mm.get('guard') is not None:
                    return ('matches', T(mm['expr']), pat_shape(mm['pat']), es(mm['guard']))
                return ('matches', T(mm['expr']), pat_shape(mm['pat']))
            return ('macro', name) + tuple(T(a) for a in (m.get('args') or []))
        if k == 'If':
            c = e['cond']
            tv = self.block_value_term(e['then'], depth + 1)
            ev_ = None
            if e.get('else') is not None:
                el = e['else']
                ev_ = self.block_value_term(el, depth + 1) if el['k'] == 'Block' else T(el)
            if c['k'] == 'Let':
                return ('iflet', pat_shape(c['pat']), T(c['expr']), tv, ev_)
            return ('ite', T(c), tv, ev_)
        if k == 'Match':
            arms = []
            for a in e['arms']:
                b = a['body']
                arms.append((pat_shape(a['pat']), self.block_value_term(b, depth + 1) if b['k'] == 'Block' else self.value_in_recorded_scope(b, depth + 1)))
            # canonical form of a two-way match: `match X { P => A, _ => B }` and `match X { Some(p) => A, None => B }` (either arm
            # order) are the `if let P = X { A } else { B }` they abbreviate
            if len(arms) == 2 and not any(a.get('guard') for a in e['arms']):
                (p0, v0), (p1, v1) = arms
                if p1 == '_' or (p1 == 'None' and p0.startswith('Some(')) or (p1.startswith('Err(_') and p0.startswith('Ok(')):
                    return ('iflet', p0, T(e['expr']), v0, v1)
                if p0 == 'None' and p1.startswith('Some('):
                    return ('iflet', p1, T(e['expr']), v1, v0)
            # `match (A, B) { (Some(a), Some(b)) => .., (Some(a), None) => .., (None, Some(b)) => .., (None, None) => .. }` is the nested
            # `if let Some(a) = A { if let Some(b) = B { .. } else { .. } } else { if let Some(b) = B { .. } else { .. } }`
            if e['expr']['k'] == 'Tuple' and len(e['expr']['elems']) == 2 and not any(a.get('guard') for a in e['arms']):
                comps = []
                for ps, v in arms:
                    cs = _split_tuple_pat(ps)
                    if cs is None or len(cs) != 2 or any(not (c == '_' or c == 'None' or c.startswith('Some(')) for c in cs):
                        comps = None
                        break
                    comps.append((cs, v))
                if comps:
                    def cell(sa, sb):
                        for cs, v in comps:
                            if all(c == '_' or (c == 'None') == (not want) for c, want in zip(cs, (sa, sb))):
                                return v
                        return None
                    vs = [cell(True, True), cell(True, False), cell(False, True), cell(False, False)]
                    if all(v is not None for v in vs):
                        A, B = T(e['expr']['elems'][0]), T(e['expr']['elems'][1])
                        return ('iflet', 'Some(_)', A, ('iflet', 'Some(_)', B, vs[0], vs[1]), ('iflet', 'Some(_)', B, vs[2], vs[3]))
            return ('match', T(e['expr'])) + tuple(arms)
        if k == 'Block':
            return self.block_value_term(e, depth + 1)
        if k == 'Tuple':
            return ('tuple',) + tuple(T(x) for x in e['elems'])
        if k == 'Cast':
            return ('cast', T(e['expr']), ty_s(e['ty']))
        if k == 'Binary':
            return ('bin', e['op'], T(e['l_']), T(e['r_']))
        if k == 'Index':
            return ('index', T(e['base']), T(e['index']))
        if k == 'Try':
            return ('try', T(e['expr']))
        if k == 'Struct':
            return ('struct', path_s(e['path'])) + tuple((f['member'], T(f['expr'])) for f in e['fields'])
        if k == 'Closure':
            return ('closure', e['_ctx_entry']['id'] if '_ctx_entry' in e else e['l'])
        if k in ('Return', 'Break', 'Continue'):
            return ('never',)
        if k == 'Unsafe':
            return self.block_value_term(e['block'], depth + 1)
        return ('opaque', es(e))

    def is_numeric(self, t, depth=0):
        """does the term denote an unsigned integer (an enumerate index, an integer literal, the index component of a recorded
        (index, item) selection)?"""
        if not isinstance(t, tuple) or not t or depth > 8:
            return False
        h = t[0]
        if h == 'idx' or (h == 'lit' and t[1] == 'Int'):
            return True
        if h == 'cast':
            return self.is_numeric(t[1], depth + 1)
        if h in ('ite', 'iflet'):
            xs = [x for x in t[-2:] if x is not None and x != ('never',)]
            return bool(xs) and all(self.is_numeric(x, depth + 1) for x in xs)
        if h == 'match':
            xs = [v for _, v in t[2:] if v != ('never',)]
            return bool(xs) and all(self.is_numeric(x, depth + 1) for x in xs)
        if h == 'proj':
            return self.component_numeric(t[2], t[1], depth + 1)
        return False

    def component_numeric(self, x, i, depth=0):
        if not isinstance(x, tuple) or not x or depth > 8:
            return False
        h = x[0]
        if h == 'tuple':
            return 1 + i < len(x) and self.is_numeric(x[1 + i], depth + 1)
        if h in ('some_of', 'unwrap'):
            return self.component_numeric(x[1], i, depth + 1)
        if h in ('ite', 'iflet'):
            xs = [y for y in x[-2:] if y is not None and y != ('never',)]
            return bool(xs) and all(self.component_numeric(y, i, depth + 1) for y in xs)
        if h == 'match':
            xs = [v for _, v in x[2:] if v != ('never',)]
            return bool(xs) and all(self.component_numeric(y, i, depth + 1) for y in xs)
        if h == 'var':
            d = self.def_by_id(x[1])
            if d is None:
                return False
            vals = []
            for a in d.assigns:
                v = a.value
                if v['k'] == 'Path' and es(v) == 'None':
                    continue
                if v['k'] == 'Call' and es(v['func']) == 'Some' and len(v['args']) == 1:
                    vals.append(self.term(v['args'][0], a.scope, depth + 1))
                else:
                    return False
            return bool(vals) and all(self.component_numeric(v, i, depth + 1) for v in vals)
        return False

    def value_in_recorded_scope(self, node, depth):
        sc = self.scope_of_node(node)
        if sc is None:
            return ('opaque', es(node))
        return self.term(node, sc, depth)

    def scope_of_node(self, node):
        if not hasattr(self, '_scope_by_node'):
            self._scope_by_node = {}
            for ev in self.fw.events:
                if ev.kind in ('tail', 'armval', 'closureval'):
                    self._scope_by_node[id(ev.node)] = ev.scope
        return self._scope_by_node.get(id(node))

    def block_value_term(self, block, depth):
        stmts = block.get('stmts', [])
        if not stmts:
            return ('unit',)
        last = stmts[-1]
        if last['k'] == 'Expr' and not last['semi']:
            return self.value_in_recorded_scope(last['expr'], depth)
        if last['k'] == 'Expr' and last['expr']['k'] in ('Return', 'Break', 'Continue'):
            return ('never',)
        if last['k'] == 'Expr' and last['expr']['k'] == 'Macro' and last['expr']['mac']['name'].split('::')[-1] in ('unreachable', 'panic', 'todo', 'unimplemented'):
            return ('never',)
        return ('unit',)

    # -- bindings ------------------------------------------------------------------------
    def def_term(self, d, depth=0):
        if d.id in self._memo:
            return self._memo[d.id]
        self._memo[d.id] = ('rec', d.id)
        t = self._def_term(d, depth)
        self._memo[d.id] = t
        return t

    def _def_term(self, d, depth):
        if d.kind == 'param':
            return ('param', d.name)
        if d.kind == 'let':
            if d.twins:
                alts = tuple(sorted(((str(x.cfg), self._let_init_term(x, depth)) for x in [d] + d.twins), key=lambda z: z[0]))
                return ('cfgtwins',) + alts
            if d.ppath:
                base = self.term(d.src['expr'], d.src['scope'], depth + 1) if d.src else ('opaque', d.name)
                return self.project(base, d.ppath, d, depth)
            if d.assigns or d.init is None or (d.mutable and self.is_mutated_container(d)):
                return ('var', d.id, d.name)
            return self._let_init_term(d, depth)
        if d.kind == 'closure_param':
            return ('cparam', d.src['id'], d.name)
        if d.kind == 'bind':
            via = d.src['via']
            if via == 'for':
                return self.for_binding_term(d, depth)
            base = self.term(d.src['expr'], d.src['scope'], depth + 1)
            return self.project(base, d.ppath, d, depth)
        return ('def', d.id, d.name)

    def is_mutated_container(self, d):
        """`let mut x = <constructor>` that is later mutated through methods (push/insert/extend/...)"""
        if not hasattr(self, '_mutated'):
            self._mutated = set()
            for ev in self.fw.events:
                if ev.kind == 'mcall' and ev.method in ('push', 'insert', 'extend', 'push_str', 'insert_str', 'remove', 'clear',
                                                         'push_back', 'append', 'entry', 'get_mut', 'make_where_clause', 'retain'):
                    r = strip_refs(ev.recv)
                    if r['k'] == 'Path' and len(r['path']['segs']) == 1:
                        dd = ev.scope.lookup(r['path']['s'])
                        if dd is not None:
                            self._mutated.add(dd.id)
        return d.id in self._mutated

    def def_by_id(self, i):
        for d in self.fw.defs:
            if d.id == i:
                return d
        return None

    def _let_init_term(self, d, depth):
        if d.init is None:
            return ('var', d.id, d.name)
        return self.term(d.init, d.scope, depth + 1)

    def project(self, base, ppath, d, depth):
        t = base
        for step in ppath:
            if step[0] == 'ts':
                if step[1] in ('Some',) and step[2] == 0:
                    if isinstance(t, tuple) and t and t[0] == 'iflet' and t[4] == ('None',) and isinstance(t[3], tuple) and t[3][0] == 'Some' and len(t[3]) == 2:
                        t = t[3][1]      # the payload of `if let P = S { Some(a) } else { None }` is a
                    else:
                        t = ('some_of', t)
                else:
                    t = ('payload', step[1], step[2], t)
            elif step[0] == 'tuple':
                if t[0] == 'tuple' and len(t) > step[1] + 1:
                    t = t[1 + step[1]]
                else:
                    t = ('proj', step[1], t)
            elif step[0] == 'sf':
                hit = None
                if isinstance(t, tuple) and t and t[0] == 'struct':
                    for mt in t[2:]:
                        if isinstance(mt, tuple) and len(mt) == 2 and str(mt[0]) == str(step[2]):
                            hit = mt[1]
                t = hit if hit is not None else ('sfield', step[1], step[2], t)
            elif step[0] in ('ref', 'at', 'or'):
                pass
            else:
                t = ('proj?', str(step), t)
        return t

    def for_binding_term(self, d, depth):
        src = d.src
        fid = src['id']
        info = analyse_iter(src['expr'])
        ppath = list(d.ppath)
        ppath = [s for s in ppath if s[0] not in ('ref', 'at')]
        if info.enumerate:
            if ppath and ppath[0] == ('tuple', 0):
                if len(ppath) == 1:
                    return ('idx', fid)
                return ('proj?', str(ppath), ('idx', fid))
            if ppath and ppath[0] == ('tuple', 1):
                ppath = ppath[1:]
            elif not ppath:
                return ('enum_pair', fid)
        if info.zipped is not None:
            # (a, b) in x.zip(y): only model component 0 as elem of base, component 1 as elem of zipped
            if ppath and ppath[0] == ('tuple', 1):
                zi = analyse_iter(info.zipped)
                zb = self.term(zi.base, src['scope'], depth + 1)
                t = ('zip_elem', fid, zb)
                return self.project(t, ppath[1:], d, depth)
            if ppath and ppath[0] == ('tuple', 0):
                ppath = ppath[1:]
        # element of the base collection
        base = info.base
        elem = None
        if base['k'] == 'Path' and len(base['path']['segs']) == 1:
            cd = src['scope'].lookup(base['path']['s'])
            if cd is not None and cd.kind != 'let':
                bt = self.def_term(cd, depth + 1)
                if isinstance(bt, tuple) and bt[0] == 'var':
                    cd = self.def_by_id(bt[1])
            if cd is not None and cd.kind == 'let':
                ps = self.pushes().get(cd.id)
                if ps:
                    # collection summary: element = pushed value(s), evaluated in the pushing scope
                    vals = []
                    for ev, kind, key, val in ps:
                        if info.method in ('keys', 'into_keys') and key is not None:
                            vals.append(self.term(key, ev.scope, depth + 1))
                        elif info.method in ('iter', 'into_iter', None) and kind == 'insert':
                            vals.append(('tuple', self.term(key, ev.scope, depth + 1), self.term(val, ev.scope, depth + 1)))
                        else:
                            vals.append(self.term(val, ev.scope, depth + 1))
                    if len(vals) == 1:
                        elem = ('via', cd.id, vals[0])
                    else:
                        elem = ('via_multi', cd.id) + tuple(vals)
        if elem is None:
            elem = ('elem', fid)
        if elem[0] == 'via':
            t = self.project(elem[2], ppath, d, depth)
            return t
        return self.project(elem, ppath, d, depth)


def term_s(t, maxlen=200):
    def go(t, d=0):
        if d > 60:
            return '…'
        if not isinstance(t, tuple):
            return str(t)
        if not t:
            return '()'
        h = t[0]
        if h == 'field':
            return '%s.%s' % (go(t[1], d + 1), t[2])
        if h == 'param':
            return t[1]
        if h == 'elem':
            return 'elem#%s' % t[1]
        if h == 'idx':
            return 'idx#%s' % t[1]
        if h == 'lit':
            return repr(t[2])
        if h == 'path':
            return t[1]
        return '%s(%s)' % (h, ', '.join(go(x, d + 1) for x in t[1:]))
    s = go(t)
    return s if len(s) <= maxlen else s[:maxlen] + '…'


def term_contains(t, pred):
    if pred(t):
        return True
    if isinstance(t, tuple):
        return any(term_contains(x, pred) for x in t[1:] if isinstance(x, tuple))
    return False


def subterms(t):
    yield t
    if isinstance(t, tuple):
        for x in t[1:]:
            if isinstance(x, tuple):
                yield from subterms(x)


IOI = 'crate::common::ident_index::IdentOrIndex::'


def _contains_term(t, x):
    if t == x:
        return True
    if isinstance(t, tuple):
        return any(_contains_term(y, x) for y in t)
    return False


def _is_none(t, scrut=None):
    return t == ('None',) or (scrut is not None and t == scrut)


def _post_canon(t, depth=0):
    """local canonical forms applied to every term as it is built"""
    if depth > 6 or not isinstance(t, tuple) or not t:
        return t
    # the payload of an Option that is known to be `Some`: of `Some(v)` it is v, of `if let .. { Y } else { None }` it is the payload of Y
    if t[0] == 'some_of' and len(t) == 2 and isinstance(t[1], tuple) and t[1]:
        y = t[1]
        if y[0] == 'Some' and len(y) == 2:
            return y[1]
        if y[0] == 'iflet' and len(y) == 5 and _is_none(y[4], y[2]) and isinstance(y[3], tuple) and y[3] and y[3][0] in ('Some', 'iflet'):
            return _post_canon(('some_of', y[3]), depth + 1)
    if t[0] == 'proj' and len(t) == 3 and isinstance(t[2], tuple) and t[2] and t[2][0] == 'some_of':
        inner = _post_canon(t[2], depth + 1)
        if inner != t[2]:
            return _post_canon(('proj', t[1], inner), depth + 1)
    # a projection of `get_key_value` that only looks at the value is `get`
    if t[0] == 'proj' and len(t) == 3 and t[1] == 1 and isinstance(t[2], tuple) and t[2][0] == 'some_of' and isinstance(t[2][1], tuple) \
            and t[2][1][0] == 'mcall' and len(t[2][1]) == 4 and t[2][1][2] == 'get_key_value':
        return ('some_of', ('mcall', t[2][1][1], 'get', t[2][1][3]))
    if t[0] == 'proj' and len(t) == 3 and isinstance(t[1], int) and isinstance(t[2], tuple) and t[2] and t[2][0] == 'tuple' and t[1] + 1 < len(t[2]):
        return t[2][t[1] + 1]
    if len(t) == 5 and t[0] == 'iflet' and isinstance(t[1], str) and t[1].startswith('Some('):
        X, a, b = t[2], t[3], t[4]
        # the scrutinee is itself `Some(V)`: the then-branch with V for the payload
        if isinstance(X, tuple) and len(X) == 2 and X[0] == 'Some':
            return _post_canon(subst_term(subst_term(a, ('some_of', X), X[1]), ('payload', 'Some', 0, X), X[1]), depth + 1)
        # `if let Some(p) = (if let Q = A { Y } else { None }) { F } else { None }`  ==  `if let Q = A { if let Some(p) = Y { F } else { None } } else { None }`
        if isinstance(X, tuple) and len(X) == 5 and X[0] == 'iflet' and _is_none(X[4], X[2]) and _is_none(b, X):
            inner = ('iflet', t[1], X[3], subst_term(a, X, X[3]), ('None',))
            return _post_canon(('iflet', X[1], X[2], _post_canon(inner, depth + 1), ('None',)), depth + 1)
        # `get_key_value` whose key is never looked at is `get`
        if isinstance(X, tuple) and len(X) == 4 and X[0] == 'mcall' and X[2] == 'get_key_value' and not _contains_term(a, ('proj', 0, ('some_of', X))):
            Y = ('mcall', X[1], 'get', X[3])
            a2 = subst_term(a, ('proj', 1, ('some_of', X)), ('some_of', Y))
            if not _contains_term(a2, X):
                return _post_canon(('iflet', 'Some(_)', Y, a2, subst_term(b, X, Y)), depth + 1)
    if len(t) == 5 and t[0] == 'iflet' and isinstance(t[1], str) and t[1].startswith('Some('):
        X, a, b = t[2], t[3], t[4]
        # `match ident { Some(i) => IdentOrIndex::from(i), None => IdentOrIndex::from(index) }` is from_ident_with_index(ident, index)
        if isinstance(a, tuple) and isinstance(b, tuple) and len(a) == 3 and len(b) == 3 and a[0] == 'call' and b[0] == 'call' \
                and a[1] == IOI + 'from' and b[1] == IOI + 'from' and a[2] in (('some_of', X), ('payload', 'Some', 0, X)):
            return ('call', IOI + 'from_ident_with_index', X, b[2])
    return t


def _split_tuple_pat(ps):
    """components of a printed tuple pattern `(P, Q)`; None if it is not one"""
    ps = ps.strip()
    if not (ps.startswith('(') and ps.endswith(')')):
        return None
    inner = ps[1:-1]
    out, depth, cur = [], 0, ''
    for ch in inner:
        if ch in '([{':
            depth += 1
        elif ch in ')]}':
            depth -= 1
            if depth < 0:
                return None
        if ch == ',' and depth == 0:
            out.append(cur.strip())
            cur = ''
        else:
            cur += ch
    if cur.strip():
        out.append(cur.strip())
    return out


def match_arms(t):
    """(scrutinee, [(pattern text, value term)]) of a `match` term or of the `if let` a two-way match is canonicalised to; else None"""
    if not isinstance(t, tuple) or not t:
        return None
    if t[0] == 'match':
        return t[1], list(t[2:])
    if t[0] == 'iflet':
        p = t[1]
        other = 'None' if p.startswith('Some(') else ('Err(_)' if p.startswith('Ok(') else '_')
        return t[2], [(p, t[3]), (other, t[4])]
    return None


def subst_term(t, old, new):
    if t == old:
        return new
    if isinstance(t, tuple):
        return tuple(subst_term(x, old, new) for x in t)
    return t
